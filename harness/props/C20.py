"""C20 -- exports state exactly the calls they were given (export bed / vcf / seg / jtv / cdt / nexus-basic)."""
from __future__ import annotations

import math
import os
import re
import shutil
import subprocess
import sys
import tempfile
from fractions import Fraction

from ..core import frac, REPO
from . import _call as K

LEVEL = "proof"
RULE = ("segment tables of 0..25 rows (classes autosome / X / Y / PAR-X / PAR-Y incl. PAR boundary coordinates +-1, "
        "segments starting at 0, either or mixed naming style, sorted or shuffled; in 20 % of the in-memory tables also "
        "mitochondrial / unplaced / decoy contigs) with a cn column (values at and "
        "next to the ploidy and the expected copies, 0, random) or without one (log2 of n/r for n 0..8, integer log2 "
        "making exact .5 ties, random) x ploidy 1..6 x sample sex x reference sex x {none, grch37, grch38; spelled in "
        "lower / mixed / upper case} through "
        "export_bed (3 show modes, label given / empty / genes, 15 % without a probes column) and export_vcf (sample id "
        "given / empty / default; on 25 % of the sorted tables with confidence limits: a bin-level cnarr, or ci_left / "
        "ci_right columns), parsed field by field.  REPRESENTATION of those tables (invisible to the model): as built; "
        "30 % as a boolean-mask subset of a larger table (index labels != positions); 10 % with repeated index labels; "
        "40 % with the other columns of a .cns (baf cn1 cn2 depth weight ci_lo ci_hi p_ttest); 40 % in the column order "
        "`call` writes or shuffled; 25 % after the same object went through 1..2 other exporter calls; arguments "
        "positional / keyword / trailing default left out; the sample sex as bool / numpy.bool_ / None.  "
        "1..5 segment files through export_seg (+- enumerate-chroms given positionally / by keyword / left out, any "
        "sample -- also the only one -- without probes, a header-only sample among others, files with the other .cns "
        "columns, duplicate sample IDs, file names as list or tuple); 1..5 bin files through merge_samples + fmt_jtv / "
        "fmt_cdt (equal bins, one coordinate / "
        "gene / chromosome / length changed, duplicate IDs, both; .cnr files with or without depth / weight / gc / rmask "
        "/ spread columns; names as list or tuple) and export_nexus_basic (subset / repeated index / extra / shuffled "
        "columns / object reused).  COMMAND LINE (counts of the quick tier): 48 bed + 48 vcf + 16 seg + 16 jtv|cdt + 16 nexus-basic cases through "
        "commands.parse_args + the command function in this process, and 13 through cnvkit.py in a subprocess, walking "
        "through: each accepted spelling of the sample sex under -x / --sample-sex / -g / --gender, the sex left out, "
        "-y / --male-reference / --haploid-x-reference, --ploidy 2 and --show ploidy left to their defaults, the genome "
        "name in any case, -o or standard output, a second segment file before / after on export bed, -i alone / with "
        "--label-genes, --label-genes, vcf --cnr; every command-line table carries an X and a Y segment neutral for "
        "exactly the case's sample sex.  COMMAND-LINE GLUE handed to the model UNRESOLVED (ops cmd_export_bed / cmd_export_vcf, "
        "Model/ExportExt.lean; 60 + 30 cases in the quick tier): 1..3 segment files per `export bed` (each with its own "
        "columns and its own apparent sex), the sample sex left out or in each of the eight accepted spellings under each "
        "option name -- in 40 % of the files the table looks like the OTHER sex, so the stated one must win, and with the "
        "sex left out the files may disagree, so each must be treated with the sex inferred from IT --, -i LABEL / -i '' / "
        "--label-genes / both / neither, --show in its three values or left out, --ploidy left out; the model is told "
        "only what guess_xx infers per file.  CONFIDENCE LIMITS (op export_vcf_ci, 90 cases in the quick tier, 1 in 6 through "
        "commands.parse_args): 1..12 segments with ci_left / ci_right stated per row (margin 0, 1, 0..9, anywhere in the "
        "segment, half / a third of it, the whole segment, 1..5 outside it), every representation above; CIPOS / CIEND of "
        "each record compared as four integers. non-trivial = non-empty input; distinct by hash of the case")
EXHAUSTIVE = {"quick": False, "thorough": False}
ASSUMPTIONS = [
    "ratio space: the model receives the exact value of the double 2**log2; r*t in floats is covered by the knife-edge "
    "rule (cases within 1e-9 of a .5 boundary are skipped unless the float product is exact)",
    "files handed to export seg / jtv / cdt / nexus-basic and to the CLI are written sorted in cnvkit's order with "
    "finite log2, so that reading them (C08's subject) is the identity; the adapter checks that on every case",
    "vcf: the table has a probes column of non-negative integers (str(probes).isdigit()); tables without it or with "
    "negative counts yield no record at all -- run as a malformed stream, model mirrors it, spec not applied",
    "command line with the sample sex left out: the model is given the sex that guess_xx infers from the table as "
    "read (C15's subject); the tie then covers verify_sample_sex and the option plumbing",
    "source tie (Generated/ExprsExport.lean): segments2vcf is read WITHOUT the confidence-limit columns (`\"ci_left\" in "
    "segments` resolved to False); call.absolute_expect / absolute_clonal / absolute_dataframe and guess_xx are typed "
    "parameters (C01's / C15's subjects) whose argument lists are checked textually; Python's float formatting inside the "
    "INFO f-strings is a parameter",
    "vcf with confidence limits (cnarr / --cnr, or ci_left + ci_right columns): each record additionally carries "
    "CIPOS and CIEND after the seven modelled INFO keys; op export_vcf (and the --cnr path, whose limits come from "
    "assign_ci_start_end / by_ranges) checks that they are there and drops them; op export_vcf_ci (round 5, ci_left + "
    "ci_right columns stated by the case) compares their four integers with Model/ExportCiExt5.lean -- the model "
    "mirrors the code as it is (limits shifted over the rows of the table, `end - ci_right` printed unsigned), the "
    "property's text says nothing about these two fields",
    "export_vcf_ci: the table has at least one row (on an empty table with ci_left / ci_right pandas refuses the "
    "shifted column: ValueError)",
]
TRUSTED_EXTRA = ["harness/exprtrans.py class RowFn: the ROW-wise reading of column-wise pandas code (rules at the top of the file)",
                 "pandas boolean-mask selection, Series.replace, concat, itertuples, to_csv as modelled in Model/Export.lean",
                 "harness/colread_c20ci.py: the COLUMN-wise reading of the confidence-limit block of segments2vcf (rules at the top of the file)",
                 "harness/segread_c20.py: the ROW-wise reading of tabio.seg.format_seg (assign / rename / reindex over a typed row), of the comprehension of create_chrom_ids, of write_seg's chrom_ids test and export_seg's default (rules at the top of the file)",
                 "harness parsing of the VCF / BED / SEG / TSV text into fields (split on tab, ';', '=', ':')",
                 "tabio.read (tab format) on sorted finite input is the identity (checked per case by the adapter)",
                 "argparse: an option string reaches the command function as the attribute the parser declares"]

GENES = ["A", "B", "C,D", "-", "G1", "TP53"]
RESERVED = ["chromosome", "start", "end", "gene", "label"]
# keys of a case that only steer run_impl (how the table is built / which door is used); never sent to the model
HARNESS_KEYS = {"via", "cli_opts", "sub", "extra", "colorder", "dupidx", "pre", "argstyle", "female_repr", "ci", "cnr",
                "ftuple"}
SEX_MALE = ("m", "y", "male", "Male")
SEX_FEMALE = ("f", "x", "female", "Female")
PAR_SPELL = {"grch37": ["grch37", "GRCh37", "GRCH37"], "grch38": ["grch38", "GRCh38", "GRCH38"]}
# columns a .cns carries besides the five required ones, probes and cn (segment / call / segmetrics output)
SEG_EXTRA = ["baf", "cn1", "cn2", "depth", "weight", "ci_lo", "ci_hi", "p_ttest"]
BIN_EXTRA = ["depth", "weight", "gc", "rmask", "spread"]
ALT_CONTIGS = {"chr": ["chrM", "chrUn_KI270742v1", "chr1_KI270706v1_random", "chrEBV"],
               "plain": ["MT", "GL000218.1", "KI270706.1", "NC_007605"]}


class HarnessAssumption(Exception):
    pass


# ---------------------------------------------------------------------------------------------
# generation


def _chrom_key(c):
    k = c[3:] if c.lower().startswith("chr") else c
    if k in ("X", "Y"):
        return (1000, k)
    if not k.isdigit():
        return (2000, c)  # alternative contigs (tables built in memory only): after the numbered ones
    return (int(k), "")


def _sorted(rows):
    return sorted(rows, key=lambda r: (_chrom_key(r[0]), r[1], r[2]))


def _expected(cls, ploidy, female):
    return K.prose_copies(cls, ploidy, True, female)[1]


def _seg_rows(rng, n, ploidy, hapx, female, style, par, has_cn, sort, alt=False, sentinels=False):
    """rows [chrom, s, e, gene, log2, probes, cn] as Python values"""
    classes = ["auto", "auto", "auto", "x", "y"] + (["parx", "pary"] if par else []) + (["alt"] if alt else [])
    rows = []
    for _ in range(n):
        cls = rng.choice(classes)
        st = style if style != "mixed" else rng.choice(["chr", "plain"])
        if cls == "alt":
            # mitochondrion / unplaced / decoy contigs: autosome-like for every exporter
            cls = "auto"
            c, s, e = K.make_row(rng, cls, st, par)
            c = rng.choice(ALT_CONTIGS[st])
            s, e = s % 16000, s % 16000 + 1 + (e - s) % 500
        else:
            c, s, e = K.make_row(rng, cls, st, par)
        if cls == "auto" and rng.random() < 0.25:
            e, s = e - s, 0  # a segment starting at 0
        if cls in ("x", "y") and par is None and rng.random() < 0.2:
            e, s = e - s, 0
        exp = _expected(cls, ploidy, female)
        ref = ploidy // 2 if (cls in ("y", "pary") or (hapx and cls in ("x", "parx"))) else ploidy
        kind = rng.random()
        if kind < 0.35:
            n_true = rng.choice([exp, exp, exp + 1, max(0, exp - 1), ploidy, 0, rng.randint(0, 8)])
            lg = math.log2(n_true / ref) if (ref > 0 and n_true > 0) else float(rng.randint(-25, -3))
        elif kind < 0.6:
            lg = float(rng.choice([-3, -2, -1, -1, 0, 0, 1, 2]))  # exact products, .5 ties with odd copies
        elif kind < 0.7:
            lg = math.log2(rng.choice([1.5, 2.5, 0.75, 1.25, 0.375]))
        else:
            lg = rng.uniform(-3, 2) if rng.random() < 0.8 else rng.uniform(-30, 30)
        if sort == "cli":
            lg = round(lg, 3)
        cn = rng.choice([exp, exp, ploidy, exp + 1, max(0, exp - 1), 0, rng.randint(0, 9)])
        rows.append([c, s, e, rng.choice(GENES), lg, rng.randint(1, 500), cn])
    if sentinels:
        # an X and a Y segment that are neutral for exactly the sample sex of the case: with the other sex they
        # would be listed / reported, so a command line that gets the sex wrong cannot go unnoticed
        for st in (["chr", "plain"] if style == "mixed" else [style]):
            for cls in ("x", "y"):
                c, s, e = K.make_row(rng, cls, st, par)
                exp = _expected(cls, ploidy, female)
                ref = ploidy // 2 if (cls == "y" or hapx) else ploidy
                lg = math.log2(exp / ref) if (ref > 0 and exp > 0) else -20.0
                rows.append([c, s, e, "sentinel", round(lg, 3) if sort == "cli" else lg, rng.randint(1, 500), exp])
    if sort in ("sorted", "cli"):
        rows = _sorted(rows)
    return rows


def _enc_seg(r):
    return [r[0], r[1], r[2], r[3], frac(r[4]), frac(2.0 ** r[4]), r[5], r[6]]


def _cnr_bins(rng, rows):
    """bins of a .cnr lying inside the (sorted) segments, 0..3 per segment, at least one in all"""
    bins = []
    for r in rows:
        c, s, e = r[0], r[1], r[2]
        k = min(rng.choice([0, 1, 2, 3]), e - s)
        cuts = sorted(rng.sample(range(s + 1, e), k - 1)) if k > 1 else []
        for a, b in zip([s] + cuts, cuts + [e]) if k else []:
            bins.append([c, a, b])
    if not bins:
        bins.append([rows[0][0], rows[0][1], rows[0][2]])
    return [list(b) for b in sorted({tuple(b) for b in bins}, key=lambda b: (_chrom_key(b[0]), b[1], b[2]))]


def _table_repr(rng, i, n, files):
    """how the table reaches the exporter (none of this is visible to the model): a filtered SUBSET of a larger
    table (index labels != positions), repeated index labels, the other columns a .cns carries, their order"""
    if rng.random() < 0.4:
        i["extra"] = rng.sample(SEG_EXTRA, rng.randint(1, len(SEG_EXTRA)))
    if rng.random() < 0.4:
        i["colorder"] = "call" if (files or rng.random() < 0.5) else rng.randrange(10 ** 6)
    if files or n == 0:
        return
    k = rng.random()
    if k < 0.3:
        i["sub"] = rng.randrange(10 ** 6)
    elif k < 0.4 and n > 1:
        i["dupidx"] = True


def _cli_opts(rng, i, op, turn):
    """how the options are spelled on the command line; `turn` (the running number of the case) walks through the
    cells so that each one is reached whatever the seed"""
    o = {}
    if turn % 3 == 0:
        o["sex"] = (SEX_FEMALE if i["female"] else SEX_MALE)[(turn // 3) % 4]
        o["sex_flag"] = ["-x", "--sample-sex", "-g", "--gender"][(turn // 12) % 4]
    elif turn % 3 == 1:
        o["sex"] = None  # left out: inferred from the table (guess_xx, C15's subject; see ASSUMPTIONS)
    if i["hapX"]:
        o["hapx_flag"] = rng.choice(["-y", "--male-reference", "--haploid-x-reference"])
    o["implicit"] = turn % 5 != 4  # --ploidy 2 / --show ploidy left to their defaults where they apply
    o["stdout"] = turn % 4 == 1
    if i["par"]:
        i["par_f"] = rng.choice(PAR_SPELL[i["par"]])
    if op == "export_bed":
        if i["label"] is None and turn % 2 == 0:
            o["co"] = (turn // 2) % 2  # a second segment file on the same command line, before / after
        if i["label"] not in (None, "@genes") and turn % 2 == 0:
            o["label_genes_too"] = True  # -i wins over --label-genes
    return o


def _segcase(rng, op, via=None, nmax=25, force=None, turn=None):
    force = force or {}
    plain = force.get("plain", False)
    ploidy = force.get("ploidy", rng.randint(1, 6))
    hapx = force.get("hapX", rng.random() < 0.5)
    female = force.get("female", rng.random() < 0.5)
    par = force.get("par", rng.choice([None, None, "grch37", "grch38"]))
    style = rng.choice(["chr", "chr", "plain", "plain", "mixed"])
    has_cn = force.get("has_cn", rng.random() < 0.5)
    n = rng.choice([0, 1, 2, 3]) if rng.random() < 0.15 else rng.randint(1, nmax)
    if via:
        n = max(n, 1)
    sort = "cli" if via else rng.choice(["sorted", "sorted", "shuffled"])
    alt = (not via) and (not plain) and rng.random() < 0.2
    rows = _seg_rows(rng, n, ploidy, hapx, female, style, par, has_cn, sort, alt, sentinels=bool(via) and not plain)
    i = {"rows": [_enc_seg(r) for r in rows], "log2_f": [r[4] for r in rows], "ploidy": ploidy, "hapX": hapx,
         "female": female, "par": par, "has_cn": has_cn, "has_probes": True, "seg_id": "S"}
    if op == "export_bed":
        i["label"] = rng.choice([None, "", "lab", "tumor-1"]) if not via else rng.choice([None, None, "lab", "@genes"])
        i["label"] = force.get("label", i["label"])
        i["show"] = force.get("show", rng.choice(["all", "ploidy", "variant", "variant"]))
        if not plain and rng.random() < 0.15:
            i["has_probes"] = False  # a .cns without probe counts: nothing export bed needs
    else:
        i["sample_id"] = rng.choice([None, "", "TUMOR"]) if not via else rng.choice([None, "TUMOR"])
    rep = ""
    if not plain:
        _table_repr(rng, i, n, files=bool(via))
        if op == "export_vcf" and n > 0 and sort != "shuffled":
            k = rng.random()
            if k < 0.15:
                i["cnr"] = _cnr_bins(rng, rows)  # bin-level file given: CIPOS / CIEND are added to each record
            elif k < 0.25:
                i["ci"] = True  # the segment table itself carries ci_left / ci_right
        if not via:
            # the same object handed to other exporters first; how the arguments are passed
            if rng.random() < 0.25:
                i["pre"] = [rng.choice(["vcf", "bed:all", "bed:ploidy", "bed:variant"]) for _ in range(rng.randint(1, 2))]
            i["argstyle"] = rng.choice(["pos", "pos", "kw", "implicit"])
            i["female_repr"] = rng.choice(["bool", "bool", "np", "none"])
            if par and rng.random() < 0.3:
                i["par_f"] = rng.choice(PAR_SPELL[par])
        rep = "".join("+" + k for k in ("sub", "dupidx", "extra", "colorder", "cnr", "ci", "pre") if i.get(k) is not None)
    if via:
        i["via"] = via
        if not plain:
            i["cli_opts"] = _cli_opts(rng, i, op, rng.randrange(60) if turn is None else turn)
            rep += "".join("+" + k for k, v in i["cli_opts"].items() if k in ("co", "stdout") and v not in (None, False))
            if "sex" in i["cli_opts"]:
                rep += "+sexspelt" if i["cli_opts"]["sex"] else "+nosex"
    tag = f"{via + '-' if via else ''}{i.get('show', 'vcf')}-{'cn' if has_cn else 'log2'}{rep}"
    return {"op": op, "tag": tag, "in": i}


def _malformed_vcf(rng):
    c = _segcase(rng, "export_vcf", nmax=8)
    if rng.random() < 0.5:
        c["in"]["has_probes"] = False
        c["tag"] = "malformed-no-probes"
    else:
        for r in c["in"]["rows"]:
            if rng.random() < 0.5:
                r[6] = -r[6]
        c["tag"] = "malformed-negative-probes"
    return c


def _segfile_case(rng, via=None):
    k = rng.randint(1, 5)
    ids = []
    for j in range(k):
        ids.append(rng.choice(ids) if (ids and rng.random() < 0.2) else f"S{j}{rng.choice(['', 'a', '_t'])}")
    style = rng.choice(["chr", "plain", "plain"])
    samples = []
    for j in range(k):
        n = rng.randint(1, 12)
        pre = "chr" if style == "chr" else ""
        pool = [pre + str(x) for x in rng.sample(range(1, 23), rng.randint(1, 5))] + [pre + "X", pre + "Y"]
        if style == "plain" and rng.random() < 0.5:
            pool = ["1", "2", "3", "5", "X"]
        if k > 1 and rng.random() < 0.08:
            n = 0  # a sample without a single segment (header-only file) among the others
        rows = []
        for _ in range(n):
            s = rng.choice([0, 0, rng.randint(0, 10 ** 7)])
            lg = rng.uniform(-3, 2)
            if via:
                lg = round(lg, 3)
            rows.append([rng.choice(pool), s, s + rng.randint(1, 10 ** 6), rng.choice(GENES), lg, rng.randint(1, 300),
                         rng.randint(0, 5)])
        rows = _sorted(rows)
        sm = {"id": ids[j], "has_probes": rng.random() >= 0.12,
              "rows": [_enc_seg(r) for r in rows], "log2_f": [r[4] for r in rows]}
        if rng.random() < 0.5:
            # the other columns of a called / annotated .cns (none of them is exported)
            sm["extra"] = rng.sample(["cn"] + SEG_EXTRA, rng.randint(1, 5))
        samples.append(sm)
    i = {"samples": samples, "enumerate": rng.random() < 0.4}
    if via:
        i["via"] = via
        i["cli_opts"] = {"stdout": rng.random() < 0.3}
    else:
        i["argstyle"] = rng.choice(["pos", "kw", "implicit"])  # implicit: chrom_ids left to its default when False
        i["ftuple"] = rng.random() < 0.3
    dup = len(set(ids)) < len(ids)
    feat = ("-dupid" if dup else "") + ("-emptysample" if any(not sm["rows"] for sm in samples) else "") + \
           ("-noprobes" if any(not sm["has_probes"] for sm in samples) else "") + \
           ("-extra" if any(sm.get("extra") for sm in samples) else "")
    return {"op": "export_seg", "tag": (via + "-" if via else "") + ("enum" if i["enumerate"] else "plain") + feat, "in": i}


def _segsrc_case(rng, t):
    """export_seg cases aimed at the source-tied branches: a first sample whose chromosomes already are their numbers
    (empty mapping: `if chrom_ids` is false although the option is on), shifted numeric names (every key is another
    key's number), a later sample with chromosomes the first does not have, probes column present / absent per sample"""
    kind = t % 4
    firsts = [["1", "2", "3"], ["2", "3", "4"], ["1", "3", "X"], ["chr1", "chr2", "chrX"]][kind]
    others = [["1", "4", "X"], ["1", "2", "5"], ["2", "3", "Y"], ["chr2", "chr7", "chrY"]][kind]
    k = 1 + (t // 4) % 3
    samples = []
    for j in range(k):
        pool = firsts if j == 0 else others
        rows = []
        for c in (pool if j == 0 else rng.sample(pool, rng.randint(1, len(pool)))):
            for _ in range(rng.randint(1, 2)):
                s = rng.choice([0, rng.randint(0, 10 ** 6)])
                rows.append([c, s, s + rng.randint(1, 10 ** 5), rng.choice(GENES), round(rng.uniform(-3, 2), 3),
                             rng.randint(1, 300), rng.randint(0, 5)])
        rows = _sorted(rows)
        samples.append({"id": f"Q{j}", "has_probes": (t + j) % 3 != 0,
                        "rows": [_enc_seg(r) for r in rows], "log2_f": [r[4] for r in rows]})
    enum = t % 8 < 6
    i = {"samples": samples, "enumerate": enum, "argstyle": ["pos", "kw", "implicit"][t % 3], "ftuple": t % 5 == 0}
    return {"op": "export_seg", "tag": "segsrc-" + ("enum" if enum else "plain") + "-" +
            ["identity", "shifted", "partial", "chr"][kind] + ("-noprobes" if any(not sm["has_probes"] for sm in samples) else ""),
            "in": i}


def _bins(rng, n, style, via):
    pre = "chr" if style == "chr" else ""
    rows = []
    chroms = [pre + str(x) for x in sorted(rng.sample(range(1, 23), rng.randint(1, 3)))] + [pre + "X"]
    for c in chroms:
        pos = rng.choice([0, rng.randint(0, 10 ** 5)])
        for _ in range(max(1, n // len(chroms))):
            ln = rng.randint(1, 5000)
            lg = rng.uniform(-4, 3)
            if via:
                lg = round(lg, 3)
            rows.append([c, pos, pos + ln, rng.choice(GENES), lg])
            pos += ln + rng.choice([0, 0, rng.randint(1, 1000)])
    return rows


def _tablecase(rng, via=None, kind=None):
    k = rng.randint(1, 5)
    style = rng.choice(["chr", "plain"])
    base = _bins(rng, rng.randint(1, 14), style, via)
    kind = kind or rng.choice(["equal", "equal", "equal", "mismatch", "mismatch", "dupid", "both", "reserved"])
    if k == 1 and kind != "reserved":
        kind = "equal"
    ids = [f"s{j}" for j in range(k)]
    if kind in ("dupid", "both"):
        a, b = rng.sample(range(k), 2)
        ids[max(a, b)] = ids[min(a, b)]
    if kind == "reserved":
        ids[rng.randrange(k)] = rng.choice(RESERVED)
    bad = rng.randrange(1, k) if kind in ("mismatch", "both") else None
    how = None
    samples = []
    for j in range(k):
        bins = [list(b) for b in base]
        for b in bins:
            b[4] = round(rng.uniform(-4, 3), 3) if via else rng.choice([rng.uniform(-4, 3), float(rng.randint(-3, 3)), b[4]])
        if j == bad:
            how = rng.choice(["start", "end", "gene", "chrom", "drop", "extra", "swapgene"])
            t = rng.randrange(len(bins))
            if how == "start":
                bins[t][1] += rng.choice([-1, 1]) if bins[t][1] > 0 else 1
                if bins[t][1] >= bins[t][2]:
                    bins[t][2] = bins[t][1] + 1
            elif how == "end":
                bins[t][2] += 1
            elif how == "gene":
                bins[t][3] = bins[t][3] + "x"
            elif how == "chrom":
                newc = ("chr" if style == "chr" else "") + "Y"
                bins[-1][0] = newc  # the last row moves to Y: stays sorted
            elif how == "drop":
                if len(bins) > 1:
                    bins.pop(t)
                else:
                    bins[t][3] = bins[t][3] + "x"
            elif how == "extra":
                last = bins[-1]
                bins.append([last[0], last[2] + 5, last[2] + 50, "A", 0.25])
            elif how == "swapgene":
                if len(bins) > 1 and bins[0][3] != bins[-1][3]:
                    bins[0][3], bins[-1][3] = bins[-1][3], bins[0][3]
                else:
                    bins[t][3] = bins[t][3] + "x"
        bins = _sorted(bins)
        sm = {"id": ids[j], "bins": [[b[0], b[1], b[2], b[3], frac(b[4])] for b in bins], "log2_f": [b[4] for b in bins]}
        if rng.random() < 0.5:
            sm["extra"] = rng.sample(BIN_EXTRA, rng.randint(1, len(BIN_EXTRA)))  # a .cnr as `fix` writes it
        samples.append(sm)
    i = {"samples": samples, "fmt": rng.choice(["jtv", "cdt"])}
    if via:
        i["via"] = via
        i["cli_opts"] = {"stdout": rng.random() < 0.3}
    else:
        i["ftuple"] = rng.random() < 0.3
    return {"op": "export_table", "tag": (via + "-" if via else "") + i["fmt"] + "-" + kind + (("-" + how) if how else ""), "in": i}


def _nexuscase(rng, via=None):
    bins = _sorted(_bins(rng, rng.randint(1, 14), rng.choice(["chr", "plain"]), via))
    i = {"bins": [[b[0], b[1], b[2], b[3], frac(b[4])] for b in bins], "log2_f": [b[4] for b in bins]}
    if rng.random() < 0.5:
        i["extra"] = rng.sample(BIN_EXTRA, rng.randint(1, len(BIN_EXTRA)))
    if via:
        i["via"] = via
        i["cli_opts"] = {"stdout": rng.random() < 0.3}
    else:
        k = rng.random()
        if k < 0.4:
            i["sub"] = rng.randrange(10 ** 6)
        elif k < 0.55 and len(bins) > 1:
            i["dupidx"] = True
        if rng.random() < 0.3:
            i["colorder"] = rng.randrange(10 ** 6)
        if rng.random() < 0.2:
            i["pre"] = ["nexus"]
    rep = "".join("+" + k for k in ("sub", "dupidx", "extra", "colorder", "pre") if i.get(k) is not None)
    return {"op": "export_nexus_basic", "tag": (via + "-" if via else "") + "nexus" + rep, "in": i}


def _cmdcase(rng, op, turn):
    """`cnvkit.py export bed FILE... | export vcf FILE` with the options handed to the MODEL as argparse receives them:
    the sex as spelled (or left out), -i, --label-genes, --show; per file the model is told only what `guess_xx` infers
    from it.  `turn` walks through the cells so that each is reached whatever the seed."""
    ploidy = 2 if turn % 4 == 0 else rng.randint(1, 6)
    hapx = rng.random() < 0.5
    par = rng.choice([None, None, "grch37", "grch38"])
    # the sex on the command line: every accepted spelling in turn, or nothing
    spell = [None, "m", "f", "y", "x", None, "male", "female", "Male", "Female"][turn % 10]
    nfiles = 1 if op == "cmd_export_vcf" else [1, 2, 3, 2][turn % 4]
    files = []
    style = rng.choice(["chr", "plain"])
    for k in range(nfiles):
        # the rows are neutral on X / Y for one sex; with the sex left out the files may disagree (each file is
        # treated with the sex inferred from IT)
        fem = (spell in ("f", "x", "female", "Female")) if spell else rng.random() < 0.5
        if spell and rng.random() < 0.4:
            fem = not fem   # the table looks like the other sex: the stated one must win
        has_cn = rng.random() < 0.5
        rows = _seg_rows(rng, rng.randint(1, 8), ploidy, hapx, fem, style, par, has_cn, "cli", sentinels=True)
        files.append({"seg_id": f"S{k}{rng.choice(['', 'a', '_t'])}", "has_cn": has_cn,
                      "has_probes": True if op == "cmd_export_vcf" else rng.random() >= 0.15,
                      "rows": [_enc_seg(r) for r in rows], "log2_f": [r[4] for r in rows]})
    i = {"ploidy": ploidy, "hapX": hapx, "par": par, "sex": spell,
         "sample_id": [None, "lab", None, "tumor-1", None, ""][turn % 6] if op == "cmd_export_bed" else [None, "TUMOR"][turn % 2]}
    opts = {"sex_flag": ["-x", "--sample-sex", "-g", "--gender"][(turn // 10) % 4],
            "hapx_flag": rng.choice(["-y", "--male-reference", "--haploid-x-reference"]),
            "implicit": turn % 5 != 4, "stdout": turn % 4 == 1}
    if par:
        i["par_f"] = rng.choice(PAR_SPELL[par])
    if op == "cmd_export_bed":
        i["label_genes"] = turn % 3 == 1
        i["show"] = ["ploidy", "variant", "variant", "all"][(turn // 2) % 4]
        i["files"] = files
    else:
        i["file"] = files[0]
    i["via"] = "argv"
    i["cli_opts"] = opts
    tag = f"{op[4:]}-{i.get('show', 'vcf')}-{nfiles}files-sex:{spell or 'inferred'}" + \
          ("-i" if i["sample_id"] else "") + ("-genes" if i.get("label_genes") else "")
    return {"op": op, "tag": tag, "in": i}


def corpus():
    import random
    rng = random.Random(20)
    out = []
    # half-even ties without a cn column: ploidy 1/3/5 and log2 = -1 give r*t = 0.5, 1.5, 2.5
    for ploidy in (1, 3, 5):
        c = _segcase(rng, "export_bed", force={"ploidy": ploidy, "has_cn": False, "par": None, "show": "all", "plain": True})
        rows = [["chr1", 0, 100, "A", -1.0, 5, 0], ["chrX", 0, 50, "B", -1.0, 3, 0], ["chrY", 10, 20, "-", 0.0, 1, 0]]
        c["in"]["rows"] = [_enc_seg(r) for r in rows]
        c["in"]["log2_f"] = [r[4] for r in rows]
        c["tag"] = "corpus-ties"
        out.append(c)
        v = {"op": "export_vcf", "tag": "corpus-ties", "in": dict(c["in"])}
        v["in"].pop("label"), v["in"].pop("show")
        v["in"]["sample_id"] = None
        out.append(v)
    # PAR boundaries, both genomes, a start at 0, with a cn column
    for par in ("grch37", "grch38"):
        p = K.PAR[par]
        rows = [["chr1", 0, 1000, "A", 0.0, 9, 3],
                ["chrX", p["PAR1X"][0], p["PAR1X"][1], "B", 0.0, 9, 2],
                ["chrX", p["PAR1X"][0] - 1, p["PAR1X"][1], "B", 0.0, 9, 2],
                ["chrX", p["PAR2X"][0], p["PAR2X"][1] + 1, "B", 0.0, 9, 1],
                ["chrY", p["PAR1Y"][0], p["PAR1Y"][1], "C", 0.0, 9, 0],
                ["chrY", p["PAR2Y"][0], p["PAR2Y"][1], "C", 0.0, 9, 1],
                ["chrY", p["PAR2Y"][0] - 1, p["PAR2Y"][1], "C", 0.0, 9, 1]]
        for female in (False, True):
            base = {"rows": [_enc_seg(r) for r in rows], "log2_f": [r[4] for r in rows], "ploidy": 2, "hapX": True,
                    "female": female, "par": par, "has_cn": True, "has_probes": True, "seg_id": "S"}
            out.append({"op": "export_bed", "tag": "corpus-par", "in": dict(base, label=None, show="variant")})
            out.append({"op": "export_vcf", "tag": "corpus-par", "in": dict(base, sample_id="T")})
    # finding U: a neutral PAR1-X segment against a male reference (diploid-PAR genome) has 2 copies, not 1
    p = K.PAR["grch38"]["PAR1X"]
    rows = [["chr1", 0, 1000, "A", 0.0, 9, 0], ["chrX", p[0], p[1], "B", 0.0, 9, 0], ["chrX", p[1] + 10, p[1] + 500, "B", 0.0, 9, 0]]
    for show in ("variant", "all"):
        out.append({"op": "export_bed", "tag": "corpus-U",
                    "in": {"rows": [_enc_seg(r) for r in rows], "log2_f": [r[4] for r in rows], "ploidy": 2, "hapX": True,
                           "female": False, "par": "grch38", "has_cn": False, "has_probes": True, "seg_id": "S",
                           "label": None, "show": show}})
    # finding V: a sample whose ID is one of merge_samples' own column names
    bins = [["chr1", 0, 100, "A", "1/2"], ["chr1", 100, 250, "B", "-1/4"]]
    for ids in (["gene"], ["s0", "start"], ["label", "s1"]):
        for fmt in ("jtv", "cdt"):
            out.append({"op": "export_table", "tag": "corpus-V",
                        "in": {"samples": [{"id": x, "bins": bins, "log2_f": [0.5, -0.25]} for x in ids], "fmt": fmt}})
    # header-only bin files
    out.append({"op": "export_table", "tag": "corpus-empty",
                "in": {"samples": [{"id": "a", "bins": [], "log2_f": []}, {"id": "b", "bins": [], "log2_f": []}], "fmt": "jtv"}})
    return out


def gen_cases(rng, tier):
    n = {"quick": 450, "thorough": 4000, "search": 1200}[tier]
    cases = []
    for _ in range(n):
        cases.append(_segcase(rng, "export_bed"))
        cases.append(_segcase(rng, "export_vcf"))
    # every (ploidy, sex, reference, PAR genome) cell, both commands, with and without cn
    if tier != "search":
        for ploidy in range(1, 7):
            for hapx in (False, True):
                for female in (False, True):
                    for par in (None, "grch37", "grch38"):
                        f = {"ploidy": ploidy, "hapX": hapx, "female": female, "par": par,
                             "has_cn": rng.random() < 0.5, "show": "variant"}
                        cases.append(_segcase(rng, "export_bed", force=f))
                        cases.append(_segcase(rng, "export_vcf", force=f))
    m = {"quick": 100, "thorough": 800, "search": 200}[tier]
    for _ in range(m):
        cases.append(_segfile_case(rng))
        cases.append(_tablecase(rng))
        cases.append(_tablecase(rng))
    for _ in range(m // 3):
        cases.append(_nexuscase(rng))
        cases.append(_malformed_vcf(rng))
    # round 5: the confidence-limit branch of segments2vcf, values inside the model (own generator stream: the
    # cases above and below stay what they were)
    import random as _random
    crng = _random.Random(f"c20ci-{tier}-{rng.getstate()[1][0]}")  # draws nothing from rng
    for t in range({"quick": 90, "thorough": 600, "search": 150}[tier]):
        cases.append(_cicase(crng, via="argv" if t % 6 == 5 else None, turn=t))
    # round 5b: the branches of format_seg / create_chrom_ids / write_seg that Props/C20SegSrc.lean ties to the source
    # text, each reached on purpose (own generator stream)
    srng = _random.Random(f"c20segsrc-{tier}-{rng.getstate()[1][0]}")
    for t in range({"quick": 24, "thorough": 96, "search": 24}[tier]):
        cases.append(_segsrc_case(srng, t))
    # the command line: same parser and command functions in this process (cheap, so every spelling of every option
    # gets its turn) ...
    a = {"quick": 48, "thorough": 240, "search": 48}[tier]
    for t in range(a):
        f = {"show": "ploidy"} if t % 5 == 2 else ({"show": "variant"} if t % 3 != 2 else {})
        if t % 3 == 0:
            f["label"] = "lab"
        cases.append(_segcase(rng, "export_bed", via="argv", nmax=12, force=f, turn=t))
        cases.append(_segcase(rng, "export_vcf", via="argv", nmax=12, turn=t + 1))
    for _ in range(a // 3):
        cases.append(_segfile_case(rng, via="argv"))
        cases.append(_tablecase(rng, via="argv"))
        cases.append(_nexuscase(rng, via="argv"))
    # the glue of the two commands with the options handed to the model unresolved (sex spelling, -i, --label-genes,
    # several files): Model/ExportExt.lean
    b = {"quick": 60, "thorough": 300, "search": 60}[tier]
    for t in range(b):
        cases.append(_cmdcase(rng, "cmd_export_bed", t))
        if t % 2 == 0:
            cases.append(_cmdcase(rng, "cmd_export_vcf", t // 2))
    # ... and end to end through cnvkit.py in a subprocess (2 s each: spread over the list so that the worker
    # processes share them)
    k = {"quick": 1, "thorough": 4, "search": 0}[tier]
    slow = []
    for _ in range(k):
        for show in ("all", "ploidy", "variant"):
            slow.append(_segcase(rng, "export_bed", via="cli", nmax=10, force={"show": show}))
        slow.append(_segcase(rng, "export_bed", via="cli", nmax=10))
        slow.append(_segcase(rng, "export_vcf", via="cli", nmax=10, force={"has_cn": True}))
        slow.append(_segcase(rng, "export_vcf", via="cli", nmax=10, force={"has_cn": False}))
        slow.append(_segcase(rng, "export_vcf", via="cli", nmax=10))
        slow.append(_segfile_case(rng, via="cli"))
        slow.append(_segfile_case(rng, via="cli"))
        slow.append(_tablecase(rng, via="cli", kind="equal"))
        slow.append(_tablecase(rng, via="cli", kind="mismatch"))
        slow.append(_tablecase(rng, via="cli", kind="dupid"))
        slow.append(_nexuscase(rng, via="cli"))
    step = max(1, len(cases) // (len(slow) + 1))
    for j, c in enumerate(slow):
        cases.insert(min(len(cases), (j + 1) * step + j), c)
    return cases


# ---------------------------------------------------------------------------------------------
# the real code


def _f(x):
    return float(x)


def _cell(v):
    import numpy as np
    if isinstance(v, str):
        return ["s", v]
    if isinstance(v, (bool, np.bool_)):
        return ["s", str(v)]
    if isinstance(v, (int, np.integer)):
        return ["i", int(v)]
    if isinstance(v, (float, np.floating)):
        if math.isnan(v):
            return ["s", "nan"]
        return ["q", frac(float(v))]
    return ["s", str(v)]


def _extra_value(name, k, r, lg):
    """a plausible value of one of the columns the exporters do not read (row k of the table)"""
    s, e = r[1], r[2]
    return {"baf": float("nan") if k % 4 == 3 else 0.3 + (k % 5) / 20.0, "cn1": k % 3, "cn2": k % 2,
            "depth": 1.0 + 0.5 * k, "weight": 0.25 + (k % 7) / 10.0, "ci_lo": lg - 0.125, "ci_hi": lg + 0.125,
            "p_ttest": 0.5, "gc": 0.4 + (k % 3) / 10.0, "rmask": 0.125, "spread": 0.25 + (k % 4) / 8.0,
            "cn": 7 + k % 3,
            "ci_left": s + min(3 + k, (e - s) // 3), "ci_right": e - min(2 + k, (e - s) // 3)}[name]


def _order_cols(cols, colorder):
    if colorder is None:
        return list(cols)
    if colorder == "call":
        # the order `call` / `segment` write: ... log2, baf, cn, cn1, cn2, depth, probes, weight, the rest
        lead = ["chromosome", "start", "end", "gene", "log2", "baf", "cn", "cn1", "cn2", "depth", "probes", "weight"]
        return [c for c in lead if c in cols] + [c for c in cols if c not in lead]
    import random
    perm = list(cols)
    random.Random(colorder).shuffle(perm)
    return perm


def _seg_table(rows, log2s, has_cn, has_probes, extra=None, colorder=None, ci=False):
    """(column names, rows) of a segment table: the five required columns, probes / cn when the case has them,
    then whatever else the case asks for, in the order it asks for"""
    cols = ["chromosome", "start", "end", "gene", "log2"] + (["probes"] if has_probes else []) + (["cn"] if has_cn else [])
    more = [c for c in (extra or []) if c not in cols] + (["ci_left", "ci_right"] if ci else [])
    data = []
    for k, (r, lg) in enumerate(zip(rows, log2s)):
        row = {"chromosome": r[0], "start": r[1], "end": r[2], "gene": r[3], "log2": lg, "probes": r[6], "cn": r[7]}
        for name in more:
            if isinstance(ci, list) and name in ("ci_left", "ci_right"):
                row[name] = ci[k][0 if name == "ci_left" else 1]  # op export_vcf_ci: the case states the limits
            else:
                row[name] = _extra_value(name, k, r, lg)
        data.append(row)
    order = _order_cols(cols + more, colorder)
    return order, [[row[c] for c in order] for row in data]


def _subset_of_larger(cls, cols, data, seed, meta, junk):
    """the table as a boolean-mask SUBSET of a larger one: index labels differ from row positions"""
    import random
    import numpy as np
    rng = random.Random(seed)
    big, mask = [], []
    for row in data:
        for _ in range(rng.choice([0, 1, 1, 2, 3])):
            big.append(junk(list(rng.choice(data)), rng))
            mask.append(False)
        big.append(row)
        mask.append(True)
    if all(mask):
        big.insert(0, junk(list(data[-1]), rng))
        mask.insert(0, False)
    return cls.from_rows([tuple(x) for x in big], columns=cols, meta_dict=meta)[np.array(mask)]


def _dup_index(cls, arr, meta):
    """index labels repeat, as after pd.concat without ignore_index"""
    import pandas as pd
    d = arr.data.copy()
    d.index = pd.Index([k % max(1, len(d) // 2) for k in range(len(d))])
    return cls(d, dict(meta))


def _seg_cna(i, rows, log2s, has_cn, has_probes, sid="S"):
    from cnvlib.cnary import CopyNumArray as CNA
    cols, data = _seg_table(rows, log2s, has_cn, has_probes, i.get("extra"), i.get("colorder"),
                            i.get("ci_cols") or bool(i.get("ci")))
    meta = {"sample_id": sid}
    if i.get("sub") is not None and data:
        def junk(row, rng):
            for name, v in (("gene", "junk"), ("log2", 5.0 + rng.random()), ("cn", 90 + rng.randrange(9))):
                if name in cols:
                    row[cols.index(name)] = v
            return row
        arr = _subset_of_larger(CNA, cols, data, i["sub"], meta, junk)
    else:
        arr = CNA.from_rows([tuple(x) for x in data], columns=cols, meta_dict=meta)
    if i.get("dupidx") and len(arr) > 1:
        arr = _dup_index(CNA, arr, meta)
    if len(arr) != len(rows) or [str(c) for c in arr.data["chromosome"]] != [r[0] for r in rows]:
        raise HarnessAssumption("the table built for the case does not have the case's rows")
    return arr


def _bin_cna(i, bins, log2s, sid="S"):
    from cnvlib.cnary import CopyNumArray as CNA
    base = ["chromosome", "start", "end", "gene", "log2"]
    more = [c for c in (i.get("extra") or []) if c not in base]
    cols = _order_cols(base + more, i.get("colorder"))
    data = []
    for k, (b, lg) in enumerate(zip(bins, log2s)):
        row = {"chromosome": b[0], "start": b[1], "end": b[2], "gene": b[3], "log2": lg}
        for name in more:
            row[name] = _extra_value(name, k, b, lg)
        data.append([row[c] for c in cols])
    meta = {"sample_id": sid}
    if i.get("sub") is not None and data:
        def junk(row, rng):
            row[cols.index("gene")] = "junk"
            row[cols.index("log2")] = 5.0 + rng.random()
            return row
        arr = _subset_of_larger(CNA, cols, data, i["sub"], meta, junk)
    else:
        arr = CNA.from_rows([tuple(x) for x in data], columns=cols, meta_dict=meta)
    if i.get("dupidx") and len(arr) > 1:
        arr = _dup_index(CNA, arr, meta)
    return arr


def _write_tab(path, cols, data):
    with open(path, "w") as fh:
        fh.write("\t".join(cols) + "\n")
        for row in data:
            fh.write("\t".join(repr(x) if isinstance(x, float) else str(x) for x in row) + "\n")


def _write_segfile(path, rows, log2s, has_cn, has_probes, extra=None, colorder=None, ci=False):
    cols, data = _seg_table(rows, log2s, has_cn, has_probes, extra, colorder, ci)
    _write_tab(path, cols, data)
    _check_readback(path, [(r[0], r[1], r[2]) for r in rows], log2s)


def _write_binfile(path, bins, log2s, extra=None):
    base = ["chromosome", "start", "end", "gene", "log2"]
    more = [c for c in (extra or []) if c not in base]
    _write_tab(path, base + more, [[b[0], b[1], b[2], b[3], lg] + [_extra_value(c, k, b, lg) for c in more]
                                   for k, (b, lg) in enumerate(zip(bins, log2s))])
    _check_readback(path, [(b[0], b[1], b[2]) for b in bins], log2s)


def _check_readback(path, coords, log2s):
    from cnvlib.cmdutil import read_cna
    a = read_cna(path)
    got = list(zip(a.data["chromosome"].astype(str), a.data["start"].astype(int), a.data["end"].astype(int))) if len(a) else []
    if got != [tuple(c) for c in coords]:
        raise HarnessAssumption("reading the generated file is not the identity")
    if len(a) and any(abs(x - y) > 1e-12 * max(1.0, abs(y)) for x, y in zip(a.data["log2"], log2s)):
        raise HarnessAssumption("log2 read back differs")


class _Done:
    def __init__(self, returncode, stdout, stderr):
        self.returncode, self.stdout, self.stderr = returncode, stdout, stderr


def _cli(args, tmp, via="cli"):
    """`cnvkit.py <args>`: in a subprocess (via == "cli"), or -- same parser, same command functions, without the
    2 s of interpreter start -- in this process (via == "argv")"""
    if via == "argv":
        import contextlib
        import io
        from cnvlib import commands
        out = io.StringIO()
        try:
            with contextlib.redirect_stdout(out):
                a = commands.parse_args(args)
                a.func(a)
        except ValueError as e:
            return _Done(1, out.getvalue(), f"ValueError: {e}")
        except SystemExit as e:
            return _Done(2, out.getvalue(), f"SystemExit: {e}")
        return _Done(0, out.getvalue(), "")
    env = dict(os.environ)
    env["PYTHONDONTWRITEBYTECODE"] = "1"
    env["TMPDIR"] = tmp
    boot = f"import sys; sys.path.insert(0, {REPO!r}); from cnvlib.cnvkit import main; sys.exit(main())"
    r = subprocess.run([sys.executable, "-c", boot] + args, capture_output=True, text=True,
                       timeout=600, env=env, cwd=tmp)
    return r


def _cli_text(args, tmp, i, name):
    """run the command writing to a file (-o) or, if the case says so, to standard output; (result, text written)"""
    if (i.get("cli_opts") or {}).get("stdout"):
        r = _cli(args, tmp, i["via"])
        return r, r.stdout
    out = os.path.join(tmp, name)
    r = _cli(args + ["-o", out], tmp, i["via"])
    return r, (open(out).read() if r.returncode == 0 else "")


def _cli_common(i):
    """--ploidy, sample sex, reference sex, PAR genome as the case spells them"""
    opt = i.get("cli_opts") or {}
    args = []
    if not (opt.get("implicit") and i["ploidy"] == 2):
        args += ["--ploidy", str(i["ploidy"])]
    sex = opt.get("sex", "female" if i["female"] else "male")
    if sex is not None:
        args += [opt.get("sex_flag", "-x"), sex]
    if i["hapX"]:
        args.append(opt.get("hapx_flag", "-y"))
    if i["par"]:
        args += ["--diploid-parx-genome", i.get("par_f", i["par"])]
    return args


def _wrap_sex(i, path, payload):
    """sex left off the command line: the model is given the sex guess_xx infers from the table as read"""
    opt = i.get("cli_opts") or {}
    if "sex" in opt and opt["sex"] is None:
        from cnvlib.cmdutil import read_cna
        g = read_cna(path).guess_xx(i["hapX"], i.get("par_f", i["par"]), verbose=False)
        return {"__wrap__": True, "female_eff": bool(g) if g is not None else False, "out": payload}
    return payload


def _female_arg(i):
    import numpy as np
    rep = i.get("female_repr", "bool")
    if rep == "np":
        return np.bool_(i["female"])
    if rep == "none" and not i["female"]:
        return None  # what verify_sample_sex hands over when nothing was stated and nothing could be inferred
    return i["female"]


def _pre_calls(obj, i):
    """the same object goes through other exporters first; the result asked for must not depend on that"""
    from cnvlib import export
    par, fem = i.get("par_f", i.get("par")), _female_arg(i) if "female" in i else None
    for what in i.get("pre") or []:
        if what == "vcf":
            export.export_vcf(obj, i["ploidy"], i["hapX"], par, fem)
        elif what.startswith("bed:"):
            export.export_bed(obj, i["ploidy"], i["hapX"], par, fem, None, what[4:])
        elif what == "nexus":
            export.export_nexus_basic(obj)


def _parse_vcf(body):
    lines = [l for l in body.split("\n") if l and not l.startswith("##")]
    if not lines or not lines[0].startswith("#CHROM"):
        raise HarnessAssumption("no #CHROM line")
    head = lines[0].split("\t")
    recs, ci_text = [], []
    for l in lines[1:]:
        f = l.split("\t")
        if len(f) != 10:
            raise HarnessAssumption(f"vcf line with {len(f)} fields")
        keys, kv = [], {}
        for item in f[7].split(";"):
            if "=" in item:
                k, v = item.split("=", 1)
                keys.append(k)
                kv[k] = v
            else:
                keys.append(item)
        recs.append([f[0], int(f[1]), f[2], f[3], f[4], f[5], f[6], keys, kv.get("SVTYPE", ""), int(kv["END"]),
                     int(kv["SVLEN"]), frac(float(kv["FOLD_CHANGE"])), frac(float(kv["FOLD_CHANGE_LOG"])),
                     int(kv["PROBES"]), f[8].split(":"), f[9].split(":")])
        ci_text.append([kv.get("CIPOS"), kv.get("CIEND")])
    return {"sample_col": head[9], "records": recs, "ci_text": ci_text}


def _strip_ci(parsed, i):
    """with a .cnr (or ci_left / ci_right columns) every record also carries CIPOS and CIEND, after the seven
    modelled keys; their values are outside the property and the model: checked for presence, then dropped"""
    want = bool(i.get("cnr")) or bool(i.get("ci"))
    ci_text = parsed.pop("ci_text", [])
    if i.get("ci_cols") is not None:
        # op export_vcf_ci (Model/ExportCiExt5.lean): the four numbers of each record are compared with the model
        parsed["ci"] = [_ci_quad(t) for t in ci_text]
    for rec in parsed["records"]:
        has = rec[7][-2:] == ["CIPOS", "CIEND"]
        if want and not has:
            raise HarnessAssumption("record without CIPOS/CIEND although confidence limits were supplied")
        if has and want:
            rec[7] = rec[7][:-2]
    return parsed


_CI_RE = re.compile(r"^\((-?\d+),(-?\d+)\)$")


def _ci_quad(t):
    """`CIPOS=(l,r)`, `CIEND=(l,r)` of one record as four integers; anything else is kept as text (and judged)"""
    m = [_CI_RE.match(x or "") for x in t]
    if not all(m):
        return {"bad": t}
    return [int(m[0].group(1)), int(m[0].group(2)), int(m[1].group(1)), int(m[1].group(2))]


def _cicase(rng, via=None, turn=None):
    """export_vcf on a table that carries ci_left / ci_right: the limits are part of the case (margins 0, small, up to
    the whole segment, now and then outside the segment), the model states CIPOS / CIEND of every record"""
    while True:
        c = _segcase(rng, "export_vcf", via=via, nmax=12, turn=turn)
        if c["in"]["rows"]:
            break
    i = c["in"]
    i.pop("cnr", None)
    i["ci"] = True
    cols = []
    for r in i["rows"]:
        s, e = r[1], r[2]
        w = max(e - s, 1)
        lm = rng.choice([0, 0, 1, rng.randint(0, 9), rng.randrange(w), w // 2, w, -rng.randint(1, 5)])
        rm = rng.choice([0, 0, 1, rng.randint(0, 9), rng.randrange(w), w // 3, w, -rng.randint(1, 5)])
        cols.append([s + lm, e - rm])
    i["ci_cols"] = cols
    tag = c["tag"].replace("vcf-", "vcfci-", 1).replace("+cnr", "").replace("+ci", "")
    return {"op": "export_vcf_ci", "tag": tag, "in": i}


def _parse_bed(text):
    rows = []
    for l in text.split("\n"):
        if l:
            f = l.split("\t")
            rows.append([f[0], int(f[1]), int(f[2]), f[3], int(f[4])])
    return rows


def _run_bed(i, tmp):
    from cnvlib import export
    if i.get("via"):
        opt = i.get("cli_opts") or {}
        path = os.path.join(tmp, i["seg_id"] + ".cns")
        _write_segfile(path, i["rows"], i["log2_f"], i["has_cn"], i["has_probes"], i.get("extra"), i.get("colorder"))
        files = [path]
        if opt.get("co") is not None:
            # a second sample on the same command line; its single segment (cn 99) is listed under every --show
            co = os.path.join(tmp, "ZZ.cns")
            _write_tab(co, ["chromosome", "start", "end", "gene", "log2", "probes", "cn"],
                       [[i["rows"][0][0], 7, 77, "Q", 0.5, 3, 99]])
            files = [co, path] if opt["co"] == 0 else [path, co]
        args = ["export", "bed"] + files + _cli_common(i)
        if not (opt.get("implicit") and i["show"] == "ploidy"):
            args += ["--show", i["show"]]
        if i["label"] == "@genes":
            args.append("--label-genes")
        elif i["label"]:
            args += ["-i", i["label"]]
            if opt.get("label_genes_too"):
                args.append("--label-genes")
        r, text = _cli_text(args, tmp, i, "out.bed")
        if r.returncode != 0:
            raise RuntimeError("cli failed: " + r.stderr[-500:])
        rows = _parse_bed(text)
        if opt.get("co") is not None:
            zz = [k for k, row in enumerate(rows) if row[3] == "ZZ"]
            if zz != ([0] if opt["co"] == 0 else [len(rows) - 1]) or rows[zz[0]][:3] != [i["rows"][0][0], 7, 77] \
                    or rows[zz[0]][4] != 99:
                raise HarnessAssumption(f"the other sample's segment is not where it belongs: rows {zz} of {len(rows)}")
            rows.pop(zz[0])
        return _wrap_sex(i, path, rows)
    seg = _seg_cna(i, i["rows"], i["log2_f"], i["has_cn"], i["has_probes"], i["seg_id"])
    _pre_calls(seg, i)
    par, fem = i.get("par_f", i["par"]), _female_arg(i)
    if i.get("argstyle") == "kw":
        t = export.export_bed(segments=seg, ploidy=i["ploidy"], is_haploid_x_reference=i["hapX"], diploid_parx_genome=par,
                              is_sample_female=fem, label=i["label"], show=i["show"])
    else:
        t = export.export_bed(seg, i["ploidy"], i["hapX"], par, fem, i["label"], i["show"])
    return [[str(a), int(b), int(c), str(d), int(e)] for a, b, c, d, e in
            zip(t["chromosome"], t["start"], t["end"], t["label"], t["ncopies"])]


def _run_vcf(i, tmp):
    from cnvlib import export
    if i.get("via"):
        path = os.path.join(tmp, i["seg_id"] + ".cns")
        _write_segfile(path, i["rows"], i["log2_f"], i["has_cn"], True, i.get("extra"), i.get("colorder"),
                       i.get("ci_cols") or bool(i.get("ci")))
        args = ["export", "vcf", path] + _cli_common(i)
        if i.get("cnr"):
            d = os.path.join(tmp, "bins")
            os.makedirs(d)
            cnr = os.path.join(d, i["seg_id"] + ".cnr")
            _write_binfile(cnr, [b + ["-"] for b in i["cnr"]], [0.0] * len(i["cnr"]), ["depth", "weight"])
            args += ["--cnr", cnr]
        if i["sample_id"]:
            args += ["-i", i["sample_id"]]
        r, text = _cli_text(args, tmp, i, "out.vcf")
        if r.returncode != 0:
            raise RuntimeError("cli failed: " + r.stderr[-500:])
        return _wrap_sex(i, path, _strip_ci(_parse_vcf(text), i))
    seg = _seg_cna(i, i["rows"], i["log2_f"], i["has_cn"], i["has_probes"], i["seg_id"])
    _pre_calls(seg, i)
    par, fem = i.get("par_f", i["par"]), _female_arg(i)
    cnarr = None
    if i.get("cnr"):
        cnarr = _bin_cna({}, [b + ["-"] for b in i["cnr"]], [0.0] * len(i["cnr"]), i["seg_id"])
    style = i.get("argstyle")
    if style == "kw":
        kw = dict(segments=seg, ploidy=i["ploidy"], is_haploid_x_reference=i["hapX"], diploid_parx_genome=par,
                  is_sample_female=fem, sample_id=i["sample_id"])
        if cnarr is not None:
            kw["cnarr"] = cnarr
        _header, body = export.export_vcf(**kw)
    elif style == "implicit" and i["sample_id"] is None and cnarr is None:
        _header, body = export.export_vcf(seg, i["ploidy"], i["hapX"], par, fem)
    elif cnarr is not None:
        _header, body = export.export_vcf(seg, i["ploidy"], i["hapX"], par, fem, i["sample_id"], cnarr)
    else:
        _header, body = export.export_vcf(seg, i["ploidy"], i["hapX"], par, fem, i["sample_id"])
    return _strip_ci(_parse_vcf(body), i)


def _run_seg(i, tmp):
    from cnvlib import export
    fnames = []
    for k, sm in enumerate(i["samples"]):
        d = os.path.join(tmp, str(k))
        os.makedirs(d)
        p = os.path.join(d, sm["id"] + ".cns")
        ex = sm.get("extra") or []
        _write_segfile(p, sm["rows"], sm["log2_f"], "cn" in ex, sm["has_probes"], [c for c in ex if c != "cn"],
                       "call" if ex else None)
        fnames.append(p)
    if i.get("via"):
        r, text = _cli_text(["export", "seg"] + fnames + (["--enumerate-chroms"] if i["enumerate"] else []), tmp, i, "out.seg")
        if r.returncode != 0:
            raise RuntimeError("cli failed: " + r.stderr[-500:])
        lines = [l for l in text.split("\n") if l]
        head = lines[0].split("\t")
        rows = []
        for l in lines[1:]:
            f = dict(zip(head, l.split("\t")))
            nm = f.get("num.mark", "")
            rows.append([f["ID"], f["chrom"], int(f["loc.start"]), int(f["loc.end"]),
                         None if nm == "" else int(float(nm)), frac(float(f["seg.mean"]))])
        return rows
    if i.get("ftuple"):
        fnames = tuple(fnames)
    style = i.get("argstyle")
    if style == "kw":
        t = export.export_seg(sample_fnames=fnames, chrom_ids=i["enumerate"])
    elif style == "implicit" and not i["enumerate"]:
        t = export.export_seg(fnames)
    else:
        t = export.export_seg(fnames, i["enumerate"])
    rows = []
    for k in range(len(t)):
        nm = t["num.mark"].iat[k] if "num.mark" in t.columns else float("nan")
        rows.append([str(t["ID"].iat[k]), str(t["chrom"].iat[k]), int(t["loc.start"].iat[k]), int(t["loc.end"].iat[k]),
                     None if (isinstance(nm, float) and math.isnan(nm)) or nm != nm else int(nm),
                     frac(float(t["seg.mean"].iat[k]))])
    return rows


def _typed_cells(fmt, text):
    """cells of a jtv/cdt file written by write_tsv: (header, rows)"""
    lines = [l for l in text.split("\n") if l != ""]
    header = lines[0].split("\t")
    rows = []
    npre = 4 if fmt == "cdt" else 2
    for k, l in enumerate(lines[1:]):
        f = l.split("\t")
        if fmt == "cdt" and k < 2:
            rows.append([["s", x] for x in f])
            continue
        row = [["s", x] for x in f[:npre]]
        if fmt == "cdt":
            row[3] = ["i", int(f[3])]
        row += [["q", frac(float(x))] for x in f[npre:]]
        rows.append(row)
    return header, rows


def _run_table(i, tmp):
    from cnvlib import export, core
    fnames = []
    for k, sm in enumerate(i["samples"]):
        d = os.path.join(tmp, str(k))
        os.makedirs(d)
        p = os.path.join(d, sm["id"] + ".cnr")
        _write_binfile(p, sm["bins"], sm["log2_f"], sm.get("extra"))
        fnames.append(p)
    if i.get("via"):
        r, text = _cli_text(["export", i["fmt"]] + fnames, tmp, i, "out.txt")
        if r.returncode != 0:
            if "Mismatched row coordinates" in r.stderr:
                return {"error": "mismatch"}
            if "Duplicate sample ID" in r.stderr:
                return {"error": "duplicate"}
            raise RuntimeError("cli failed: " + r.stderr[-500:])
        header, rows = _typed_cells(i["fmt"], text)
        return {"error": None, "header": header, "rows": rows}
    sample_ids = list(map(core.fbase, fnames))
    if i.get("ftuple"):
        fnames = tuple(fnames)
    try:
        table = export.merge_samples(fnames)
    except ValueError as e:
        if str(e).startswith("Mismatched row coordinates"):
            return {"error": "mismatch"}
        if str(e).startswith("Duplicate sample ID"):
            return {"error": "duplicate"}
        raise
    header, rows = export.EXPORT_FORMATS[i["fmt"]](sample_ids, table)
    return {"error": None, "header": [str(h) for h in header], "rows": [[_cell(v) for v in row] for row in rows]}


def _run_nexus(i, tmp):
    from cnvlib import export
    from cnvlib.cnary import CopyNumArray as CNA
    if i.get("via"):
        p = os.path.join(tmp, "S.cnr")
        _write_binfile(p, i["bins"], i["log2_f"], i.get("extra"))
        r, text = _cli_text(["export", "nexus-basic", p], tmp, i, "out.txt")
        if r.returncode != 0:
            raise RuntimeError("cli failed: " + r.stderr[-500:])
        lines = [l for l in text.split("\n") if l]
        rows = []
        for l in lines[1:]:
            f = l.split("\t")
            rows.append([["s", f[0]], ["i", int(f[1])], ["i", int(f[2])], ["s", f[3]], ["q", frac(float(f[4]))], ["s", f[5]]])
        return rows
    a = _bin_cna(i, i["bins"], i["log2_f"])
    _pre_calls(a, i)
    t = export.export_nexus_basic(a)
    if list(t.columns) != ["chromosome", "start", "end", "gene", "log2", "probe"]:
        raise HarnessAssumption(f"nexus-basic columns {list(t.columns)}")
    cols = ["chromosome", "start", "end", "gene", "log2", "probe"]
    return [[_cell(t[c].iat[k]) for c in cols] for k in range(len(t))]


def _run_cmd(i, tmp):
    """export bed / export vcf through commands.parse_args + the command function; returns what was written and, per
    file, the sex guess_xx infers from it as read (the model's parameter)"""
    from cnvlib.cmdutil import read_cna
    opt = i["cli_opts"]
    files = i["files"] if "files" in i else [i["file"]]
    paths = []
    for f in files:
        path = os.path.join(tmp, f["seg_id"] + ".cns")
        _write_segfile(path, f["rows"], f["log2_f"], f["has_cn"], f["has_probes"])
        paths.append(path)
    args = ["export", "bed" if "files" in i else "vcf"] + paths
    if not (opt.get("implicit") and i["ploidy"] == 2):
        args += ["--ploidy", str(i["ploidy"])]
    if i["sex"] is not None:
        args += [opt["sex_flag"], i["sex"]]
    if i["hapX"]:
        args.append(opt["hapx_flag"])
    if i["par"]:
        args += ["--diploid-parx-genome", i.get("par_f", i["par"])]
    if i["sample_id"] is not None:
        args += ["-i", i["sample_id"]]
    if "files" in i:
        if i["label_genes"]:
            args.append("--label-genes")
        if not (opt.get("implicit") and i["show"] == "ploidy"):
            args += ["--show", i["show"]]
    r, text = _cli_text(args, tmp, i, "out.txt")
    if r.returncode != 0:
        raise RuntimeError("cli failed: " + r.stderr[-500:])
    guesses = []
    for path in paths:
        g = read_cna(path).guess_xx(i["hapX"], i.get("par_f", i["par"]), verbose=False)
        guesses.append(bool(g) if g is not None else False)
    out = _parse_bed(text) if "files" in i else _parse_vcf(text)
    return {"__cmd__": True, "guesses": guesses, "out": out}


def run_impl(case):
    i = case["in"]
    if case["op"] in ("cmd_export_bed", "cmd_export_vcf"):
        tmp = tempfile.mkdtemp(dir="/var/tmp", prefix="c20-")
        try:
            return _run_cmd(i, tmp)
        finally:
            shutil.rmtree(tmp, ignore_errors=True)
    tmp = tempfile.mkdtemp(dir="/var/tmp", prefix="c20-")
    try:
        return {"export_bed": _run_bed, "export_vcf": _run_vcf, "export_vcf_ci": _run_vcf, "export_seg": _run_seg,
                "export_table": _run_table, "export_nexus_basic": _run_nexus}[case["op"]](i, tmp)
    finally:
        shutil.rmtree(tmp, ignore_errors=True)


# ---------------------------------------------------------------------------------------------
# line protocol, judgement


def _strip(o):
    if isinstance(o, dict):
        return {k: _strip(v) for k, v in o.items() if not k.endswith("_f") and k not in HARNESS_KEYS}
    if isinstance(o, list):
        return [_strip(x) for x in o]
    return o


def _payload(impl):
    return impl["out"] if isinstance(impl, dict) and impl.get("__wrap__") else impl


def to_line(case, impl):
    line = {"op": case["op"], "in": _strip(case["in"])}
    if case["op"] in ("cmd_export_bed", "cmd_export_vcf"):
        if isinstance(impl, dict) and "__error__" in impl:
            gs = None
        else:
            gs = impl["guesses"]
            line["impl"] = impl["out"]
        fl = line["in"]["files"] if "files" in line["in"] else [line["in"]["file"]]
        for k, f in enumerate(fl):
            f["guess"] = gs[k] if gs else False
        return line
    if case["in"].get("via") and case["op"] == "export_bed":
        # the command line labels rows with the sample ID unless -i / --label-genes is given
        lab = case["in"]["label"]
        line["in"]["label"] = None if lab == "@genes" else (lab or case["in"]["seg_id"])
    if not (isinstance(impl, dict) and "__error__" in impl):
        if isinstance(impl, dict) and impl.get("__wrap__"):
            line["in"]["female"] = impl["female_eff"]  # sex not stated on the command line: the inferred one
        line["impl"] = _payload(impl)
        if case["op"] == "export_vcf_ci" and any(isinstance(q, dict) for q in line["impl"].get("ci", [])):
            del line["impl"]  # CIPOS / CIEND not of the form (int,int): judged as a disagreement, no spec run
    return line


def _exact_product(lg):
    """r * 2**log2 is computed without rounding for every possible number of reference copies"""
    t = 2.0 ** lg
    return all(Fraction(r * t) == r * Fraction(t) for r in range(0, 7))


def _close(a, b):
    a, b = float(Fraction(a)), float(Fraction(b))
    return abs(a - b) <= 1e-9 * max(1.0, abs(b))


def _cells_equal(m, im):
    if len(m) != len(im):
        return False
    for a, b in zip(m, im):
        if a[0] == "q" or b[0] == "q":
            if a[0] == "s" or b[0] == "s" or not _close(b[1], a[1]):
                return False
        elif a != b:
            return False
    return True


def judge(case, impl, resp):
    op = case["op"]
    if isinstance(impl, dict) and "__error__" in impl:
        return ["raises_" + impl["__error__"]], [], None
    if "error" in resp:
        return [], ["model error: " + resp["error"]], None
    if op in ("cmd_export_bed", "cmd_export_vcf"):
        return _judge_cmd(case, impl, resp)
    impl = _payload(impl)
    spec = list(resp.get("spec") or [])
    out = resp["out"]
    disagree = []
    if op in ("export_bed", "export_vcf", "export_vcf_ci"):
        i = case["in"]
        if not i["has_cn"] and any(Fraction(sl) < Fraction(1, 10 ** 9) and not _exact_product(lg)
                                   for sl, lg in zip(resp["slack"], i["log2_f"])):
            return [], [], "rounding boundary within 1e-9"
        if op == "export_bed":
            if out != impl:
                k = next((k for k, (a, b) in enumerate(zip(out, impl)) if a != b), min(len(out), len(impl)))
                disagree.append(f"bed rows differ at {k}: model {out[k:k+1]} impl {impl[k:k+1]} ({len(out)} vs {len(impl)} rows)")
        else:
            if out["sample_col"] != impl["sample_col"]:
                disagree.append(f"sample column: model {out['sample_col']!r} impl {impl['sample_col']!r}")
            mr, ir = out["records"], impl["records"]
            if len(mr) != len(ir):
                disagree.append(f"record count model {len(mr)} impl {len(ir)}")
            else:
                for k, (a, b) in enumerate(zip(mr, ir)):
                    same = all(a[x] == b[x] for x in (0, 1, 2, 3, 4, 5, 6, 7, 8, 9, 10, 13, 14, 15))
                    if not (same and _close(b[11], a[11]) and _close(b[12], a[12])):
                        disagree.append(f"record {k}: model {a} impl {b}")
                        break
            if op == "export_vcf_ci" and not disagree:
                if any(isinstance(q, dict) for q in impl["ci"]):
                    bad = next(q for q in impl["ci"] if isinstance(q, dict))
                    disagree.append(f"CIPOS / CIEND not of the form (int,int): {bad['bad']}")
                elif out["ci"] != impl["ci"]:
                    k = next((k for k, (a, b) in enumerate(zip(out["ci"], impl["ci"])) if a != b), 0)
                    disagree.append(f"record {k} ({mr[k][0]}:{mr[k][1]}-{mr[k][9]}) CIPOS/CIEND: model "
                                    f"{out['ci'][k:k+1]} impl {impl['ci'][k:k+1]}; ci_cols {i['ci_cols']}")
    elif op == "export_seg":
        if len(out) != len(impl):
            disagree.append(f"row count model {len(out)} impl {len(impl)}")
        else:
            for k, (a, b) in enumerate(zip(out, impl)):
                if a[:5] != b[:5] or not _close(b[5], a[5]):
                    disagree.append(f"row {k}: model {a} impl {b}")
                    break
    elif op == "export_table":
        if out.get("error") != impl.get("error"):
            disagree.append(f"refusal: model {out.get('error')} impl {impl.get('error')}")
        elif out.get("error") is None:
            if out["header"] != impl["header"]:
                disagree.append(f"header model {out['header']} impl {impl['header']}")
            elif len(out["rows"]) != len(impl["rows"]):
                disagree.append(f"row count model {len(out['rows'])} impl {len(impl['rows'])}")
            else:
                for k, (a, b) in enumerate(zip(out["rows"], impl["rows"])):
                    if not _cells_equal(a, b):
                        disagree.append(f"row {k}: model {a} impl {b}")
                        break
    elif op == "export_nexus_basic":
        if len(out) != len(impl):
            disagree.append(f"row count model {len(out)} impl {len(impl)}")
        else:
            for k, (a, b) in enumerate(zip(out, impl)):
                if not _cells_equal(a, b):
                    disagree.append(f"row {k}: model {a} impl {b}")
                    break
    return spec, disagree, None


def _judge_cmd(case, impl, resp):
    i = case["in"]
    files = i["files"] if "files" in i else [i["file"]]
    slacks = resp["slack"] if "files" in i else [resp["slack"]]
    for f, sl in zip(files, slacks):
        if not f["has_cn"] and any(Fraction(x) < Fraction(1, 10 ** 9) and not _exact_product(lg)
                                   for x, lg in zip(sl, f["log2_f"])):
            return [], [], "rounding boundary within 1e-9"
    spec = list(resp.get("spec") or [])
    out, got = resp["out"], impl["out"]
    disagree = []
    if case["op"] == "cmd_export_bed":
        if out != got:
            k = next((k for k, (a, b) in enumerate(zip(out, got)) if a != b), min(len(out), len(got)))
            disagree.append(f"bed rows differ at {k}: model {out[k:k+1]} impl {got[k:k+1]} ({len(out)} vs {len(got)} rows; "
                            f"sexes in force per file {resp.get('sexes')})")
    else:
        if out["sample_col"] != got["sample_col"]:
            disagree.append(f"sample column: model {out['sample_col']!r} impl {got['sample_col']!r}")
        mr, ir = out["records"], got["records"]
        if len(mr) != len(ir):
            disagree.append(f"record count model {len(mr)} impl {len(ir)} (sex in force: female={resp.get('female')})")
        else:
            for k, (a, b) in enumerate(zip(mr, ir)):
                same = all(a[x] == b[x] for x in (0, 1, 2, 3, 4, 5, 6, 7, 8, 9, 10, 13, 14, 15))
                if not (same and _close(b[11], a[11]) and _close(b[12], a[12])):
                    disagree.append(f"record {k}: model {a} impl {b}")
                    break
    return spec, disagree, None


def classify_reserved_sample_id(case, impl, resp):
    """a jtv/cdt input in which a sample is named like one of merge_samples' own columns"""
    return case["op"] == "export_table" and any(sm["id"] in RESERVED for sm in case["in"]["samples"])


def classify_bed_reference_copies(case, impl, resp):
    """export_bed without a cn column on a table where the class table (PAR genome, naming style of the first
    row) and the chromosome name alone can give different reference copies (finding U, pre-fix code)"""
    if case["op"] != "export_bed" or case["in"]["has_cn"]:
        return False
    rows = case["in"]["rows"]
    return case["in"]["par"] is not None or len({r[0].startswith("chr") for r in rows}) > 1


def nontrivial(case, impl, resp):
    i = case["in"]
    if "files" in i or "file" in i:
        return any(len(f["rows"]) > 0 for f in (i["files"] if "files" in i else [i["file"]]))
    if "rows" in i:
        return len(i["rows"]) > 0
    if "samples" in i:
        return any(len(sm.get("rows", sm.get("bins", []))) > 0 for sm in i["samples"])
    return len(i.get("bins", [])) > 0


def shrink(case):
    i = case["in"]
    if "files" in i or "file" in i:
        files = i["files"] if "files" in i else [i["file"]]
        cands = []
        if len(files) > 1:
            cands += [files[:k] + files[k + 1:] for k in range(len(files))]
        for j, f in enumerate(files):
            for k in range(len(f["rows"])):
                if len(f["rows"]) > 1:
                    g = dict(f, rows=f["rows"][:k] + f["rows"][k + 1:], log2_f=f["log2_f"][:k] + f["log2_f"][k + 1:])
                    cands.append(files[:j] + [g] + files[j + 1:])
        for fl in cands:
            c = {"op": case["op"], "tag": "shrunk", "in": dict(i)}
            if "files" in i:
                c["in"]["files"] = fl
            else:
                c["in"]["file"] = fl[0]
            yield c
        return
    if "rows" in i:
        for k in range(len(i["rows"])):
            c = {"op": case["op"], "tag": "shrunk", "in": dict(i)}
            c["in"]["rows"] = i["rows"][:k] + i["rows"][k + 1:]
            c["in"]["log2_f"] = i["log2_f"][:k] + i["log2_f"][k + 1:]
            if i.get("ci_cols") is not None:
                if len(i["rows"]) < 2:
                    continue
                c["in"]["ci_cols"] = i["ci_cols"][:k] + i["ci_cols"][k + 1:]
            yield c
    elif "samples" in i:
        ss = i["samples"]
        if len(ss) > 1:
            for k in range(len(ss)):
                c = {"op": case["op"], "tag": "shrunk", "in": dict(i)}
                c["in"]["samples"] = ss[:k] + ss[k + 1:]
                yield c
        key = "rows" if case["op"] == "export_seg" else "bins"
        n = max(len(sm[key]) for sm in ss)
        for k in range(n):
            c = {"op": case["op"], "tag": "shrunk", "in": dict(i)}
            c["in"]["samples"] = [dict(sm, **{key: sm[key][:k] + sm[key][k + 1:],
                                              "log2_f": sm["log2_f"][:k] + sm["log2_f"][k + 1:]}) for sm in ss]
            if all(len(sm[key]) > 0 for sm in c["in"]["samples"]):
                yield c
    elif "bins" in i:
        for k in range(len(i["bins"])):
            c = {"op": case["op"], "tag": "shrunk", "in": dict(i)}
            c["in"]["bins"] = i["bins"][:k] + i["bins"][k + 1:]
            c["in"]["log2_f"] = i["log2_f"][:k] + i["log2_f"][k + 1:]
            yield c
