"""C17 -- segment statistics and bin tests match their definitions on the right bins."""
from __future__ import annotations

import math
import sys
import os
from fractions import Fraction

from ..core import frac

if hasattr(sys, "set_int_max_str_digits"):
    sys.set_int_max_str_digits(0)  # exact rationals of iterated estimators can be long

LEVEL = "proof"
RULE = ("segmetrics: 1-3 chromosomes, sorted bin tables (abutting / gapped / overlapping bins, bins nested inside the "
        "previous one so that ends are not monotone), segmentations whose boundaries fall on bin edges, inside bins "
        "(last bin shared with the next segment; first bin straddling the segment's start) or in gaps (also before the "
        "segment's first bin); bins between segments that no segment covers; segments with 0, 1, 2, 3, ... 300 bins; "
        "API tables: segment chromosome blocks in another order than the bins' (35 % of multi-chromosome tables), a bin "
        "chromosome the segmentation does not mention (also: one segment chromosome of several -- the single-chromosome "
        "fast path must not fire), chromosome names 1/X/MT/chrUn_.../chr10-before-chr1 (20 %); "
        "log2 styles dyadic / 3-decimal / heavy ties / constant; weights in (0,1] incl. exactly 1; every subset of "
        "{mean, median, p_ttest} x {stdev, mad, mse, iqr, bivar, sem} x {ci, pi}; alpha grid (dyadic and decimal), "
        "bootstraps 1..100 (below and above 2/alpha), smoothed on/off, skip_low with depth 0 and log2 -20 bins (6 % of "
        "them with most or all bins low: whole segments / the whole table dropped). "
        "representations (API): bin table / segment table as a filtered subset of a larger table (index labels not "
        "0..n-1; 40 % / 30 %), extra bin columns gc/rmask/spread, extra segment columns depth/cn/baf(NaN)/cn1/cn2 and "
        "statistics of an earlier run that are not requested again (must come back unchanged: clause "
        "segment_columns_unchanged), shuffled column order; empty bin table / empty segment table (corpus). "
        "call styles (API): every argument by keyword with tuples / lists / all positional / every default-valued argument "
        "left out (alpha 0.05, bootstraps 100, bintest alpha 0.005 forced in about half of those), interval_stats in either order. "
        "bintest: same tables, residual 0 / weight 1 bins, antitarget bins, on-target names that resemble the aliases "
        "(antitarget, Antitarget2, 'Background,G1', -, CGH), tables of nothing but off-target bins with target_only, "
        "overlapping segments, one-bin tables whose adjusted p equals alpha exactly / one ulp above; hits are mapped "
        "back from index labels to rows and must carry that row's coordinates and gene. "
        "bh: every vector of length <= 4 over a 6-point grid "
        "(quick) plus random vectors of length <= 200 with ties, 0 and 1; handed over as ndarray, list, tuple, strided "
        "view, int array (when all 0/1) or pandas Series with non-positional labels; the argument must be left unchanged. "
        "command line: about 15 % of the segmetrics and of the bintest cases (and three refused alphas) run "
        "`cnvkit.py segmetrics <cnr> -s <cns> [--mean --median --t-test --stdev --sem --mad --mse --iqr --bivar --ci --pi] "
        "[-a alpha] [-b bootstraps] [--smooth-bootstrap] [--drop-low-coverage] [-o out]` / `cnvkit.py bintest <cnr> -s <cns> "
        "[-a alpha] [-t] [-o out]` in-process on written .cnr/.cns files (6-digit numbers, rows in the reader's order; long and "
        "short spellings, both argument orders; alpha 0.05 / 100 bootstraps / bintest alpha 0.005 left to the parser's "
        "defaults in ~30 % of them; both values of every switch; 20 % without -o: segmetrics then writes "
        "S.segmetrics.cns into the working directory, bintest writes to standard output), the table handed to the "
        "writer is judged like an API "
        "result, the written file must read back equal to it at 1e-5 and the bootstrap interval must equal the API's exactly. "
        "glue (ops glue / cmd, Model/StatsGlue.lean): do_segmetrics on small tables whose SEGMENT table already carries columns "
        "-- statistics of an earlier run, ~45 % of them among the statistics requested now (must be recomputed: clause "
        "requested_statistic_recomputed; every column of the result is tagged own / fresh by comparison with the input and "
        "with a run on the same tables without those columns), unrequested ones and cn/depth/baf (must come back as they were) --, "
        "a statistic named twice, interval_stats empty / in either order / with repeats; observables are the requested and "
        "the own columns only (not column order, not further columns). `cnvkit.py segmetrics` decisions: alpha 0, -0.25, 1.5 "
        "refused, no statistic flag -> nothing written (an unchanged table would be accepted too), otherwise the output "
        "file is -o or <sample id>.segmetrics.cns (sample ids S, tumor1, a.b). "
        "bintest without segments (op bintest_noseg, Model/StatsExt5.lean; harness/props/_c17ext5.py): residual = log2 - median "
        "log2 of the bin's chromosome, 1-3 chromosomes plus single-bin chromosomes, off-target bins, weight 1, alpha grid and "
        "alpha 1.5, API call styles / representations and `cnvkit.py bintest <cnr> [-a] [-t] [-o]` without -s. "
        "not generated: an empty segment table given to bintest "
        "(proposed_fixes/C17-bintest-empty-segments.md), segment tables lacking probes/weight columns. "
        "non-trivial = some segment has >= 2 bins and a statistic is requested / some bin is tested / length >= 2; "
        "distinct by hash of the case")
EXHAUSTIVE = {"quick": False, "thorough": False}
ASSUMPTIONS = [
    "bins sorted by start within a chromosome, start < end, coordinates >= 0 (C07's WFTable); segment tables keep each "
    "chromosome's rows together (an interleaved segment table gets its statistics attached to the wrong rows: the groups "
    "come back grouped by chromosome and are assigned positionally; observed on the real code, outside 'segmentations')",
    "weights in (0,1], finite log2; alpha in (0,1)",
    "float results compared with the exact rational value at 1e-9; statistics that are square roots are compared through "
    "their squares inside Lean; bivar's exact-zero tests (sum of u == 0, |result - initial| <= epsilon, w < 1) are "
    "knife-edges: when the exact sum is 0 or within 1e-9 of it either branch value is accepted",
]
TRUSTED_EXTRA = [
    "scipy.stats.t.sf (Student-t tail for p_ttest: the model computes t^2 and df exactly, the harness supplies the tail "
    "value for that argument and Lean checks the argument)",
    "scipy.stats.norm.cdf (normal tail for bintest, same argument/value protocol)",
    "numpy RandomState(seed).randint / randn: the bootstrap index draws and smoothing noise are regenerated by the harness "
    "from the seed literal found in confidence_interval_bootstrap and handed to the model; Lean checks their shape (B x k)",
    "gaussian_kde ('mode' statistic) is not modelled and never requested",
    "harness/vectrans_bh.py (on top of harness/vectrans.py) + lean/CnvVerif/Model/NpVecBh.lean: the typed reading of the "
    "numpy vector code of bintest.p_adjust_bh (Generated/ExprsBh.lean; rules listed at the top of vectrans_bh.py); the "
    "permutation of the third-party argsort is a parameter of the generated definition",
]

PY_ONLY = ("repr", "call", "inter_rev", "how", "cli_noout")  # how the real code is called: nothing the model sees
LOC = ["mean", "median", "p_ttest"]
SPREAD = ["stdev", "mad", "mse", "iqr", "bivar", "sem"]
ANTI = ("Antitarget", "Background")

# ---------------------------------------------------------------------------------------------
# source constants the harness needs (read with ast from the tree under test, cached)

_SEED = None


def _seed():
    global _SEED
    if _SEED is None:
        import ast
        from ..core import REPO
        from ..translate import parse, find_func
        tree, _src = parse(os.path.join(REPO, "cnvlib/segmetrics.py"))
        fn = find_func(tree, "confidence_interval_bootstrap")
        seeds = [ast.literal_eval(c.args[0]) for c in ast.walk(fn)
                 if isinstance(c, ast.Call) and getattr(c.func, "attr", "") == "seed"]
        _SEED = seeds[0] if seeds else 0  # no seed in the source: any draws; the run-to-run clause will speak
    return _SEED


# ---------------------------------------------------------------------------------------------
# real code


def _num(x):
    if x is None:
        return None
    x = float(x)
    if math.isnan(x) or math.isinf(x):
        return None
    return frac(x)


# table representations.  `i["repr"]` (absent = the plain table) says how the two tables are handed to the real
# code; the model always sees the plain rows:
#   bsub / ssub   int seed: the table is a filtered SUBSET of a larger one (junk rows interleaved and masked away), so
#                 its pandas index labels are not 0..n-1 -- what any `cnarr[mask]`, `drop_low_coverage`, `in_range`
#                 leaves behind
#   bextra/sextra extra columns next to the ones the functions use (bins: gc, rmask, spread; segments: depth, cn, baf
#                 with NaNs, cn1, cn2 and statistics of an earlier segmetrics run that this case does not ask for);
#                 the segment extras must come back unchanged ("the input segments' own columns are unchanged")
#   bperm / sperm int seed: column order shuffled (the functions address columns by name)
BIN_EXTRA = ["gc", "rmask", "spread"]
SEG_EXTRA = ["depth", "cn", "baf", "cn1", "cn2", "ci_lo", "ci_hi", "sem", "mean", "p_ttest"]


def _extra_val(col, k):
    """value of an extra column in row k: short numbers (exact in a 6-digit file), NaN in some baf / cn1 / cn2 rows"""
    if col in ("cn", "cn1", "cn2"):
        if col != "cn" and k % 4 == 1:
            return float("nan")
        return float((k + len(col)) % 5)
    if col == "baf":
        return float("nan") if k % 3 == 0 else 0.125 * (1 + k % 4)
    if col in ("gc", "rmask"):
        return 0.25 + 0.0625 * (k % 8)
    return 0.5 + 0.25 * (k % 7)  # depth, spread, earlier statistics


def _mk_table(rows, cols, extra, sub, perm):
    import random
    import numpy as np
    from cnvlib.cnary import CopyNumArray as CNA
    full = [tuple(r) + tuple(_extra_val(c, k) for c in extra) for k, r in enumerate(rows)]
    cols = list(cols) + list(extra)
    if not full:
        # an empty table with the dtypes of a real one: everything filtered out of a one-row table
        dummy = tuple("chr1" if c == "chromosome" else "-" if c == "gene" else 0 if c in ("start", "end", "probes")
                      else 0.5 for c in cols)
        full, mask = [dummy], [False]
    elif sub is None:
        mask = None
    else:
        rng = random.Random(sub)
        big, mask = [], []
        for r in full:
            for _ in range(rng.choice([0, 1, 1, 2, 3])):
                j = list(rng.choice(full))
                j[3] = "junk"
                big.append(tuple(j))
                mask.append(False)
            big.append(r)
            mask.append(True)
        if all(mask):
            big.insert(0, full[-1])
            mask.insert(0, False)
        full = big
    arr = CNA.from_rows(full, columns=cols, meta_dict={"sample_id": "S"})
    if perm is not None:
        order = list(cols)
        random.Random(perm).shuffle(order)
        arr = CNA(arr.data[order], {"sample_id": "S"})
    if mask is not None:
        arr = arr[np.array(mask)]
    return arr


def _mk_bins(i):
    rp = i.get("repr") or {}
    cols = ["chromosome", "start", "end", "gene", "log2", "weight"]
    has_depth = i.get("has_depth", False)
    if has_depth:
        cols.append("depth")
    rows = [tuple(r[:7] if has_depth else r[:6]) for r in i["bins_f"]]
    return _mk_table(rows, cols, rp.get("bextra", []), rp.get("bsub"), rp.get("bperm"))


def _seg_extra(i):
    """the extra segment columns of the case that the requested statistics do not (re)compute"""
    made = set(i.get("loc", [])) | set(i.get("spread", [])) | ({"ci_lo", "ci_hi"} if i.get("ci") else set()) | {
        "pi_lo", "pi_hi", "p_bintest"}
    return [c for c in (i.get("repr") or {}).get("sextra", []) if c not in made]


def _mk_segs(i):
    rp = i.get("repr") or {}
    cols = ["chromosome", "start", "end", "gene", "log2", "probes", "weight"]
    return _mk_table([tuple(r) for r in i["segs_f"]], cols, _seg_extra(i), rp.get("ssub"), rp.get("sperm"))


def _extras_kept(i, out):
    """the extra columns of the segment table are in the result, with the values they had"""
    import numpy as np
    for c in _seg_extra(i):
        if c not in out.data.columns:
            return False
        want = np.array([_extra_val(c, k) for k in range(len(i["segs_f"]))], dtype=float)
        got = np.asarray(out.data[c], dtype=float)
        if got.shape != want.shape or not np.array_equal(got, want, equal_nan=True):
            return False
    return True


def _own_rows(d):
    return [[str(c), int(s), int(e), str(g), _num(l), int(p), _num(w)]
            for c, s, e, g, l, p, w in zip(d["chromosome"], d["start"], d["end"], d["gene"], d["log2"],
                                           d["probes"], d["weight"])]


def _kept_bins(i):
    """harness-side reading of skip_low (only used to size the third-party tables)"""
    out = []
    for r in i["bins_f"]:
        if i.get("skip_low") and (r[4] < -15.0 or (i.get("has_depth") and r[6] == 0)):
            continue
        out.append(r)
    return out


def _params_segmetrics(i):
    """third-party values for the model: bootstrap draws (+ smoothing noise) and Student-t tails"""
    import numpy as np
    from scipy import stats

    bins = _kept_bins(i)
    alpha = i["alpha_f"]
    boots, tt = [], []
    B = i["bootstraps"]
    if B <= 2 / alpha:
        B = int(np.ceil(2 / alpha))
    for sg in i["segs_f"]:
        grp = [b for b in bins if b[0] == sg[0] and b[2] > sg[1] and b[1] < sg[2]]
        k = len(grp)
        lg = np.array([b[4] for b in grp], dtype=float)
        if "p_ttest" in i["loc"] and k >= 2:
            sd = lg.std(ddof=1)
            if sd > 0:
                t = lg.mean() / (sd / math.sqrt(k))
                if math.isfinite(t):
                    tt.append([k - 1, frac(Fraction(t) ** 2), frac(float(2 * stats.t.sf(abs(t), k - 1)))])
        rows = []
        if i["ci"] and k >= 2:
            rs = np.random.RandomState(_seed())
            idx = rs.randint(0, k, size=(B, k))
            w = np.array([b[5] for b in grp], dtype=float)
            bw = k ** (-1 / 4)
            for row in idx:
                noise = []
                if i["smoothed"]:
                    noise = [frac(float(x)) for x in (bw * np.sqrt(1 - np.take(w, row)) * rs.randn(k))]
                rows.append([[int(x) for x in row], noise])
        boots.append(rows)
    return {"boots": boots, "tt": tt}


def _params_bintest(i):
    import numpy as np
    from scipy.stats import norm

    phi = [[frac(0), frac(float(2.0 * norm.cdf(-0.0)))]]
    for b in i["bins_f"]:
        for sg in i["segs_f"]:
            if sg[0] == b[0] and sg[1] <= b[1] and b[2] <= sg[2]:
                resid = b[4] - sg[4]
                if b[5] < 1 and resid != 0:
                    z = resid / np.sqrt(1 - b[5])
                    phi.append([frac(Fraction(float(z)) ** 2), frac(float(2.0 * norm.cdf(-abs(z))))])
    return {"phi": phi}


# ---------------------------------------------------------------------------------------------
# the same computations through the command line (`cnvkit.py segmetrics` / `cnvkit.py bintest`)

STAT_FLAG = {"mean": "--mean", "median": "--median", "p_ttest": "--t-test", "stdev": "--stdev", "sem": "--sem",
             "mad": "--mad", "mse": "--mse", "iqr": "--iqr", "bivar": "--bivar"}


def _r6(v):
    """a number the 6-significant-digit table files carry exactly"""
    return float("%.6g" % v)


CHROM_ORDER = {"chr1": 1, "chr2": 2, "chr7": 7, "chr9": 9, "chrX": 1000}  # skgenome.chromsort.sorter_chrom on these names


def _round6(bins, segs, has_depth):
    """make the tables of a case what a .cnr / .cns file holds: 6 significant digits, and the chromosome blocks in
    the order the file reader (tabio.read: sort by chromosome, start, end, stable) leaves them in -- the tables the
    command works on are then the case's tables, row for row"""
    for b in bins:
        b[4], b[5] = _r6(b[4]), _r6(b[5])
        if has_depth:
            b[6] = _r6(b[6])
    for s in segs:
        s[4], s[6] = _r6(s[4]), _r6(s[6])
    for t in (bins, segs):
        t.sort(key=lambda r: (CHROM_ORDER[r[0]], r[1], r[2]))


def _argv(op, i, fb, fs, fo):
    """command line of the case.  cli_style bit 0: long / short spellings, bit 1: bin table first / last;
    cli_implicit: options left out because the case uses the parser's default; cli_noout: no -o (segmetrics then
    writes <sample>.segmetrics.cns into the working directory, bintest writes to standard output)"""
    style = i.get("cli_style", 0)
    implicit = i.get("cli_implicit", [])
    long_ = bool(style & 1)
    opts = []
    if op == "segmetrics":
        opts += ["--segments" if long_ else "-s", fs]
        opts += [STAT_FLAG[nm] for nm in list(i["loc"]) + list(i["spread"])]
        opts += (["--ci"] if i["ci"] else []) + (["--pi"] if i["pi"] else [])
        if "alpha" not in implicit:
            opts += ["--alpha=" + repr(i["alpha_f"])] if long_ else ["-a", repr(i["alpha_f"])]
        if "bootstrap" not in implicit:
            opts += ["--bootstrap" if long_ else "-b", str(i["bootstraps"])]
        opts += ["--smooth-bootstrap"] if i["smoothed"] else []
        opts += ["--drop-low-coverage"] if i["skip_low"] else []
    else:
        opts += ["--segment" if long_ else "-s", fs]
        if "alpha" not in implicit:
            opts += ["--alpha", repr(i["alpha_f"])] if long_ else ["-a", repr(i["alpha_f"])]
        opts += (["--target"] if long_ else ["-t"]) if i["target_only"] else []
    if not i.get("cli_noout"):
        opts += ["--output" if long_ else "-o", fo]
    return [op] + ([fb] + opts if style & 2 else opts + [fb])


def _same_numbers(a, b, rel):
    import numpy as np
    a, b = np.asarray(a, dtype=float), np.asarray(b, dtype=float)
    if a.shape != b.shape:
        return False
    na, nb = np.isnan(a), np.isnan(b)
    if (na != nb).any():
        return False
    a, b = a[~na], b[~nb]
    return bool((np.abs(a - b) <= rel * np.maximum(1.0, np.abs(b))).all())


def _same_table(back, out, numeric, rel):
    """the table read back from a file against the table in memory"""
    if len(back) != len(out):
        return False
    if len(out) == 0:
        return True
    back, out = back.data, out.data
    for col in ("chromosome", "gene"):
        if [str(x) for x in back[col]] != [str(x) for x in out[col]]:
            return False
    for col in ("start", "end"):
        if [int(x) for x in back[col]] != [int(x) for x in out[col]]:
            return False
    for col in numeric:
        if col not in back.columns or not _same_numbers(back[col], out[col], rel):
            return False
    return True


def _cli(op, i):
    """write the .cnr and .cns, run the subcommand in-process the way cnvkit.py does, return the table the command
    hands to the writer (the output file carries 6 significant digits: it is checked separately to read back as
    that table) and whether the input files were left alone"""
    import logging
    import shutil
    import tempfile
    from cnvlib import commands
    from cnvlib.cmdutil import read_cna
    from skgenome import tabio

    d = tempfile.mkdtemp(prefix="c17cli", dir="/var/tmp")
    quiet = logging.root.manager.disable  # the harness may have silenced logging already: put back what was there
    logging.disable(logging.CRITICAL)
    try:
        fb, fs, fo = (os.path.join(d, n) for n in ("S.cnr", "S.cns", "S.out.tsv"))
        cn, sg = _mk_bins(i), _mk_segs(i)
        tabio.write(cn, fb)
        tabio.write(sg, fs)
        # CLI cases are generated with 6-digit numbers, so that the model and the command see the same inputs
        if not (_same_table(read_cna(fb), cn, ["log2", "weight"] + (["depth"] if i.get("has_depth") else []), 0.0)
                and _same_table(read_cna(fs), sg, ["log2", "probes", "weight"], 0.0)):
            raise AssertionError("harness slip: the written input tables do not carry the case's numbers exactly")
        before = [open(f, "rb").read() for f in (fb, fs)]
        captured = []

        class _Tab:
            def __getattr__(self, name):
                return getattr(tabio, name)

            def write(self, garr, outfname=None, *a, **k):
                captured.append((garr, outfname))
                return tabio.write(garr, outfname, *a, **k)
        saved = commands.tabio
        commands.tabio = _Tab()
        cwd = os.getcwd()
        try:
            args = commands.parse_args(_argv(op, i, fb, fs, fo))
            if i.get("cli_noout"):
                import contextlib
                os.chdir(d)
                if op == "segmetrics":
                    fo = os.path.join(d, "S.segmetrics.cns")  # the sample's name comes from the file name S.cns
                    args.func(args)
                    captured = [(g, os.path.join(d, n) if isinstance(n, str) else n) for g, n in captured]
                else:
                    with open(fo, "w") as h, contextlib.redirect_stdout(h):
                        args.func(args)
                        captured = [(g, fo if n is h else n) for g, n in captured]
            else:
                args.func(args)
        finally:
            os.chdir(cwd)
            commands.tabio = saved
        if len(captured) != 1 or captured[0][1] != fo or not os.path.exists(fo):
            raise AssertionError(f"cnvkit.py {op} did not write exactly one table to the requested output")
        out = captured[0][0]
        if op == "segmetrics":
            numeric = ["log2", "probes", "weight"] + [c for c in out.data.columns if c in STAT_FLAG or c in (
                "ci_lo", "ci_hi", "pi_lo", "pi_hi")]
        else:
            numeric = ["log2", "weight", "p_bintest"]
        if len(out) == 0:
            with open(fo) as h:
                ok = len([ln for ln in h.read().splitlines() if ln.strip()]) <= 1  # the header at most
        else:
            ok = _same_table(read_cna(fo), out, numeric, 1e-5)
        if not ok:
            raise AssertionError(f"the file written by cnvkit.py {op} does not read back as the table it computed")
        unmut = before == [open(f, "rb").read() for f in (fb, fs)]
        return out, unmut
    finally:
        logging.disable(quiet)
        shutil.rmtree(d, ignore_errors=True)


def _call_segmetrics(cn, sg, i):
    """do_segmetrics in the case's call style: kw (every argument by keyword, tuples), list (lists, as the command
    line passes them), pos (everything positional), omit (every argument that has its default value left out)"""
    from cnvlib import segmetrics
    inter = (["ci"] if i["ci"] else []) + (["pi"] if i["pi"] else [])
    if i.get("inter_rev"):
        inter.reverse()
    style = i.get("call", "kw")
    seq = list if style in ("list", "pos") else tuple
    vals = [("location_stats", seq(i["loc"]), ()), ("spread_stats", seq(i["spread"]), ()),
            ("interval_stats", seq(inter), ()), ("alpha", i["alpha_f"], 0.05), ("bootstraps", i["bootstraps"], 100),
            ("smoothed", i["smoothed"], False), ("skip_low", i["skip_low"], False)]
    if style == "pos":
        return segmetrics.do_segmetrics(cn, sg, *[v for _n, v, _d in vals])
    if style == "omit":
        vals = [(n, v, d) for n, v, d in vals if not (v == d or (d == () and not v))]
    return segmetrics.do_segmetrics(cn, sg, **{n: v for n, v, _d in vals})


def _call_bintest(cn, sg, i):
    from cnvlib import bintest
    style = i.get("call", "kw")
    if style == "pos":
        return bintest.do_bintest(cn, sg, i["alpha_f"], i["target_only"])
    kw = {"alpha": i["alpha_f"], "target_only": i["target_only"]}
    if style == "omit":
        if kw["alpha"] == 0.005:
            del kw["alpha"]
        if not kw["target_only"]:
            del kw["target_only"]
        return bintest.do_bintest(cn, segments=sg, **kw)
    return bintest.do_bintest(cn, sg, **kw)


def _bh_arg(p, how):
    """the p-value vector in the representation of the case"""
    import numpy as np
    import pandas as pd
    if how == "list":
        return list(p)
    if how == "tuple":
        return tuple(p)
    if how == "series":
        # a column of a filtered table: labels are not positions (here even out of order)
        n = len(p)
        return pd.Series(list(p), index=[(7 * k + 3) % (n + 5) + 100 * (k % 2) for k in range(n)])
    if how == "int" and all(x in (0.0, 1.0) for x in p):
        return np.array([int(x) for x in p], dtype=np.int64)
    if how == "strided":
        big = np.zeros(2 * len(p), dtype=float)
        big[::2] = p
        return big[::2]
    return np.array(p, dtype=float)


def run_impl(case):
    import numpy as np
    from cnvlib import bintest

    i = case["in"]
    op = case["op"]
    if op == "bh":
        arg = _bh_arg(i["p_f"], i.get("how"))
        keep = arg.copy() if hasattr(arg, "copy") else arg
        q = bintest.p_adjust_bh(arg)
        if not (len(arg) == len(keep) and all(float(x) == float(y) for x, y in zip(list(arg), list(keep)))):
            raise AssertionError("p_adjust_bh changed its argument")
        return [_num(x) for x in np.asarray(q, dtype=float)]
    if op == "glue":
        return _run_glue(i)
    if op == "cmd":
        return _run_cmd(i)
    if op == "seg_small":       # round 5c: segments with no / one bin (harness/props/_c17small5c.py)
        from ._c17small5c import run_small
        return run_small(i)
    if op == "bintest_noseg":   # round 5: do_bintest without segments (harness/props/_c17ext5.py)
        from ._c17ext5 import run_noseg
        return run_noseg(i)
    cn = _mk_bins(i)
    sg = _mk_segs(i)
    cn0, sg0 = cn.data.copy(), sg.data.copy()
    if op == "segmetrics":
        if i.get("cli"):
            out, unmut = _cli(op, i)  # unmut: the command left its input files alone
        else:
            out = _call_segmetrics(cn, sg, i)
            unmut = bool(cn.data.equals(cn0) and sg.data.equals(sg0))
        # the extra columns of the segment table belong to "the input segments' own columns"
        unmut = unmut and _extras_kept(i, out)
        # consume some global RNG state, then run again: the result must not depend on it.  (The re-run goes
        # through the API also for a CLI case: the bootstrap reseeds before drawing, so command line and API must
        # give the very same interval.)
        np.random.random(3)
        out2 = _call_segmetrics(cn, sg, dict(i, call="kw"))
        names = list(i["loc"]) + list(i["spread"]) + (["ci_lo", "ci_hi"] if i["ci"] else []) + (
            ["pi_lo", "pi_hi"] if i["pi"] else [])

        def rows_of(o):
            d = o.data
            return [{nm: _num(d[nm].iat[k]) for nm in names} for k in range(len(d))]

        return {"rows": rows_of(out), "rows_again": rows_of(out2), "own": _own_rows(out.data),
                "input_unmutated": unmut, "_params": _params_segmetrics(i)}
    if op == "bintest":
        if i.get("cli"):
            out, unmut = _cli(op, i)
            labels = list(range(len(i["bins_f"])))  # the command read the file: labels are positions
        else:
            out = _call_bintest(cn, sg, i)
            unmut = bool(cn.data.equals(cn0) and sg.data.equals(sg0))
            labels = [int(x) for x in cn.data.index]
        d = out.data
        # the model names a bin by its position in the table; a label the input does not have names no bin
        pos = {lab: k for k, lab in enumerate(labels)}
        hits = [[pos.get(int(lab), len(labels) + abs(int(lab))), _num(l), _num(p)]
                for lab, l, p in zip(d.index, d["log2"], d["p_bintest"])]
        # a hit is a row of the bin table: its coordinates and gene are that bin's
        for h, c, s, e, g in zip(hits, d["chromosome"], d["start"], d["end"], d["gene"]):
            if h[0] < len(labels):
                b = i["bins_f"][h[0]]
                if [str(c), int(s), int(e), str(g)] != [b[0], b[1], b[2], b[3]]:
                    h[0] = len(labels) + h[0]
        return {"hits": hits, "input_unmutated": unmut, "_params": _params_bintest(i)}
    raise ValueError(op)


# ---------------------------------------------------------------------------------------------
# glue of do_segmetrics / _cmd_segmetrics (ops `glue`, `cmd`; Model/StatsGlue.lean)

BASE_SEG = ["chromosome", "start", "end", "gene", "log2", "probes", "weight"]
STALE = 1000.0  # a pre-existing column holds 1000 + row number: no statistic of these tables comes near it


def _glue_tables(i, with_old):
    from cnvlib.cnary import CopyNumArray as CNA
    cn = _mk_bins(i)
    old = list(i["old_cols"]) if with_old else []
    rows = [tuple(r) + tuple(STALE + k for _c in old) for k, r in enumerate(i["segs_f"])]
    sg = CNA.from_rows(rows, columns=BASE_SEG + old, meta_dict={"sample_id": "S"})
    return cn, sg


def _run_glue(i):
    """do_segmetrics on a segment table that already carries some columns (statistics of an earlier run, some of
    them requested again) and on the same table without them: every column of the result is tagged `own` (holds
    what the input held), `fresh` (holds what the run without the old columns computed) or `other`"""
    import numpy as np
    from cnvlib import segmetrics
    kw = dict(location_stats=list(i["loc"]), spread_stats=list(i["spread"]), interval_stats=list(i["interval"]),
              alpha=i["alpha_f"], bootstraps=i["bootstraps"])
    cn, sg = _glue_tables(i, True)
    sg0 = sg.data.copy()
    out = segmetrics.do_segmetrics(cn, sg, **kw).data
    cn2, sg2 = _glue_tables(i, False)
    ref = segmetrics.do_segmetrics(cn2, sg2, **kw).data

    def same(a, b):
        a, b = np.asarray(a), np.asarray(b)
        if a.shape != b.shape:
            return False
        if a.dtype.kind in "fiu" and b.dtype.kind in "fiu":
            return bool(np.array_equal(a.astype(float), b.astype(float), equal_nan=True))
        return bool((a == b).all())
    cols = []
    for c in out.columns:
        if c in ref.columns and c not in BASE_SEG and same(out[c], ref[c]):
            tag = "fresh"
        elif c in sg0.columns and same(out[c], sg0[c]):
            tag = "own"
        else:
            tag = "other"
        cols.append([str(c), tag])
    return {"columns": cols, "input_unmutated": bool(sg.data.equals(sg0))}


def _run_cmd(i):
    """`cnvkit.py segmetrics ...` in-process: what did the command function decide?"""
    import logging
    import shutil
    import tempfile
    from cnvlib import commands
    from skgenome import tabio
    d = tempfile.mkdtemp(prefix="c17cmd", dir="/var/tmp")
    quiet = logging.root.manager.disable
    logging.disable(logging.CRITICAL)
    cwd = os.getcwd()
    saved = commands.tabio
    try:
        cn, sg = _glue_tables(dict(i, old_cols=[]), False)
        fb, fs = os.path.join(d, i["sample"] + ".cnr"), os.path.join(d, i["sample"] + ".cns")
        tabio.write(cn, fb)
        tabio.write(sg, fs)
        captured = []

        class _Tab:
            def __getattr__(self, name):
                return getattr(tabio, name)

            def write(self, garr, outfname=None, *a, **k):
                captured.append((garr, outfname))
        commands.tabio = _Tab()
        argv = ["segmetrics", fb, "-s", fs, "-a", repr(i["alpha_f"]), "-b", "4"]
        argv += [STAT_FLAG[nm] for nm in list(i["loc"]) + list(i["spread"])] + ["--" + nm for nm in i["interval"]]
        if i["output"] is not None:
            argv += ["-o", i["output"]]
        os.chdir(d)
        args = commands.parse_args(argv)
        try:
            args.func(args)
        except RuntimeError:
            return {"decision": "refuse", "path": None}
        if not captured:
            return {"decision": "nothing", "path": None}
        if len(captured) != 1 or not isinstance(captured[0][1], str):
            raise AssertionError("cnvkit.py segmetrics wrote more than one table / not to a file name")
        out = captured[0][0].data
        plain = list(out.columns) == BASE_SEG and _own_rows(out) == _own_rows(sg.data)
        return {"decision": "write", "path": captured[0][1], "plain": bool(plain)}
    finally:
        commands.tabio = saved
        os.chdir(cwd)
        logging.disable(quiet)
        shutil.rmtree(d, ignore_errors=True)


def _judge_glue(case, impl, resp):
    i = case["in"]
    if case["op"] == "cmd":
        m = resp["out"]
        if m["decision"] == "nothing" and impl["decision"] == "write" and impl.get("plain"):
            return [], [], None  # handing back the unchanged table instead of nothing is as good
        dis = []
        if m["decision"] != impl["decision"] or (m["decision"] == "write" and m["path"] != impl["path"]):
            dis.append(f"command decision: model {m} impl {impl}")
        return [], dis, None
    spec = list(resp.get("spec") or [])
    if not impl.get("input_unmutated", True):
        spec.append("segment_columns_unchanged")
    # observables: the requested columns and the segment table's own ones (column order and any further column the
    # property says nothing about are not compared)
    watch = set(resp["requested"]) | set(i["seg_cols"])
    model = {c: t for c, t in resp["out"] if c in watch}
    real = {c: t for c, t in impl["columns"] if c in watch}
    dis = [] if model == real else [f"columns: model {sorted(model.items())} impl {sorted(real.items())}"]
    return spec, dis, None


INTERVALS = [[], [], ["ci"], ["pi"], ["ci", "pi"], ["pi", "ci"], ["pi", "pi"], ["ci", "pi", "ci"]]


def _glue_case(rng):
    bins, segs = _tables(rng, lambda: rng.choice([0, 1, 2, 3, 5]), api=True)
    if not bins:
        bins, segs = _tables(rng, lambda: 3, api=True)
    i = _pack(bins, segs, False)
    loc = [s for s in LOC if rng.random() < 0.5]
    spread = [s for s in SPREAD if s != "bivar" and rng.random() < 0.4]
    if loc and rng.random() < 0.2:
        loc.append(rng.choice(loc))  # `--mean --mean`
    rng.shuffle(loc)
    rng.shuffle(spread)
    interval = list(rng.choice(INTERVALS))
    made = loc + spread + (["ci_lo", "ci_hi"] if "ci" in interval else []) + (["pi_lo", "pi_hi"] if "pi" in interval else [])
    pool = list(dict.fromkeys(made)) + [c for c in ["cn", "depth", "baf", "sem", "mean", "ci_lo", "pi_hi", "iqr"]
                                        if c not in made]
    old = [c for c in pool if rng.random() < 0.45]
    rng.shuffle(old)
    alpha = rng.choice([0.5, 0.25, 0.05, 0.1])
    i.update({"loc": loc, "spread": spread, "interval": interval, "old_cols": old, "seg_cols": BASE_SEG + old,
              "alpha": frac(alpha), "alpha_f": alpha, "bootstraps": rng.choice([3, 8])})
    return {"op": "glue", "tag": "glue-stale" if set(old) & set(made) else "glue", "in": i}


def _cmd_case(rng, k):
    b = [["chr1", 0, 100, "a", 0.5, 0.5], ["chr1", 100, 200, "b", 1.0, 0.5], ["chr2", 0, 50, "c", -1.0, 0.25]]
    s = [["chr1", 0, 200, "-", 0.25, 2, 1.0], ["chr2", 0, 50, "-", -1.0, 1, 1.0]]
    i = _pack(b, s, False)
    alpha = [0.0, -0.25, 1.5, 0.5, 0.25, 0.05, 0.5, 0.125][k % 8]
    nostat = k % 3 == 1
    loc = [] if nostat else [x for x in LOC if rng.random() < 0.5]
    spread = [] if nostat else [x for x in SPREAD if x != "bivar" and rng.random() < 0.3]
    interval = [] if nostat else list(rng.choice(INTERVALS))
    if not nostat and not (loc or spread or interval):
        loc = ["median"]
    sample = rng.choice(["S", "tumor1", "a.b"])
    output = rng.choice([None, None, "out.cns", "x/../res.tsv"]) if k % 5 else None
    if output and "/" in output:
        output = "res.tsv"
    i.update({"loc": loc, "spread": spread, "interval": interval, "alpha": frac(alpha), "alpha_f": alpha,
              "sample": sample, "output": output})
    return {"op": "cmd", "tag": "cmd-refuse" if not 0 < alpha <= 1 else "cmd-nostat" if nostat else "cmd", "in": i}


def to_line(case, impl):
    i = case["in"]
    line = {"op": case["op"], "in": {k: v for k, v in i.items() if not k.endswith("_f") and k not in PY_ONLY}}
    err = isinstance(impl, dict) and "__error__" in impl
    if case["op"] in ("glue", "cmd"):
        line["in"] = {k: i[k] for k in ("seg_cols", "loc", "spread", "interval", "alpha", "output", "sample") if k in i}
        if not err:
            line["impl"] = impl
        return line
    if case["op"] in ("bh", "seg_small"):
        if not err:
            line["impl"] = impl
        return line
    if err:
        # the model still needs its parameters
        try:
            if case["op"] == "bintest_noseg":
                from ._c17ext5 import params_noseg
                params = params_noseg(i)
            else:
                params = _params_segmetrics(i) if case["op"] == "segmetrics" else _params_bintest(i)
        except Exception:
            params = {"boots": [], "tt": [], "phi": []}
    else:
        params = impl["_params"]
        line["impl"] = {k: v for k, v in impl.items() if k != "_params"}
    line["in"].update(params)
    return line


# ---------------------------------------------------------------------------------------------
# judging


def _close(a, q):
    qf = float(Fraction(q))
    return abs(a - qf) <= 1e-9 * max(1.0, abs(qf))


def _match(x, v):
    """impl number (fraction string or None) against a model value object"""
    k = v["k"]
    if k == "nan":
        return x is None
    if x is None:
        return False
    a = float(Fraction(x))
    if k == "num":
        return _close(a, v["v"])
    if k == "sqrt":
        return _close(a, frac(math.sqrt(max(0.0, float(Fraction(v["v"]))))))
    if k == "t":
        return v["p"] is not None and _close(a, v["p"])
    return False


EXPECTED_ERRORS = {"bad-alpha": "ValueError", "bad-stat": "KeyError", "cli-bad-alpha": "RuntimeError"}


def judge(case, impl, resp):
    tag = case.get("tag", "")
    if isinstance(impl, dict) and "__error__" in impl:
        if EXPECTED_ERRORS.get(tag) == impl["__error__"]:
            return [], [], None  # the refusal the input deserves
        return ["raises_" + impl["__error__"]], [], None
    if tag in EXPECTED_ERRORS:
        return [], ["malformed input accepted: " + tag], None
    if "error" in resp:
        return [], ["model error: " + resp["error"]], None
    op = case["op"]
    if op == "seg_small":
        from ._c17small5c import judge_small
        return judge_small(case, impl, resp)
    if op in ("glue", "cmd"):
        return _judge_glue(case, impl, resp)
    if op == "bh":
        spec = list(resp.get("spec") or [])
        dis = []
        if len(impl) != len(resp["out"]):
            dis.append("length")
        else:
            for k, (a, m) in enumerate(zip(impl, resp["out"])):
                if a is None or not _close(float(Fraction(a)), m):
                    dis.append(f"q[{k}] model {m} impl {a}")
                    break
        return spec, dis, None
    if op in ("bintest", "bintest_noseg"):
        if impl.get("refused"):
            return [], [], "alpha >= 1 refused by the code (outside the property's quantifier)"
        spec = list(resp.get("spec") or [])
        dis = []
        if not impl.get("input_unmutated", True):
            spec.append("bintest_input_unchanged")
        if resp.get("phi_missing"):
            dis.append("normal-tail table lacks an argument the model needs")
        # one tested bin: BH is the identity, so q against alpha is decided exactly even at equality
        knife = Fraction(resp["slack"]) < Fraction(1, 10 ** 9) and resp.get("tested", 0) != 1
        mh, ih = resp["out"], impl["hits"]
        if [h[0] for h in mh] != [h[0] for h in ih]:
            if not knife:
                dis.append(f"hits model {[h[0] for h in mh]} impl {[h[0] for h in ih]}")
        else:
            for m, a in zip(mh, ih):
                if a[1] is None or a[2] is None or not _close(float(Fraction(a[1])), m[1]) or not _close(float(Fraction(a[2])), m[2]):
                    dis.append(f"hit {m[0]}: model {m} impl {a}")
                    break
        skipped = "q within 1e-9 of alpha" if (knife and not dis and not spec) else None
        return spec, dis, skipped
    # segmetrics
    sp = resp.get("spec") or {}
    spec = [c for c in sp.get("bad", []) if c != "tt_arg_missing"]
    dis = []
    if "tt_arg_missing" in sp.get("bad", []):
        dis.append("Student-t table lacks an argument the model needs")
    knife = list(sp.get("knife", []))
    rows, out = impl["rows"], resp["out"]
    if len(rows) != len(out):
        return spec, dis + ["row count"], None
    for k, (r, o) in enumerate(zip(rows, out)):
        for nm, so in o["stats"].items():
            if _match(r[nm], so["val"]) or (so["alt"] is not None and _match(r[nm], so["alt"])):
                continue
            if Fraction(so["slack"]) < Fraction(1, 10 ** 9):
                knife.append(nm)
                continue
            dis.append(f"segment {k} ({o['n']} bins) {nm}: model {so['val']} impl {r[nm]}")
        for nm in ("ci", "pi"):
            if not case["in"][nm]:
                continue
            lo, hi = r[nm + "_lo"], r[nm + "_hi"]
            if o[nm] is None:
                if lo is not None or hi is not None:
                    dis.append(f"segment {k} {nm}: model NaN impl {lo},{hi}")
            elif lo is None or hi is None or not (_close(float(Fraction(lo)), o[nm][0]) and _close(float(Fraction(hi)), o[nm][1])):
                dis.append(f"segment {k} ({o['n']} bins) {nm}: model {[float(Fraction(x)) for x in o[nm]]} impl {lo},{hi}")
        if len(dis) > 3:
            break
    skipped = ("exact-zero test inside bivar within rounding distance: " + ",".join(sorted(set(knife)))
               if (knife and not dis and not spec) else None)
    return spec, dis, skipped


def classify_smoothed_ci_range(case, impl, resp):
    """the smoothed bootstrap adds Gaussian noise to the replicates, so its CI may leave the bins' range"""
    return case.get("op") == "segmetrics" and bool(case["in"].get("smoothed")) and bool(case["in"].get("ci"))


def nontrivial(case, impl, resp):
    op = case["op"]
    if op == "seg_small":
        return True
    if op == "glue":
        return bool(case["in"]["old_cols"]) and bool(case["in"]["loc"] or case["in"]["spread"] or case["in"]["interval"])
    if op == "cmd":
        return True
    if op == "bh":
        return len(case["in"]["p"]) >= 2
    if op in ("bintest", "bintest_noseg"):
        return isinstance(resp, dict) and resp.get("tested", 0) >= 2
    if not isinstance(resp, dict) or "out" not in resp:
        return False
    i = case["in"]
    return any(o["n"] >= 2 for o in resp["out"]) and bool(i["loc"] or i["spread"] or i["ci"] or i["pi"])


# ---------------------------------------------------------------------------------------------
# generators


def _value(rng, style, level):
    if style == "dyadic":
        return level + rng.randint(-16, 16) / 8.0
    if style == "ties":
        return level + rng.choice([-0.25, 0.0, 0.0, 0.25, 0.5])
    if style == "const":
        return level
    if style == "round3":
        return round(level + rng.gauss(0, 0.3), 3)
    return level + rng.gauss(0, 0.3)


def _weight(rng, wstyle):
    k = rng.random()
    if wstyle == "ones":
        return 1.0
    if k < 0.08:
        return 1.0
    if wstyle == "dyadic":
        return rng.choice([0.125, 0.25, 0.5, 0.75, 1.0])
    return round(rng.uniform(0.02, 1.0), rng.choice([2, 4, 9]))


DECOYS = ["antitarget", "Antitarget2", "BACKGROUND", "Background,G1", "G1,Antitarget", "-", ".", "CGH"]  # on-target names
CHROM_NAMES = [{"chr1": "1", "chr2": "2", "chrX": "X", "chr7": "7", "chr9": "9"},
               {"chr1": "Chr1", "chr2": "chr2_random", "chrX": "x", "chr7": "chrUn_gl000220", "chr9": "MT"},
               {"chr1": "chr10", "chr2": "chr1", "chrX": "chrY", "chr7": "chr2", "chr9": "chrX"}]


def _tables(rng, sizes, anti_p=0.0, low_p=0.0, has_depth=False, overlap_p=0.0, straddle_p=0.3, api=False):
    """bins + a segmentation of them.  sizes: callable giving the number of bins of the next segment.
    api: the tables go to the functions directly (not through files, whose reader sorts the chromosomes): segment
    chromosome blocks may come in another order than the bins', chromosome names need not look like chrN."""
    chroms = rng.sample(["chr1", "chr2", "chrX", "chr7"], rng.randint(1, 3))
    style_all = rng.choice(["dyadic", "ties", "round3", "gauss", "mixed"])
    wstyle = rng.choice(["any", "any", "dyadic", "ones"])
    # structural cells, each switched on for a share of the tables
    nest_p = 0.15 if rng.random() < 0.2 else 0.0      # a bin nested inside the previous one (ends not monotone)
    gapstart_p = 0.3 if rng.random() < 0.35 else 0.0  # segment starts in the gap before its first bin
    startin_p = 0.3 if rng.random() < 0.35 else 0.0   # segment starts inside its first bin
    orphan_p = 0.3 if rng.random() < 0.25 else 0.0    # bins between two segments / after the last that no segment covers
    decoy_p = 0.15 if (anti_p and rng.random() < 0.5) else 0.0
    bins, segs = [], []

    def add_bin(c, start, end, lg):
        depth = 0.0 if (has_depth and rng.random() < low_p) else round(2.0 ** min(lg, 8), 4) + 0.5
        k = rng.random()
        gene = rng.choice(ANTI) if k < anti_p else rng.choice(DECOYS) if k < anti_p + decoy_p else f"G{len(bins) // 3}"
        row = [c, start, end, gene, lg, _weight(rng, wstyle)]
        if has_depth:
            row.append(depth)
        bins.append(row)

    for c in chroms:
        pos = rng.choice([0, 0, rng.randint(1, 5000)])
        nseg = rng.randint(1, 4)
        for _s in range(nseg):
            nb = sizes()
            style = style_all if style_all != "mixed" else rng.choice(["dyadic", "ties", "round3", "gauss", "const"])
            level = rng.choice([0.0, 0.5, -1.0, round(rng.gauss(0, 0.6), 2)])
            seg_start = pos
            if nb and rng.random() < gapstart_p:
                pos += rng.randint(1, 40)
            first = len(bins)
            for _b in range(nb):
                sz = rng.randint(10, 200)
                lg = _value(rng, style, level)
                if rng.random() < low_p:
                    lg = rng.choice([-20.0, -15.5, -15.0, -27.0])
                add_bin(c, pos, pos + sz, lg)
                nested = sz >= 12 and rng.random() < nest_p
                if nested:
                    ns = rng.randint(pos + 1, pos + sz - 3)
                    add_bin(c, ns, rng.randint(ns + 1, pos + sz - rng.choice([0, 1])), _value(rng, style, level))
                if rng.random() < overlap_p and nb > 1 and not nested:
                    pos += max(1, sz - rng.randint(1, 5))  # next bin overlaps this one slightly
                else:
                    pos += sz + rng.choice([0, 0, rng.randint(1, 40)])
            if nb == 0:
                pos += rng.randint(50, 500)
            seg_end = max(pos, seg_start + 1)
            mine = bins[first:]
            if mine and rng.random() < 0.7:
                ws = sum(b[5] for b in mine)
                slog = sum(b[4] * b[5] for b in mine) / ws
                if rng.random() < 0.4:
                    slog = round(slog, 3)
            else:
                slog = rng.choice([0.0, 0.5, level, -0.75])
            # boundary placement: on the edge, inside the last bin (shared), or in the gap
            if mine and rng.random() < straddle_p and mine[-1][2] - mine[-1][1] > 2:
                seg_end = rng.randint(mine[-1][1] + 1, mine[-1][2] - 1)
            if mine and seg_start == mine[0][1] and rng.random() < startin_p and mine[0][2] - mine[0][1] > 2:
                st = rng.randint(mine[0][1] + 1, mine[0][2] - 1)  # the first bin straddles the segment's start
                if st < seg_end:
                    seg_start = st
            segs.append([c, seg_start, seg_end, "-", slog, len(mine), round(rng.uniform(1, 50), 3)])
            # mostly the next bins start after the last bin; sometimes at the segment end inside a shared bin
            pos = max(pos, seg_end) if rng.random() < 0.8 else seg_end
            if rng.random() < orphan_p:
                for _o in range(rng.randint(1, 3)):
                    sz = rng.randint(10, 120)
                    add_bin(c, pos, pos + sz, _value(rng, style_all if style_all != "mixed" else "gauss", level))
                    pos += sz + rng.choice([0, rng.randint(1, 30)])
    if rng.random() < 0.12:
        segs.append(["chr9", 0, 1000, "-", 0.25, 0, 1.0])
    if api:
        present = [c for c in chroms]
        if len(present) >= 2 and rng.random() < 0.35:
            # the segment table lists the chromosomes in another order than the bin table
            order = present[:] + (["chr9"] if segs[-1][0] == "chr9" else [])
            rng.shuffle(order)
            segs = [sg for c in order for sg in segs if sg[0] == c]
        if len(present) >= 2 and rng.random() < 0.15:
            # a chromosome of the bin table that the segmentation does not mention at all
            gone = rng.choice(present)
            if any(b[0] == gone for b in bins) and any(sg[0] != gone for sg in segs):
                segs = [sg for sg in segs if sg[0] != gone]
        if rng.random() < 0.2:
            ren = rng.choice(CHROM_NAMES)
            for t in (bins, segs):
                for r in t:
                    r[0] = ren[r[0]]
    return bins, segs


def _pack(bins, segs, has_depth):
    b_exact = []
    for r in bins:
        row = [r[0], r[1], r[2], r[3], frac(r[4]), frac(r[5])]
        row.append(frac(r[6]) if has_depth else None)
        b_exact.append(row)
    return {
        "bins": b_exact, "bins_f": bins, "has_depth": has_depth,
        "segs": [[s[0], s[1], s[2], s[3], frac(s[4])] for s in segs],
        "segs_full": [[s[0], s[1], s[2], s[3], frac(s[4]), s[5], frac(s[6])] for s in segs],
        "segs_f": segs,
    }


def _biloc_iters(a):
    """float replay of biweight_location's loop, only to predict how long the exact model will take"""
    a = sorted(a)
    n = len(a)
    if n < 2:
        return 0

    def med(x):
        x = sorted(x)
        return x[len(x) // 2] if len(x) % 2 else (x[len(x) // 2 - 1] + x[len(x) // 2]) / 2

    initial = med(a)
    it = 0
    for _ in range(5):
        it += 1
        d = [x - initial for x in a]
        den = max(6 * med([abs(x) for x in d]), 1e-3)
        w = [(1 - (x / den) ** 2) ** 2 for x in d]
        keep = [(x, y) for x, y in zip(d, w) if abs(x / den) < 1]
        ws = sum(y for _, y in keep)
        res = initial if ws == 0 else initial + sum(x * y for x, y in keep) / ws
        if abs(res - initial) <= 1e-3:
            break
        initial = res
    return it


def _bivar_cost(bins, segs):
    """rough seconds the exact rational model needs for bivar on this table (numerators grow ~8x per pass)"""
    per_bin = {0: 0.0, 1: 0.0005, 2: 0.001, 3: 0.005, 4: 0.03, 5: 0.25}
    total = 0.0
    for sg in segs:
        grp = [b for b in bins if b[0] == sg[0] and b[2] > sg[1] and b[1] < sg[2]]
        if len(grp) < 2:
            continue
        dev = [b[4] - sg[4] for b in grp]
        bits = max(Fraction(x).denominator.bit_length() for x in dev)
        total += len(grp) * per_bin[_biloc_iters(dev)] * (0.05 + (bits / 50.0) ** 2)
    return total


def _repr(rng, cli, seg_extra=True):
    """how the tables are handed over (see _mk_table).  A command-line case writes them to files first: only extra
    columns and column order survive that"""
    rp = {}
    if not cli and rng.random() < 0.4:
        rp["bsub"] = rng.randrange(10 ** 6)
    if not cli and rng.random() < 0.3:
        rp["ssub"] = rng.randrange(10 ** 6)
    if rng.random() < 0.25:
        rp["bextra"] = [c for c in BIN_EXTRA if rng.random() < 0.6]
    if seg_extra and rng.random() < 0.3:
        rp["sextra"] = [c for c in SEG_EXTRA if rng.random() < 0.4]
    if rng.random() < 0.15:
        rp["bperm"] = rng.randrange(10 ** 6)
    if rng.random() < 0.15:
        rp["sperm"] = rng.randrange(10 ** 6)
    return rp


ALPHAS = [0.5, 0.25, 0.125, 0.05, 0.1, 0.2, 0.3, 0.4, 0.01, 0.9, 2.0 / 3.0]


def _segmetrics_case(rng, big=False, tag=None, cli=False):
    """cli: the case goes through `cnvkit.py segmetrics` (6-digit numbers, so that the written files are exact; in
    some cases alpha / the number of bootstraps are the parser's defaults and the option is left out)"""
    want_ci = rng.random() < 0.45
    want_bivar = rng.random() < 0.5
    alpha = rng.choice(ALPHAS)
    bootstraps = rng.choice([1, 3, 4, 5, 8, 10, 20, 40, 41, 100])
    implicit = []
    call = "kw" if cli else rng.choice(["kw", "kw", "list", "pos", "omit", "omit"])
    if call == "omit":
        # the API's own defaults (alpha=0.05, bootstraps=100) are only exercised when the case has those values
        if rng.random() < 0.6:
            alpha = 0.05
        if rng.random() < 0.6:
            bootstraps = 100
    if cli and rng.random() < 0.3:
        alpha = 0.05  # P_segmetrics --alpha default
        implicit.append("alpha")
    if cli and rng.random() < 0.3:
        bootstraps = 100  # P_segmetrics --bootstrap default
        implicit.append("bootstrap")
    B = bootstraps if not bootstraps <= 2 / alpha else math.ceil(2 / alpha)
    if big:
        cap = 300
    elif want_ci:
        cap = max(3, min(60, 2500 // B))
    else:
        cap = 80
    if want_bivar and not big:
        cap = min(cap, 40)
    pool = [0, 1, 1, 2, 2, 3, 4, 5, 7, 10, 16, 25, 40, 60, 80, 150, 300]
    pool = [x for x in pool if x <= cap] + [cap]

    def sizes():
        return rng.choice(pool)

    skip_low = rng.random() < 0.3
    has_depth = rng.random() < 0.4
    low_p = 0.08 if skip_low or rng.random() < 0.2 else 0.0
    if skip_low and rng.random() < 0.06:
        low_p = rng.choice([0.6, 1.0])  # whole segments (or the whole table) dropped as low coverage
    bins, segs = _tables(rng, sizes, low_p=low_p, has_depth=has_depth,
                         overlap_p=0.05 if rng.random() < 0.2 else 0.0, api=not cli)
    if not bins:
        bins, segs = _tables(rng, lambda: 3, has_depth=has_depth, api=not cli)
    if cli:
        _round6(bins, segs, has_depth)
    loc = [s for s in LOC if rng.random() < 0.5]
    spread = [s for s in SPREAD if rng.random() < 0.5 and (s != "bivar" or want_bivar)]
    if big:
        spread = [s for s in spread if s != "bivar"] if rng.random() < 0.7 else spread
        want_ci = want_ci and B <= 10
    rng.shuffle(loc)
    rng.shuffle(spread)
    if "bivar" in spread and _bivar_cost(bins, segs) > (2.0 if big else 0.12):
        spread.remove("bivar")  # the exact model of the iterated location would take too long on this table
    i = _pack(bins, segs, has_depth)
    i.update({"loc": loc, "spread": spread, "ci": want_ci, "pi": rng.random() < 0.5,
              "alpha": frac(alpha), "alpha_f": alpha, "two_over_alpha": frac(2 / alpha),
              "bootstraps": bootstraps, "smoothed": want_ci and rng.random() < 0.3, "skip_low": skip_low})
    if call == "omit" and rng.random() < 0.5:
        i.update({"smoothed": False, "skip_low": False} if rng.random() < 0.5 else {"smoothed": False})
    i.update({"call": call, "inter_rev": rng.random() < 0.3, "repr": _repr(rng, cli)})
    tag = tag or ("big" if big else ("ci" if want_ci else "stats"))
    if cli:
        if not (loc or spread or i["ci"] or i["pi"]):
            i["loc"] = [rng.choice(LOC)]  # the command writes nothing when no statistic is asked for
        i.update({"cli": True, "cli_implicit": implicit, "cli_style": rng.randrange(4)})
        if rng.random() < 0.2:
            i["cli_noout"] = True
        tag = "cli-" + tag
    return {"op": "segmetrics", "tag": tag, "in": i}


def _bintest_case(rng, tag="bintest", cli=False):
    pool = [0, 1, 1, 2, 3, 5, 8, 15, 30, 60]
    anti_p = 0.3 if rng.random() < 0.6 else 0.0
    if rng.random() < 0.04:
        anti_p = 1.0  # nothing but off-target bins: `target_only` leaves nothing to test
    bins, segs = _tables(rng, lambda: rng.choice(pool), anti_p=anti_p, straddle_p=0.25, api=not cli)
    if not bins:
        bins, segs = _tables(rng, lambda: 4, anti_p=0.3, api=not cli)
    # spikes: a few bins far from their segment
    for b in bins:
        if rng.random() < 0.08:
            b[4] = b[4] + rng.choice([-3.0, 2.5, 4.0, -1.5])
    # exact zero residuals and unit weights
    for s in segs:
        inside = [b for b in bins if b[0] == s[0] and s[1] <= b[1] and b[2] <= s[2]]
        if inside and rng.random() < 0.3:
            s[4] = rng.choice(inside)[4]
    if rng.random() < 0.25 and len(segs) >= 1:
        # overlapping segments: duplicate one segment with another mean
        s = list(rng.choice(segs))
        s[4] = s[4] + 0.5
        k = max(j for j, t in enumerate(segs) if t[0] == s[0])
        segs.insert(k + 1, s)
    if cli:
        _round6(bins, segs, False)
    i = _pack(bins, segs, False)
    alpha = rng.choice([0.005, 0.05, 0.5, 0.25, 0.001, 0.9])
    i.update({"alpha": frac(alpha), "alpha_f": alpha, "target_only": rng.random() < 0.5})
    i.update({"call": "kw" if cli else rng.choice(["kw", "pos", "omit"]), "repr": _repr(rng, cli, seg_extra=False)})
    if i["call"] == "omit" and rng.random() < 0.5:
        i.update({"alpha": frac(0.005), "alpha_f": 0.005})  # do_bintest's own default
    if cli:
        implicit = []
        if rng.random() < 0.3:
            i.update({"alpha": frac(0.005), "alpha_f": 0.005})  # P_bintest --alpha default
            implicit.append("alpha")
        i.update({"cli": True, "cli_implicit": implicit, "cli_style": rng.randrange(4)})
        if rng.random() < 0.2:
            i["cli_noout"] = True
        tag = "cli-" + tag
    return {"op": "bintest", "tag": tag, "in": i}


def _bintest_at_alpha(rng, cli=False):
    """one tested bin whose adjusted p equals alpha exactly (BH of one value is the identity, and the
    harness repeats z_prob's float operations), next to the same case one ulp above: `<` against `<=`"""
    import numpy as np
    from scipy.stats import norm

    lg = rng.choice([0.75, 1.5, round(rng.uniform(0.2, 2.5), 3), -round(rng.uniform(0.2, 2.5), 3)])
    w = rng.choice([0.5, 0.25, 0.9, round(rng.uniform(0.05, 0.95), 2)])
    slog = rng.choice([0.0, 0.125, round(rng.uniform(-0.2, 0.2), 2)])
    bins = [["chr1", 100, 200, "G0", lg, w], ["chr1", 300, 420, "G1", 0.1, 0.5]]
    segs = [["chr1", 0, 250, "-", slog, 1, 1.0]]
    z = np.array([lg - slog]) / np.sqrt(1 - np.array([w]))
    p = float((2.0 * norm.cdf(-np.abs(z)))[0])
    alpha = p if rng.random() < 0.6 else float(np.nextafter(p, 1.0))
    i = _pack(bins, segs, False)
    i.update({"alpha": frac(alpha), "alpha_f": alpha, "target_only": rng.random() < 0.5})
    if cli:
        # the table values have <= 4 significant digits (exact in the files); alpha travels as repr(), exactly
        i.update({"cli": True, "cli_implicit": [], "cli_style": rng.randrange(4)})
        return {"op": "bintest", "tag": "cli-alpha-at-q", "in": i}
    return {"op": "bintest", "tag": "alpha-at-q", "in": i}


GRID = [0.0, 0.01, 0.04, 0.2, 0.5, 1.0]


BH_HOW = ["array", "array", "list", "tuple", "series", "int", "strided"]


def _bh_case(p, tag, how=None):
    i = {"p": [frac(x) for x in p], "p_f": list(p)}
    if how and how != "array":
        i["how"] = how
    return {"op": "bh", "tag": tag, "in": i}


def _bh_exhaustive(maxlen):
    import itertools
    out = []
    for n in range(1, maxlen + 1):
        for k, p in enumerate(itertools.product(GRID, repeat=n)):
            out.append(_bh_case(list(p), f"grid{n}", BH_HOW[(k + n) % len(BH_HOW)]))
    return out


def _bh_random(rng):
    n = rng.choice([1, 2, 3, 5, 8, 13, 40, 100, 200])
    style = rng.random()
    if style < 0.3:
        p = [rng.choice(GRID + [0.05, 0.001]) for _ in range(n)]
    elif style < 0.6:
        p = [rng.random() ** rng.choice([1, 2, 4]) for _ in range(n)]
    else:
        base = [rng.random() for _ in range(max(1, n // 3))]
        p = [rng.choice(base + [0.0, 1.0]) for _ in range(n)]
    return _bh_case(p, "random", rng.choice(BH_HOW))


def corpus():
    # finding M: mse is the error of the deviations from zero, not their variance
    b = [["chr1", 0, 100, "G0", 1.0, 0.5], ["chr1", 100, 200, "G0", 3.0, 0.5]]
    s = [["chr1", 0, 200, "-", 0.0, 2, 1.0]]
    i = _pack(b, s, False)
    i.update({"loc": ["mean"], "spread": ["mse", "stdev"], "ci": False, "pi": False, "alpha": frac(0.05),
              "alpha_f": 0.05, "two_over_alpha": frac(2 / 0.05), "bootstraps": 100, "smoothed": False,
              "skip_low": False})
    m = {"op": "segmetrics", "tag": "corpus-M", "in": i}
    # finding W: one bin with weight 1 sitting exactly on its segment mean poisons every p-value (0/0 -> NaN)
    b = [["chr1", 0, 100, "a", 0.5, 1.0], ["chr1", 100, 200, "b", 3.0, 0.5], ["chr1", 200, 300, "c", 0.0, 0.5],
         ["chr1", 300, 400, "d", 0.0625, 0.5]]
    s = [["chr1", 0, 100, "-", 0.5, 1, 1.0], ["chr1", 100, 400, "-", 0.0, 3, 1.0]]
    i = _pack(b, s, False)
    i.update({"alpha": frac(0.05), "alpha_f": 0.05, "target_only": False})
    t = {"op": "bintest", "tag": "corpus-W", "in": i}
    # finding X: no bin inside any segment -> residuals() returned an object-dtype empty Series and z_prob raised
    b = [["chr1", 0, 100, "a", 0.5, 0.5], ["chr1", 100, 200, "b", 3.0, 0.5]]
    s = [["chr2", 0, 1000, "-", 0.0, 0, 1.0]]
    i = _pack(b, s, False)
    i.update({"alpha": frac(0.05), "alpha_f": 0.05, "target_only": False})
    x = {"op": "bintest", "tag": "corpus-X", "in": i}
    # tables without rows (with the column types of a real table: everything filtered out): no bin at all / no
    # segment at all
    out = [m, t, x]
    b = [["chr1", 0, 100, "a", 0.5, 0.5], ["chr1", 100, 200, "b", 3.0, 0.5], ["chr2", 0, 50, "c", -1.0, 0.25]]
    s = [["chr1", 0, 200, "-", 0.25, 2, 1.0], ["chr2", 0, 50, "-", -1.0, 1, 1.0]]
    for bb, ss, tag in (([], s, "no-bins"), (b, [], "no-segments")):
        i = _pack(bb, ss, False)
        i.update({"loc": list(LOC), "spread": list(SPREAD), "ci": True, "pi": True, "alpha": frac(0.25),
                  "alpha_f": 0.25, "two_over_alpha": frac(8.0), "bootstraps": 10, "smoothed": False,
                  "skip_low": tag == "no-bins"})
        out.append({"op": "segmetrics", "tag": tag, "in": i})
        if tag == "no-segments":
            # do_bintest treats an EMPTY segment table like `segments=None` (residuals() tests `if not segments`) and
            # falls back to the residuals from each chromosome's median; a segmentation without segments is outside
            # the quantifier ("segmentations of them"): see proposed_fixes/C17-bintest-empty-segments.md
            continue
        i = _pack(bb, ss, False)
        i.update({"alpha": frac(0.5), "alpha_f": 0.5, "target_only": tag == "no-bins"})
        out.append({"op": "bintest", "tag": tag, "in": i})
    return out


def smoothed_witness():
    """witness of the open finding `smoothed_ci_range` (for known_findings.json)"""
    b = [["chr1", 0, 100, "G0", 0.0, 0.125], ["chr1", 100, 200, "G0", 0.0, 0.125], ["chr1", 200, 300, "G0", 0.0625, 0.125]]
    s = [["chr1", 0, 300, "-", 0.0, 3, 1.0]]
    i = _pack(b, s, False)
    i.update({"loc": [], "spread": [], "ci": True, "pi": False, "alpha": frac(0.5), "alpha_f": 0.5,
              "two_over_alpha": frac(4.0), "bootstraps": 4, "smoothed": True, "skip_low": False})
    return {"op": "segmetrics", "tag": "finding-smoothed-ci", "in": i}


def gen_cases(rng, tier):
    n_seg, n_big, n_bt, n_bh = {"quick": (520, 16, 380, 260), "thorough": (5000, 160, 3500, 3000),
                                "search": (300, 4, 200, 200)}[tier]
    cases = []
    cases += [_segmetrics_case(rng) for _ in range(n_seg)]
    cases += [_segmetrics_case(rng, big=True) for _ in range(n_big)]
    cases += [_bintest_case(rng) for _ in range(n_bt)]
    cases += [_bintest_at_alpha(rng) for _ in range(20 if tier != "thorough" else 100)]
    if tier != "search":
        cases += _bh_exhaustive(4 if tier == "quick" else 5)
    cases += [_bh_random(rng) for _ in range(n_bh)]
    if tier != "search":
        # malformed stream
        for _ in range(6):
            c = _segmetrics_case(rng)
            bad = rng.choice([0.0, 1.0, 1.5, -0.1])
            c["in"].update({"ci": True, "smoothed": False, "alpha_f": bad, "alpha": frac(bad),
                            "two_over_alpha": frac(0), "loc": [], "spread": [], "pi": False})
            c["tag"] = "bad-alpha"
            if any(len([b for b in c["in"]["bins_f"] if b[0] == s[0] and b[2] > s[1] and b[1] < s[2]]) >= 1
                   for s in c["in"]["segs_f"]) and not c["in"]["skip_low"]:
                cases.append(c)
        for _ in range(3):
            c = _segmetrics_case(rng)
            c["in"]["loc"] = ["mean", "average"]
            c["tag"] = "bad-stat"
            cases.append(c)
    # command-line share (about 15 % of the segmetrics and of the bintest cases), drawn from a generator of its own
    # seeded after everything else so that the API cases above are the ones they were
    import random
    crng = random.Random(rng.getrandbits(64))
    n_cseg, n_cbig, n_cbt, n_cq = {"quick": (92, 2, 64, 6), "thorough": (880, 20, 600, 24),
                                   "search": (50, 1, 34, 4)}[tier]
    cases += [_segmetrics_case(crng, cli=True) for _ in range(n_cseg)]
    cases += [_segmetrics_case(crng, big=True, cli=True) for _ in range(n_cbig)]
    cases += [_bintest_case(crng, cli=True) for _ in range(n_cbt)]
    cases += [_bintest_at_alpha(crng, cli=True) for _ in range(n_cq)]
    if tier != "search":
        # _cmd_segmetrics refuses an alpha outside (0, 1] before reading anything
        for bad in (0.0, 1.5, -0.1):
            c = _segmetrics_case(crng, cli=True)
            c["in"].update({"alpha_f": bad, "alpha": frac(bad), "two_over_alpha": frac(0), "cli_implicit": []})
            c["tag"] = "cli-bad-alpha"
            cases.append(c)
    # glue of do_segmetrics / _cmd_segmetrics: result columns (pre-existing statistic columns requested again, repeated
    # names, interval statistics in any order / repeated) and the command function's decisions; own generator, seeded
    # last, so that every case above is the one it was
    grng = random.Random(crng.getrandbits(64))
    n_glue, n_cmd = {"quick": (70, 24), "thorough": (500, 64), "search": (60, 0)}[tier]
    cases += [_glue_case(grng) for _ in range(n_glue)]
    cases += [_cmd_case(grng, k) for k in range(n_cmd)]
    # round 5: bintest without segments (own generator, seeded last)
    from ._c17ext5 import gen_noseg
    cases += gen_noseg(grng, tier)
    # round 5c: segments without bins / with one bin (own generator, seeded last)
    from ._c17small5c import gen_small
    cases += gen_small(grng, tier)
    only = os.environ.get("VERIF_C17_ONLY")   # restricted run for mutation tests: only the cases of one op
    if only:
        cases = [c for c in cases if c["op"] == only]
    return cases


def shrink(case):
    import copy
    i = case["in"]
    if case["op"] == "seg_small":
        from ._c17small5c import shrink_small
        yield from shrink_small(case)
        return
    if case["op"] in ("glue", "cmd"):
        for key in ("old_cols", "loc", "spread", "interval"):
            for k in range(len(i.get(key, []))):
                j = copy.deepcopy(i)
                del j[key][k]
                if key == "old_cols":
                    j["seg_cols"] = BASE_SEG + j["old_cols"]
                yield {"op": case["op"], "tag": case.get("tag"), "in": j}
        return
    if case["op"] == "bh":
        p = i["p_f"]
        for k in range(len(p)):
            q = p[:k] + p[k + 1:]
            if q:
                yield _bh_case(q, case.get("tag"), i.get("how"))
        return

    def rebuild(bins, segs, **over):
        j = _pack(bins, segs, i.get("has_depth", False))
        for k, v in i.items():
            if k not in j and k not in ("boots", "tt", "phi"):
                j[k] = copy.deepcopy(v)
        j.update(over)
        return {"op": case["op"], "tag": case.get("tag"), "in": j}

    bins, segs = i["bins_f"], i["segs_f"]
    for k in range(len(segs)):
        if len(segs) > 1:
            yield rebuild(bins, segs[:k] + segs[k + 1:])
    step = max(1, len(bins) // 8)
    for k in range(0, len(bins), step):
        nb = bins[:k] + bins[k + step:]
        if nb:
            yield rebuild(nb, segs)
    if case["op"] == "segmetrics":
        for nm in i["loc"]:
            yield rebuild(bins, segs, loc=[nm], spread=[], ci=False, pi=False, smoothed=False)
        for nm in i["spread"]:
            yield rebuild(bins, segs, loc=[], spread=[nm], ci=False, pi=False, smoothed=False)
        if i["ci"]:
            yield rebuild(bins, segs, loc=[], spread=[], pi=False)
        if i["pi"]:
            yield rebuild(bins, segs, loc=[], spread=[], ci=False, smoothed=False)
