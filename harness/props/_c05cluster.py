"""C05, round 5 -- op `ref_cluster`: the per-cluster columns log2_i / spread_i of `reference --cluster`
(`combine_probes(do_cluster=True)` -> `create_clusters` -> `summarize_info(clust_matrix, [])`) against the model
`Ref.C05Cl.doCluster` (Model/ReferenceExt5Cluster.lean).  The k-means MEMBERSHIP is a parameter of the model: it is
observed from the real run (a spy around `cnvlib.cluster.kmeans`, which `create_clusters` looks up at call time) and
handed to the model; everything after it -- pseudo-sample dropped, rows in file-name order, target and antitarget
values side by side, numbering from 1, the minimum-size skip, the biweight summaries over exactly the member rows,
the cells travelling with their bins through the final sort -- is compared exactly (1e-7 relative, the knife-edge rule
of the pooled columns for the MAD fall-back of the midvariance)."""
from __future__ import annotations

import contextlib
import math
from fractions import Fraction

from ..core import frac


class KmeansSpy:
    """records what `cnvlib.cluster.kmeans` returns (lists of row numbers of the sample matrix)"""

    def __init__(self):
        self.calls = []

    @contextlib.contextmanager
    def wrap(self, inner):
        import cnvlib.cluster as _cl
        orig = _cl.kmeans

        def spy(*a, **k):
            res = [[int(x) for x in c] for c in orig(*a, **k)]
            self.calls.append(res)
            return res
        _cl.kmeans = spy
        try:
            with inner:
                yield
        finally:
            _cl.kmeans = orig


def collect(ref, spy):
    """the cluster columns of the real reference table, row by row (in the table's final order)"""
    def cell(x):
        x = float(x)
        return "nan" if (x != x or math.isinf(x)) else frac(x)
    labels = sorted({int(c.split("_", 1)[1]) for c in ref.data.columns if c.startswith("log2_") or c.startswith("spread_")})
    cols = {}
    for lb in labels:
        cols[str(lb)] = {"log2": [cell(v) for v in ref.data["log2_%d" % lb].values] if "log2_%d" % lb in ref.data.columns else None,
                         "spread": [cell(v) for v in ref.data["spread_%d" % lb].values] if "spread_%d" % lb in ref.data.columns else None}
    bins = [[str(r.chromosome), int(r.start), int(r.end), str(r.gene)] for r in ref.data.itertuples()]
    return {"n_calls": len(spy.calls), "members": spy.calls[0] if spy.calls else [], "cols": cols, "bins": bins}


def to_line(case, impl, par):
    i = case["in"]
    if isinstance(impl, dict) and "__error__" in impl:
        return {"op": "gc_rmask", "in": {"seq": ""}}      # nothing to model: judged as `raises_*`
    cf = impl["cluster_full"]
    line = {"op": "ref_cluster",
            "in": {"hapX": i["hapX"], "par": par, "targets": [{"name": n, "rows": rows} for n, rows in impl["t"].items()],
                   "sex_inputs": impl["sex_inputs"], "members": cf["members"], "min_size": i["cluster"]}}
    if i["with_anti"]:
        line["in"]["antitargets"] = [{"name": n, "rows": rows} for n, rows in impl["a"].items()]
    return line


def _close(a, b, tol=1e-7):
    a, b = float(Fraction(a)), float(Fraction(b))
    return abs(a - b) <= tol * max(1.0, abs(b))


def judge(case, impl, resp):
    if isinstance(impl, dict) and "__error__" in impl:
        return ["raises_" + impl["__error__"]], [], None
    if "error" in resp:
        return [], ["model error: " + resp["error"]], None
    out = resp["out"]
    if isinstance(out, dict) and "error_kind" in out:
        return ["reject_differing_bins"], [], None
    i = case["in"]
    cf = impl["cluster_full"]
    spec, dis, knife = [], [], None
    k = len(impl["t"])
    flat = sorted(x for c in cf["members"] for x in c)
    if cf["n_calls"] != 1 or flat != list(range(k)):
        dis.append(f"k-means was called {cf['n_calls']} times / its clusters {cf['members']} do not partition the {k} samples")
        return spec, dis, None
    want = {str(c[0]): c[1] for c in out["cols"]}
    # which columns there are (theorem cluster_columns_numbering_and_minimum_size)
    expect_labels = {str(n + 1) for n, c in enumerate(cf["members"]) if len(c) >= i["cluster"]}
    if set(want) != expect_labels:
        dis.append(f"model labels {sorted(want)} vs the rule {sorted(expect_labels)}")
    got = cf["cols"]
    if set(got) != set(want) or any(v["log2"] is None or v["spread"] is None for v in got.values()):
        spec.append("cluster_columns_numbering_and_minimum_size")
        dis.append(f"cluster columns: model {sorted(want)} impl {sorted(got)}")
        return spec, dis, None
    pos = {}
    for n, b in enumerate(out["bins"]):
        pos.setdefault(tuple(b), []).append(n)
    if any(len(v) != 1 for v in pos.values()) or sorted(map(tuple, cf["bins"])) != sorted(pos):
        spec.append("reference_has_exactly_the_bins")
        dis.append("the bins of the clustered reference are not those of the coverage files")
        return spec, dis, None
    for lb in sorted(want, key=int):
        cells = want[lb]
        for row, b in enumerate(cf["bins"]):
            m = cells[pos[tuple(b)][0]]
            l2, sp = got[lb]["log2"][row], got[lb]["spread"][row]
            if l2 == "nan" or not _close(l2, m[0]):
                dis.append(f"cluster {lb} bin {b}: log2 model {float(Fraction(m[0]))} impl {l2 if l2 == 'nan' else float(Fraction(l2))}")
                spec.append("cluster_log2_is_biweight_location_of_member_samples")
                return spec, dis, None
            kind = m[1][0]
            if kind == "undefined":
                ok = sp == "nan"
            elif sp == "nan":
                ok = False
            elif kind == "direct":
                ok = _close(sp, m[1][1], 1e-6)
                if not ok and Fraction(m[1][1]) != 0:
                    knife = "biweight midvariance MAD fallback on exactly symmetric data"
                    ok = True
            else:
                s = float(Fraction(sp))
                ok = abs(s * s - float(Fraction(m[1][1]))) <= 1e-6 * max(1.0, s * s)
            if not ok:
                dis.append(f"cluster {lb} bin {b}: spread model {m[1]} impl {sp}")
                spec.append("cluster_spread_is_biweight_midvariance_of_member_samples")
                return spec, dis, None
    return spec, dis, knife


def nontrivial(case, impl, resp):
    """at least one cluster column was written and compared"""
    return (isinstance(impl, dict) and "cluster_full" in impl and bool(impl["cluster_full"]["cols"])
            and len(impl["t"]) >= 3)


def gen(r5, cohort, n):
    """`n` cohorts for `reference --cluster` (API call, corrections off): 3..8 samples (from 6 samples on k-means
    forms two clusters), min_cluster_size 1 / 2 / 3, every cell of the ordinary cohort generator (sex mixes, given /
    inferred sexes, with / without / empty antitargets, X only among the antitargets, PAR genomes, conflicts)"""
    cases = []
    for j in range(n):
        lo = 6 if j % 2 == 0 else 3
        for _ in range(200):
            c = cohort(r5, ideal=(j % 5 == 4))
            if lo <= c["in"]["k"] <= 8:
                break
        else:
            continue
        c["op"] = "ref_cluster"
        c["tag"] = "cluster-" + c["tag"]
        c["in"]["cluster"] = r5.choice([1, 2, 2, 3])
        cases.append(c)
    return cases
