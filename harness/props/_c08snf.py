"""C08, round 5c: the sniff patterns `format_patterns['text']` / `['bed']` (hooked into C08.py like _c08lab).

  sniff_re : lines (text lines written by the real `rangelabel.to_label`, BED lines written by the real
             `tabio.write(..., 'bed' / 'bed3' / 'bed4')`, near misses of both, lines of the other formats, random strings over
             the alphabet of the patterns) -> `format_patterns[k].match(line) is not None` of the real code, k = text, bed,
             against the pattern ASTs regenerated from the source text (Generated/RegexSniff.lean) under the
             backtracking semantics of Model/FormatsExt5Label.lean.
             A line the text writer wrote (word-character name) must be matched by the `text` pattern, a line a BED writer
             wrote (name without white space) by the `bed` pattern: clause `sniff_finds_written_format`
             (theorems sniff_text_matches_written / sniff_bed_matches_written of Props/C08Sniff.lean).
"""
from __future__ import annotations

import io

EXT_OPS = ("sniff_re",)

WCHROMS = ["chr1", "X", "chr17_ctg5_hap1", "1", "chrUn_gl000211", "MT", "_x", "9", "HLA_A"]
SCHROMS = WCHROMS + ["GL000207.1", "a.b", "HLA-A*01", "chr1:2", "c|d", "#c", "@x"]
ALPHA = "chr1X._:- \t\t09ab:-\n+"


def _num(rng):
    return rng.choice([0, 1, 9, 10, 99, 100, rng.randint(0, 3 * 10 ** 8), 3 * 10 ** 8])


def _written_text(rng):
    from skgenome.rangelabel import to_label, Region
    s = _num(rng)
    return to_label(Region(rng.choice(WCHROMS), s, s + 1 + _num(rng))) + "\n"


def _written_bed(rng):
    import pandas as pd
    from skgenome import tabio
    from skgenome.gary import GenomicArray as GA
    s = _num(rng)
    cols = {"chromosome": [rng.choice(SCHROMS)], "start": [s], "end": [s + 1 + _num(rng)]}
    fmt = rng.choice(["bed", "bed3", "bed4"])
    if rng.random() < 0.6:
        cols["gene"] = [rng.choice(["BRCA1", "-", "A,B", "g 1"])]
    if fmt == "bed" and rng.random() < 0.4:
        cols["weight"] = [0.5]
    buf = io.StringIO()
    tabio.write(GA(pd.DataFrame(cols)), buf, fmt, verbose=False)
    return buf.getvalue().splitlines(keepends=True)[0]


def _line(rng):
    """(line, kind): kind = 'text' / 'bed' for a line a real writer wrote, None otherwise"""
    k = rng.random()
    if k < 0.25:
        return _written_text(rng), "text"
    if k < 0.5:
        return _written_bed(rng), "bed"
    if k < 0.8:   # near miss of a written line
        t = _written_text(rng) if rng.random() < 0.5 else _written_bed(rng)
        pos = rng.randrange(len(t))
        m = rng.random()
        ch = rng.choice(" :;-._\tx0,/\n")
        t = t[:pos] + ch + t[pos + 1:] if m < 0.4 else (t[:pos] + ch + t[pos:] if m < 0.7 else t[:pos] + t[pos + 1:])
        return t, None
    if k < 0.97:
        return "".join(rng.choice(ALPHA) for _ in range(rng.randint(0, 14))), None
    return rng.choice(["chré:1-2\n", "chr1\t١\t٢\n", "é\t1\t2\n"]), None   # outside: non-ASCII


def snf_case(rng, n=40, tag="sniffre"):
    ls = [_line(rng) for _ in range(n)]
    return {"op": "sniff_re", "tag": tag, "in": {"lines": [l for l, _ in ls], "kinds": [k for _, k in ls]}}


CORPUS = [("chr1:11-20\n", "text"), ("chr1\t10\t20\n", "bed"), ("chr1\t10\t20\tg\t0.5\n", "bed"), ("GL000207.1\t0\t5\n", "bed"),
          ("X:1-1", "text"), ("chr1:-\n", None), ("chr1:-", None), (":1-2", None), ("a.b:1-2", None), ("chr1:1_2", None),
          ("chr1\t10\n", None), ("chr1\t10\t\n", None), ("chr1\t10\tx", None), ("chr 1\t10\t20", None), ("\t10\t20", None),
          ("chr1\t10 \t20", None), ("chr1\t\t10\t20", None), ("", None), ("\n", None), ("chr1:1-2\nx", None), ("c:1-2\t3\t4", None),
          ("chr1\t1\t2:3-4", None), ("a b:1-2", None), ("chromosome\tstart\tend", None), ("x\t1\t2\t+\tn", None)]


def corpus():
    return [{"op": "sniff_re", "tag": "corpus-sniffre", "in": {"lines": [l for l, _ in CORPUS], "kinds": [k for _, k in CORPUS]}}]


def gen_cases(rng, tier):
    n = {"quick": 1, "thorough": 5, "search": 2}[tier]
    return [snf_case(rng) for _ in range(20 * n)]


def run_impl(case):
    from skgenome.tabio import format_patterns
    return {"text": [format_patterns["text"].match(t) is not None for t in case["in"]["lines"]],
            "bed": [format_patterns["bed"].match(t) is not None for t in case["in"]["lines"]]}


def to_line(case, impl, is_err):
    return {"op": "sniff_re", "in": {"lines": case["in"]["lines"]}}


def judge(case, impl, resp, is_err):
    if "error" in resp and "out" not in resp:
        return [], ["driver error: " + resp["error"]], None
    if is_err(impl):
        return ["raises_" + impl["__error__"]], [], None
    spec, dis = [], []
    i = case["in"]
    for t, kind, o, mt, mb in zip(i["lines"], i["kinds"], resp["out"], impl["text"], impl["bed"]):
        if o["outside"]:
            continue
        if o["text"] != mt:
            dis.append(f"format_patterns['text'].match({t!r}): regenerated pattern {o['text']} code {mt}")
        elif o["bed"] != mb:
            dis.append(f"format_patterns['bed'].match({t!r}): regenerated pattern {o['bed']} code {mb}")
        if (kind == "text" and not mt) or (kind == "bed" and not mb):
            spec.append("sniff_finds_written_format")
        if dis:
            break
    return sorted(set(spec)), dis[:1], None


def nontrivial(case, impl, resp):
    if not (isinstance(impl, dict) and "text" in impl):
        return False
    return any(impl["text"]) and any(impl["bed"]) and any(not a and not b for a, b in zip(impl["text"], impl["bed"]))


def shrink(case):
    ls, ks = case["in"]["lines"], case["in"]["kinds"]
    if len(ls) > 1:
        for k in range(len(ls)):
            yield {"op": "sniff_re", "tag": "shrunk", "in": {"lines": [ls[k]], "kinds": [ks[k]]}}
