"""C14, round 5: every column of the merged row (ops `squash_region_x`, `cn_filter_x`; Model/SegFilterExt5.lean).

Rows are [chrom, start, end, gene, log2, probes, weight, depth, baf, cn, cn1, p_bintest]; `cols` lists which of
probes / depth / baf / cn / cn1 / p_bintest the table carries (cn1 only next to cn; cn2 = cn - cn1 then).
`squash_region_x`: segfilters.squash_region on one run directly (gene names repeating inside the run, zero total weight,
no probes column, p_bintest ties, unequal depth / baf).  `cn_filter_x`: segfilters.cn on a whole table carrying the
extra columns -- each maximal run (the proved wording) squashed with every column."""
from __future__ import annotations

import math
import random
from fractions import Fraction

from ..core import frac

OPS = ("squash_region_x", "cn_filter_x")
OPTIONAL = ("probes", "depth", "baf", "cn", "cn1", "p_bintest")
GENES = ["A", "B", "A", "C,D", "-", "TP53", "B"]


def _cols(rng, need_cn=False):
    cols = []
    if rng.random() < 0.8:
        cols.append("probes")
    for c in ("depth", "baf", "p_bintest"):
        if rng.random() < 0.6:
            cols.append(c)
    if need_cn or rng.random() < 0.6:
        cols.append("cn")
        if rng.random() < 0.4:
            cols.append("cn1")
    rng.shuffle(cols)
    return cols


def _row(rng, chrom, pos, cn, zero_w):
    ln = rng.randint(1, 10 ** 5)
    w = 0.0 if zero_w else rng.choice([0.0, 1.0, 0.5, 2.0, rng.uniform(0.1, 50), float(rng.randint(1, 300))])
    lg = rng.choice([rng.uniform(-3, 0.69), float(rng.randint(-4, 0)), round(rng.uniform(-2, 0.6), 2)])
    depth = rng.choice([round(rng.uniform(0, 500), 3), float(rng.randint(0, 200)), 100.0])
    baf = rng.choice([0.5, round(rng.uniform(0, 1), 3), rng.uniform(0, 1)])
    pb = rng.choice([1.0, 1e-9, 0.05, rng.uniform(0, 1)])
    cn1 = rng.randint(0, cn)
    return [chrom, pos, pos + ln, rng.choice(GENES), frac(lg), rng.randint(1, 400), frac(w), frac(depth), frac(baf),
            frac(cn), frac(cn1), frac(pb)]


def gen(rng, tier):
    n1, n2 = {"quick": (60, 40), "thorough": (500, 300), "search": (100, 60)}[tier]
    cases = []
    for _ in range(n1):
        cols = _cols(rng)
        zero_w = rng.random() < 0.15
        cn = rng.choice([0, 1, 2, 3, 5])
        rows, pos = [], rng.randint(0, 10 ** 5)
        for _k in range(rng.randint(1, 7)):
            pos += rng.choice([0, rng.randint(1, 10 ** 4)])
            r = _row(rng, "chr3", pos, cn, zero_w)
            rows.append(r)
            pos = r[2]
        if "cn1" in cols:
            c1 = rows[0][10]
            for r in rows:
                r[10] = c1
        cases.append({"op": "squash_region_x", "tag": "squash:" + "+".join(sorted(cols)) + (":w0" if zero_w else ""),
                      "in": {"cols": cols, "rows": rows}})
    for _ in range(n2):
        cols = _cols(rng, need_cn=True)
        rows = []
        for chrom in rng.sample(["chr1", "chr2", "chr7", "chrX", "chr10"], rng.randint(1, 3)):
            pos = rng.randint(0, 10 ** 5)
            n = rng.randint(1, 9)
            cns = []
            while len(cns) < n:
                cns += [rng.choice([0, 1, 2, 2, 3, 5, 6])] * rng.randint(1, 4)
            prev = None
            for k in range(n):
                pos += rng.choice([0, 0, rng.randint(1, 10 ** 4)])
                r = _row(rng, chrom, pos, cns[k], False)
                if prev is not None and prev[9] == r[9] and rng.random() < 0.8:
                    r[10] = prev[10]   # same allele-specific call: the run goes on
                rows.append(r)
                prev = r
                pos = r[2]
        cases.append({"op": "cn_filter_x", "tag": "cnx:" + "+".join(sorted(cols)), "in": {"cols": cols, "rows": rows}})
    return cases


def corpus():
    r = lambda s, e, g, w, d, pb: ["chr1", s, e, g, "0", 3, w, d, "1/2", "2", "1", pb]
    return [
        # repeated gene name, unequal weights and depths, p_bintest maximum in the middle
        {"op": "squash_region_x", "tag": "corpus-squash-all-columns",
         "in": {"cols": ["probes", "depth", "baf", "cn", "cn1", "p_bintest"],
                "rows": [r(0, 10, "A", "1", "10", "1/100"), r(20, 30, "B", "3", "40", "1/2"), r(30, 45, "A", "0", "7", "1/10")]}},
        {"op": "squash_region_x", "tag": "corpus-squash-no-weight-no-probes",
         "in": {"cols": ["depth"], "rows": [r(0, 10, "A", "0", "10", "1"), r(20, 30, "A", "0", "40", "1")]}},
    ]


def _table(i):
    import pandas as pd
    from cnvlib.cnary import CopyNumArray as CNA
    cols, rows = i["cols"], i["rows"]
    f = lambda v: float(Fraction(v))
    d = {"chromosome": [r[0] for r in rows], "start": [r[1] for r in rows], "end": [r[2] for r in rows],
         "gene": [r[3] for r in rows], "log2": [f(r[4]) for r in rows]}
    d["weight"] = [f(r[6]) for r in rows]
    for c in cols:
        if c == "probes":
            d[c] = [r[5] for r in rows]
        elif c == "cn1":
            d["cn1"] = [int(Fraction(r[10])) for r in rows]
            d["cn2"] = [int(Fraction(r[9])) - int(Fraction(r[10])) for r in rows]
        elif c == "cn":
            d[c] = [int(Fraction(r[9])) for r in rows]
        else:
            d[c] = [f(r[{"depth": 7, "baf": 8, "p_bintest": 11}[c]]) for r in rows]
    return CNA(pd.DataFrame(d), {"sample_id": "S"})


def _cells(df, k):
    out = []
    for c in df.columns:
        v = df[c].iat[k]
        if c in ("chromosome", "gene"):
            out.append([c, str(v)])
        else:
            v = float(v)
            if math.isnan(v):
                raise AssertionError(f"NaN in merged column {c}")
            out.append([c, frac(v)])
    return out


def run(case):
    from cnvlib import segfilters
    arr = _table(case["in"])
    if case["op"] == "squash_region_x":
        return _cells(segfilters.squash_region(arr), 0)
    out = segfilters.cn(arr).data
    return [_cells(out, k) for k in range(len(out))]


def _cmp_row(m, im, where):
    if [c for c, _ in m] != [c for c, _ in im]:
        return [f"{where}: columns model {[c for c, _ in m]} impl {[c for c, _ in im]}"]
    for (c, a), (_c, b) in zip(m, im):
        if c in ("chromosome", "gene"):
            if a != b:
                return [f"{where}: {c} model {a!r} impl {b!r}"]
        else:
            a, b = Fraction(a), Fraction(b)
            if abs(a - b) > Fraction(1, 10 ** 9) * max(1, abs(a)):
                return [f"{where}: {c} model {float(a)!r} impl {float(b)!r}"]
    return []


def judge(case, impl, resp):
    if isinstance(impl, dict) and "__error__" in impl:
        return ["raises_" + impl["__error__"]], [], None
    if "error" in resp:
        return [], ["model error: " + resp["error"]], None
    spec = list(resp.get("spec") or [])
    out = resp["out"]
    if case["op"] == "squash_region_x":
        return spec, _cmp_row(out, impl, "merged row"), None
    if len(out) != len(impl):
        return spec, [f"row count model {len(out)} impl {len(impl)}"], None
    for k, (m, im) in enumerate(zip(out, impl)):
        d = _cmp_row(m, im, f"row {k}")
        if d:
            return spec, d, None
    return spec, [], None


def nontrivial(case, impl, resp):
    rows = case["in"]["rows"]
    if case["op"] == "squash_region_x":
        return len(rows) >= 2
    return isinstance(impl, list) and len(impl) < len(rows)
