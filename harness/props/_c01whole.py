"""op `do_call_whole` (C01 / C02, growth round 5): cnvlib/call.py:do_call entered with ANY `method` string, a `filters`
list, `variants`, a `baf` column -- every branch of its body.  The segment filters (`segfilters.ci/sem/cn/ampdel/bic`,
C16's subject) are replaced for the duration of the call by identities that record their name and whether the `cn` column
already exists; what is compared with the model `c01wDoCall` (Model/CallExt5.lean) is which filters ran, in which order,
before or after the calling, that the caller's list is untouched, the ValueError on an unknown method, and the called rows."""
from __future__ import annotations

from ..core import frac
from . import _call as K

FILTER_NAMES = ["ampdel", "bic", "ci", "cn", "sem"]
FILTER_LISTS = [None, [], ["ci"], ["sem"], ["cn"], ["ci", "sem"], ["sem", "ci"], ["ampdel", "ci", "cn"], ["cn", "sem", "bic"],
                ["ci", "ci"], ["sem", "cn", "sem", "ci"], ["bic", "ampdel"], ["ci", "cn", "ci", "sem", "sem"]]
BAD_METHODS = ["Threshold", "", "hmm", "clonal ", "NONE", "thresholds"]


def whole_case(rng, k):
    """one cell of the round over method x purity path x BAF source x filters"""
    from . import C02
    base = k % 4
    if base == 0:
        c = C02._table(rng, rng.choice([1, 3, 12, 30]))          # threshold, no purity, baf column or not
    elif base == 1:
        c = C02._ptable(rng, rng.choice([3, 12, 30]))            # threshold after purity rescaling
    elif base == 2:
        c = C02._vtable(rng, rng.choice([2, 10, 24]))            # clonal, purity, variants
    else:
        c = C02._vtable(rng, rng.choice([2, 10, 24]))            # variants WITHOUT a purity (None / 1.0)
        c["in"]["purity_f"] = rng.choice([None, 1.0])
        c["in"]["purity"] = None if c["in"]["purity_f"] is None else frac(1.0)
    i = c["in"]
    if i.get("variants") and not i["snps_f"]:
        r0 = i["rows"][0]
        i["snps_f"] = [[r0[0], r0[1], 0.75]]     # an empty VariantArray is falsy: the branch would not be entered
    i["thr_pow2"] = [frac(2.0 ** t) for t in i["thr_f"]]
    has_nan = any(v is None for v in i["log2_f"])
    m = (k // 4) % 4
    if m == 1 and not has_nan:
        i["method"] = "clonal"
    elif m == 2:
        i["method"] = "none"
    elif m == 3 and not has_nan:
        i["method"] = "threshold"
    if k % 9 == 8:
        i["method"] = rng.choice(BAD_METHODS)
    i["check_monotone"] = False
    f = FILTER_LISTS[(k // 2) % len(FILTER_LISTS)] if k % 3 else rng.choice(FILTER_LISTS)
    i["filters_f"] = None if f is None else list(f)
    i["filters"] = list(f or [])
    if rng.random() < 0.25:
        i["dupidx"] = True          # index labels repeat: the second loop resets the index before each filter
    i["n"] = None
    i.pop("n", None)
    c["op"] = "do_call_whole"
    c["tag"] = "whole-" + c.get("tag", "") + "-" + (i["method"] if i["method"] in ("threshold", "clonal", "none") else "badmethod") \
        + ("-filters" if f else "")
    return c


def run_whole(case):
    import numpy as np
    from cnvlib import call, segfilters
    i = case["in"]
    cna = K.build_cna(i)
    purity = K._purity_arg(i)
    va, bafs = None, None
    if i.get("variants"):
        from cnvlib.vary import VariantArray
        va = VariantArray.from_rows([(c, p, p + 1, "A", "G", f) for c, p, f in i["snps_f"]],
                                    columns=["chromosome", "start", "end", "ref", "alt", "alt_freq"],
                                    meta_dict={"sample_id": "S"})
        va.sort()
        bafs = [None if b != b else float(b) for b in np.asarray(va.baf_by_ranges(cna), dtype=float)]
    log = []
    saved = {n: getattr(segfilters, n) for n in FILTER_NAMES}

    def mk(n):
        def f(arr):
            log.append((n, "cn" in arr.data.columns))
            return arr
        return f
    given = i["filters_f"]
    passed = None if given is None else list(given)
    try:
        for n in FILTER_NAMES:
            setattr(segfilters, n, mk(n))
        try:
            out = call.do_call(cna, va, i["method"], i["ploidy"], purity, i["hapX"], i["female"], i.get("par_f", i["par"]),
                               passed, tuple(i["thr_f"]))
        except ValueError:
            return {"whole_error": "ValueError"}
    finally:
        for n, f in saved.items():
            setattr(segfilters, n, f)
    cols = list(out.data.columns)
    res = {"out": K._rows_out(out.data, purity), "seq": [n for n, _c in log], "kept": passed == given,
           "input_untouched": "cn" not in cna.data.columns,
           "pre": None, "post": None}
    if i["method"] != "none":
        res["pre"] = [n for n, c in log if not c]
        res["post"] = [n for n, c in log if c]
    if bafs is not None:
        res["var_baf"] = bafs
    res["cols_head"] = cols[:3]
    return res


def to_line(case, impl):
    i = case["in"]
    if isinstance(impl, dict) and "whole_error" in impl:
        line = K.to_line(case, {"__error__": "x"})
        line["impl"] = {"error": impl["whole_error"]}
    elif isinstance(impl, dict) and "out" in impl:
        inner = {"var_baf": impl["var_baf"], "out": impl["out"]} if "var_baf" in impl else impl["out"]
        line = K.to_line(case, inner)
        line["impl"] = {"rows": line["impl"], "seq": impl["seq"], "pre": impl["pre"], "post": impl["post"]}
    else:
        line = K.to_line(case, impl)
    if i.get("variants") and not (isinstance(impl, dict) and "var_baf" in impl):
        line["in"]["has_baf"] = True
    line["op"] = "do_call_whole"
    return line


WHOLE_CLAUSES = {"whole_filter_sequence", "whole_filters_before_calling", "whole_filters_after_calling"}


def judge(case, impl, resp, judge_rows):
    i = case["in"]
    if isinstance(impl, dict) and "__error__" in impl:
        return ["raises_" + impl["__error__"]], [], None
    if "error" in resp and "refused" not in resp:
        return [], ["model error: " + str(resp["error"])], None
    if resp.get("refused") != resp.get("impl_refused"):
        return [], [f"method check: model refuses {resp.get('refused')}, do_call raises {resp.get('impl_refused')} "
                    f"(method {i['method']!r})"], None
    if resp.get("refused"):
        return [], [], None
    inner = {"var_baf": impl["var_baf"], "out": impl["out"]} if "var_baf" in impl else impl["out"]
    spec, dis, sk = judge_rows(case, inner, resp)
    spec = spec + [c for c in (resp.get("spec") or []) if c in WHOLE_CLAUSES and c not in spec]
    if not impl.get("kept", True):
        dis.append("the caller's `filters` list was modified")
    if not impl.get("input_untouched", True):
        dis.append("the input table got a cn column")
    if impl.get("cols_head") != ["chromosome", "start", "end"]:
        dis.append("columns not sorted: " + repr(impl.get("cols_head")))
    return spec, dis, (sk if not dis and not spec else None)


# ---- op `call_wrappers`: absolute_reference / absolute_expect / log2_ratios called directly ---------------------------------
WRAP_CLAUSES = {"wrapper_reference_column", "wrapper_expect_column", "wrapper_log2_ratios"}


def wrappers_case(rng, table):
    """`table` = a C01 case (rows of every chromosome class, any genome option); the absolutes handed to log2_ratios are
    arbitrary doubles (incl. 0, tiny, negative: the floor `min_abs_val` applies), not the ones do_call would compute"""
    i = table["in"]
    i["abs_f"] = [rng.choice([0.0, 1.0, 2.0, 3.0, 0.5, 1e-4, 2e-3, -1.0, float(rng.randint(0, 12)), rng.uniform(0, 9)])
                  for _ in i["rows"]]
    i["abs"] = [frac(a) for a in i["abs_f"]]
    i.pop("entry", None)
    table["op"] = "call_wrappers"
    table["tag"] = "wrappers"
    return table


def run_wrappers(case):
    import numpy as np
    import pandas as pd
    from cnvlib import call
    i = case["in"]
    cna = K.build_cna(i)
    par = i.get("par_f", i["par"])
    ref = call.absolute_reference(cna, i["ploidy"], par, i["hapX"])
    exp = call.absolute_expect(cna, i["ploidy"], par, i["female"])
    lg = call.log2_ratios(cna, pd.Series(i["abs_f"], index=cna.data.index, dtype=float), i["ploidy"], i["hapX"], par)
    return {"reference": [int(v) for v in ref], "expect": [int(v) for v in exp],
            "ratios": [frac(2.0 ** float(v)) for v in np.asarray(lg, dtype=float)]}


def wrappers_to_line(case, impl):
    line = K.to_line(case, {"__error__": "x"})
    line["op"] = "call_wrappers"
    if not (isinstance(impl, dict) and "__error__" in impl):
        line["impl"] = impl
    return line


def wrappers_judge(case, impl, resp):
    if isinstance(impl, dict) and "__error__" in impl:
        return ["raises_" + impl["__error__"]], [], None
    if "error" in resp:
        return [], ["model error: " + str(resp["error"])], None
    spec = [c for c in (resp.get("spec") or []) if c in WRAP_CLAUSES]
    return spec, [], None
