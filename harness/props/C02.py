"""C02 -- threshold calls are a monotone step function of log2; cn1 + cn2 = cn."""
from __future__ import annotations

import math
from fractions import Fraction

from ..core import frac
from . import _call as K

LEVEL = "proof"
RULE = ("tables of ~60 rows per do_call(method=threshold): log2 = every threshold, its two float neighbours "
        "(nextafter), every integer crossing of r*2^log2 and its neighbours, random reals, NaN; threshold vectors: "
        "the defaults and random strictly increasing vectors of length 1..12; ploidy 1..6 x {autosome, X, Y} x hapX "
        "x naming style (incl. upper/lower case, and autosome-class rows named chrM / MT / contigs / alternate haplotypes); BAF grid {0, 1/4, 1/2, 3/4, 1, random, missing}; plus clonal calls at purity "
        "0.2..0.99 with the BAFs supplied as variants (0..3 SNPs per segment, frequencies incl. 0, 0.01, 0.99, 1), where "
        "the purity rescale pushes BAF outside [0,1]; plus threshold calls at purity 0.2..0.99 (the scan then reads the rescaled log2; a "
        "third of the rows aimed 1e-6 / 1e-3 either side of a threshold in rescaled space). "
        "non-trivial = table holds a log2 exactly at a threshold or within one ulp of it, or above the last threshold; "
        "distinct by hash")
EXHAUSTIVE = {"quick": False, "thorough": False}
ASSUMPTIONS = ["thresholds strictly increasing, length >= 1; on the purity path the threshold scan re-reads the float log2 the "
               "rescaling wrote: the model compares the rescaled ratio with the antilogs 2**thr (exact doubles, a parameter), "
               "rows within 1e-8 (relative) of a threshold antilog are knife-edges",
               "ceil(r*2^log2) within 1e-9 of an integer is a knife-edge (skipped for model equality)"]
TRUSTED_EXTRA = ["numpy ceil/round, float pow"]
CLAUSES = {"rowcount_preserved", "nan_gives_reference", "threshold_step", "monotone_in_log2", "allelic_sum",
           "allelic_missing_iff", "cn2_at_zero"}

run_impl = K.run_impl
to_line = K.to_line
shrink = K.shrink
_judge = K.judge_with(CLAUSES)


def judge(case, impl, resp):
    spec, dis, sk = _judge(case, impl, resp)
    i = case["in"]
    # "is 2 at log2 0 on a diploid autosome" (default thresholds)
    if not (isinstance(impl, dict) and "__error__" in impl) and i.get("check_monotone") and i["ploidy"] == 2:
        for r, lg, im in zip(i["rows"], i["log2_f"], impl):
            if lg == 0.0 and r[0].lower().replace("chr", "") not in ("x", "y") and im[0] != 2:
                spec = spec + ["cn2_at_zero"]
                break
    return spec, dis, sk


def classify_ploidy1_default_thresholds(case, impl, resp):
    """finding B: with ploidy 1 the default thresholds call 3 just below 0.7 and ceil(1*2^v) = 2 just above"""
    return case["in"]["ploidy"] == 1 and case["in"].get("check_monotone", False)


def _thr(rng):
    if rng.random() < 0.45:
        return list(K.DEFAULT_THR)
    n = rng.randint(1, 12)
    vals = set()
    while len(vals) < n:
        vals.add(rng.choice([round(rng.uniform(-3, 3), rng.choice([1, 2, 6])), float(rng.randint(-3, 3)),
                             rng.uniform(-3, 3)]))
    return sorted(vals)


def _table(rng, nrows=60):
    ploidy = rng.randint(1, 6)
    hapx = rng.random() < 0.5
    style = rng.choice(["chr", "plain"])
    thr = _thr(rng)
    has_baf = rng.random() < 0.5
    rows, log2s = [], []
    pre = "chr" if style == "chr" else ""
    names = [pre + str(rng.randint(1, 22)), pre + "X", pre + "Y"]
    if rng.random() < 0.15:
        names += [n.upper() if rng.random() < 0.5 else n.lower() for n in names[1:]]
    for k in range(nrows):
        c = rng.choice(names) if k else names[0]
        cl = c.lower()
        r = ploidy // 2 if (cl in ("chry", "y") or (hapx and cl in ("chrx", "x"))) else ploidy
        kind = rng.random()
        if kind < 0.3:
            t = rng.choice(thr)
            lg = rng.choice([t, math.nextafter(t, -math.inf), math.nextafter(t, math.inf)])
        elif kind < 0.5 and r > 0:
            k2 = rng.randint(1, 4 * r + 4)
            base = math.log2(k2 / r)
            lg = rng.choice([base, math.nextafter(base, -math.inf), math.nextafter(base, math.inf),
                             base - 1e-7, base + 1e-7])
        elif kind < 0.55:
            lg = None
        elif kind < 0.6:
            lg = 0.0
        elif kind < 0.8:
            lg = rng.uniform(-4, 4)
        else:
            lg = rng.uniform(thr[-1], thr[-1] + 3)
        baf = None
        if has_baf:
            b = rng.random()
            baf = (None if b < 0.2 else rng.choice([0.0, 0.25, 0.5, 0.75, 1.0]) if b < 0.6 else rng.random())
        s = rng.randint(0, 10 ** 8)
        rows.append([c, s, s + rng.randint(1, 10 ** 6), None if lg is None else frac(lg),
                     frac(0) if lg is None else frac(2.0 ** lg), None if baf is None else frac(baf)])
        log2s.append(lg)
    is_default = tuple(thr) == K.DEFAULT_THR
    return {"op": "call", "tag": "thr-default" if is_default else f"thr-{len(thr)}",
            "in": {"rows": rows, "log2_f": log2s, "method": "threshold", "ploidy": ploidy, "purity": None,
                   "purity_f": None, "hapX": hapx, "female": rng.random() < 0.5, "par": None,
                   "thr": [frac(t) for t in thr], "thr_f": thr, "has_baf": has_baf, "check_monotone": is_default}}


def _ptable(rng, nrows=40):
    """threshold call at a purity < 1: the scan reads the log2 that the purity rescaling just rewrote.  A third of
    the rows are placed so that the RESCALED ratio lands just below / above a threshold (relative offset 1e-6)."""
    c = _table(rng, nrows)
    i = c["in"]
    purity = rng.choice([0.3, 0.5, 0.6, 0.75, 0.9, round(rng.uniform(0.2, 0.99), 2)])
    ploidy, hapx, female, thr = i["ploidy"], i["hapX"], i["female"], i["thr_f"]
    rows, log2s = [], []
    for r, lg in zip(i["rows"], i["log2_f"]):
        if lg is None:
            continue  # a missing log2 has no rescaled value
        cl = r[0].lower().replace("chr", "")
        cls = "x" if cl == "x" else "y" if cl == "y" else "auto"
        rr, xx = K.prose_copies(cls, ploidy, hapx, female)
        if rng.random() < 0.35 and rr > 0:
            # aim at a threshold in rescaled space: ratio' = 2^thr (halved where log2_ratios adds 1)
            th = rng.choice(thr)
            f = 2.0 if (cls == "y" or (cls == "x" and hapx)) else 1.0
            a = ploidy * (2.0 ** th) / f * (1 + rng.choice([-1e-6, 1e-6, -1e-3, 1e-3]))
            t = (a * purity + xx * (1 - purity)) / rr
            if t > 0:
                lg = math.log2(t)
        rows.append([r[0], r[1], r[2], frac(lg), frac(2.0 ** lg), r[5]])
        log2s.append(lg)
    if not rows:
        rows, log2s = [["chr1", 0, 100, frac(0.0), frac(1.0), None]], [0.0]
    i.update(rows=rows, log2_f=log2s, purity=frac(purity), purity_f=purity, check_monotone=False,
             thr_pow2=[frac(2.0 ** t) for t in thr])
    c["tag"] = "thr-purity"
    return c


def _vtable(rng, nrows=30):
    """clonal call at a purity < 1 with the b-allele frequencies supplied as variants (0..3 SNPs per segment)"""
    ploidy = rng.randint(1, 5)
    purity = rng.choice([0.3, 0.5, 0.6, 0.75, 0.9, round(rng.uniform(0.2, 0.99), 2)])
    style = rng.choice(["chr", "plain"])
    hapx, female = rng.random() < 0.5, rng.random() < 0.5
    rows, log2s, snps = [], [], []
    pos = {}
    for _ in range(nrows):
        cls = rng.choice(["auto", "auto", "auto", "x", "y"])
        c = ("chr" if style == "chr" else "") + (str(rng.randint(1, 4)) if cls == "auto" else cls.upper())
        s0 = pos.get(c, 0) + rng.randint(0, 5000)
        e0 = s0 + rng.randint(100, 100000)
        pos[c] = e0
        lg = rng.choice([rng.uniform(-2, 2), 0.0, 1.0, 0.58, -1.0])
        rows.append([c, s0, e0, frac(lg), frac(2.0 ** lg), None])
        log2s.append(lg)
        for _k in range(rng.choice([0, 1, 1, 2, 3])):
            f = rng.choice([0.5, 0.9, 0.1, 0.99, 0.01, 1.0, 0.0, 0.75, rng.random()])
            snps.append([c, rng.randint(s0, e0 - 1), f])
    return {"op": "call", "tag": "clonal-purity-variants",
            "in": {"rows": rows, "log2_f": log2s, "method": "clonal", "ploidy": ploidy, "purity": frac(purity),
                   "purity_f": purity, "hapX": hapx, "female": female, "par": None,
                   "thr": [frac(t) for t in K.DEFAULT_THR], "thr_f": list(K.DEFAULT_THR), "has_baf": True,
                   "variants": True, "snps_f": snps, "check_monotone": False}}


def corpus():
    import random
    rng = random.Random(2)
    c = _table(rng, 2)
    c["in"].update(rows=[["chr1", 0, 100, frac(0.7), frac(2.0 ** 0.7), None], ["chr1", 200, 300, frac(0.71), frac(2.0 ** 0.71), None]],
                   log2_f=[0.7, 0.71], ploidy=1, hapX=False, thr=[frac(t) for t in K.DEFAULT_THR], thr_f=list(K.DEFAULT_THR),
                   has_baf=False, check_monotone=True)
    c["tag"] = "corpus-B"
    return [c]


def gen_cases(rng, tier):
    n = {"quick": 250, "thorough": 2500, "search": 500}[tier]
    cases = [_table(rng) for _ in range(n)]
    # the same calls through the command line (`cnvkit.py call -m threshold -t=...` on a written .cns)
    for _ in range({"quick": 16, "thorough": 160, "search": 16}[tier]):
        c = _table(rng, 40)
        i = c["in"]
        keep = [k for k, lg in enumerate(i["log2_f"]) if lg is not None]  # a row without log2 is dropped by the reader
        if not keep:
            continue
        i["rows"] = [i["rows"][k] for k in keep]
        i["log2_f"] = [i["log2_f"][k] for k in keep]
        i["cli"] = True
        i["check_monotone"] = False
        c["tag"] += "-cli"
        cases.append(c)
    cases += [_vtable(rng) for _ in range({"quick": 30, "thorough": 300, "search": 60}[tier])]
    cases += [_ptable(rng) for _ in range({"quick": 40, "thorough": 400, "search": 80}[tier])]
    # autosome-class rows under names other than 1..22 (chrM, contigs, names merely containing x / y): full step values
    cases += [K.other_names(rng, _table(rng, 30), 0.6) for _ in range({"quick": 20, "thorough": 200, "search": 20}[tier])]
    return cases


def nontrivial(case, impl, resp):
    i = case["in"]
    if i.get("variants"):
        return bool(i["snps_f"])
    if i.get("purity_f"):
        return True
    thr = i["thr_f"]
    for lg in i["log2_f"]:
        if lg is None:
            continue
        if lg > thr[-1] or any(abs(lg - t) <= 4 * abs(math.ulp(t)) for t in thr):
            return True
    return False
