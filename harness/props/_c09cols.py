"""C09, op "covcols": the text side of `cnvlib.coverage.bedcov` -- `detect_bedcov_columns` and the `pd.read_csv` call.

Real code: `coverage.detect_bedcov_columns(text)` directly, and `coverage.bedcov(bed, bam, q)` with the module's view of
pysam replaced (for the duration of the call, in this module's reference only) by a stand-in whose `bedcov` returns the
given text -- so that the real empty-text check, the real column detection and the real `read_csv` call run on texts
samtools would print (rendered from regions lines with 3, 4, 5.. 12 columns + counts) and on malformed ones (ragged
widths, blank lines, no final newline, no newline at all, a short first line, nothing).
Model: lean/CnvVerif/Model/CoverageExt5Cols.lean run with the reader settings read from the source
(Generated.BEDCOV_*); theorems Props/C09Cols.lean.  Observables: the names / exception class of the detection; names,
every cell (numbers compared as numbers, the text columns `chromosome` / `gene` as text, missing = missing) and the
(chrom, start, end, gene, basecount) record of every row.  Spec (well-formed rendered texts): one row per line, row i is
line i.  What samtools really prints for a regions file is exercised by op "cov" (real pysam.bedcov).
"""
from __future__ import annotations

import math
import types

STR_COLS = ("chromosome", "gene")
CHROMS = ["chr1", "chr2", "1", "X", "chrUn_gl000220", "chr1_random", "HLA-A*01:01", "#chrom"]
NAMES = ["TP53", "BRCA1", "g1", "A,B", "x-1", "C.1", "Antitarget", "-", "ex_7", "p53|q", "a b", " lead", "x;y=z"]
ODD_NAMES = ["007", "12", "1e3", "NA", "null", "nan", "3.0", "N/A", "", "None", "#N/A", "-nan", "<NA>"]
EXTRA = ["+", "-", ".", "0", "12", "exon", "a b", "", "007", "255,0,0", "1"]
SAFE = ["TP53", "g1", "x-1", "-", "a b", "12", "0", "+", ".", "exon", "chr1", "7"]


def canon_text(s):
    try:
        return str(int(s))
    except ValueError:
        pass
    try:
        f = float(s)
    except ValueError:
        return s
    if math.isnan(f) or math.isinf(f):
        return s
    return str(int(f)) if f == int(f) else repr(f)


def canon_real(v, col):
    if v is None:
        return None
    if isinstance(v, float) and math.isnan(v):
        return None
    if isinstance(v, str):
        return v if col in STR_COLS else canon_text(v)
    try:
        if v != v:  # pandas NA
            return None
    except TypeError:
        return None
    if isinstance(v, bool):
        return str(v)
    f = float(v)
    return str(int(v)) if f == int(f) else repr(f)


def render(lines):
    return "".join("\t".join(fs) + "\n" for fs in lines)


def _structured(rng, ncol=None, m=None, odd=False):
    ncol = ncol or rng.choice([3, 3, 4, 4, 4, 5, 6, 7, 9, 12])
    m = m or rng.choice([1, 1, 2, 3, 5, 8, 20])
    lines = []
    for _ in range(m):
        s = rng.randrange(0, 100000)
        fs = [rng.choice(CHROMS), str(s), str(s + rng.choice([0, 1, 10, 100, 5000]))]
        if ncol >= 4:
            fs.append(rng.choice(ODD_NAMES if (odd or rng.random() < 0.25) else NAMES))
        while len(fs) < ncol:
            fs.append(rng.choice(EXTRA))
        fs.append(str(rng.choice([0, 0, 1, 57, 1000, 123456789, rng.randrange(0, 10 ** 6)])))
        lines.append(fs)
    return {"op": "covcols", "tag": "cols-%d" % ncol, "in": {"text": render(lines), "lines": lines}}


def _ragged(rng):
    m = rng.choice([1, 2, 3, 5])
    out = []
    for _ in range(m):
        w = rng.choice([1, 3, 4, 4, 5, 5, 6, 8])
        fs = [rng.choice(["chr1", "chr2", "1"]), str(rng.randrange(0, 1000)), str(rng.randrange(0, 1000))][:w]
        while len(fs) < w:
            fs.append(rng.choice(SAFE))
        out.append("\t".join(fs))
        if rng.random() < 0.15:
            out.append("")
    text = "\n".join(out) + ("" if rng.random() < 0.2 else "\n")
    if rng.random() < 0.1:
        text = "\n" + text
    return {"op": "covcols", "tag": "cols-ragged", "in": {"text": text}}


def _refusal(rng):
    k = rng.randrange(6)
    first = "\t".join(["chr1", "0", "10", "5"][: rng.choice([1, 2, 3])])
    text = ["", "chr1\t0\t10\tg\t5", first + "\n", first + "\nchr1\t0\t10\tg\t5\n", "\n", "\n\n"][k]
    return {"op": "covcols", "tag": "cols-refusal", "in": {"text": text}}


def corpus():
    lines = [["chr1", "0", "100", "NA", "7"], ["chr1", "5", "20", "", "0"], ["1", "5", "20", "007", "12"]]
    return [{"op": "covcols", "tag": "corpus-cols", "in": {"text": render(lines), "lines": lines}},
            {"op": "covcols", "tag": "corpus-cols", "in": {"text": "chr1\t0\t10\n"}},
            {"op": "covcols", "tag": "corpus-cols", "in": {"text": ""}},
            {"op": "covcols", "tag": "corpus-cols", "in": {"text": "chr1\t0\t10\t5"}}]


def gen_cases(rng, tier):
    n = {"quick": 240, "thorough": 2400, "search": 60}[tier]
    cases = []
    for ncol in (3, 4, 5, 6, 12):
        cases.append(_structured(rng, ncol=ncol, m=3, odd=True))
    for k in range(n):
        r = k % 8
        cases.append(_ragged(rng) if r == 6 else _refusal(rng) if r == 7 else _structured(rng))
    return cases


def run_impl(case):
    from cnvlib import coverage
    import pysam
    text = case["in"]["text"]
    out = {}
    try:
        out["detect"] = {"cols": [str(c) for c in coverage.detect_bedcov_columns(text)]}
    except Exception as e:  # noqa: BLE001 -- the class is the observable
        out["detect"] = {"err": type(e).__name__}
    seen = []

    def fake(*cmd, **kw):
        seen.append((list(cmd), dict(kw)))
        return text
    real = coverage.pysam
    coverage.pysam = types.SimpleNamespace(bedcov=fake, SamtoolsError=pysam.SamtoolsError)
    try:
        try:
            t = coverage.bedcov("regions.bed", "sample.bam", 0)
        except Exception as e:  # noqa: BLE001
            out["parse"] = {"err": type(e).__name__}
            return out
    finally:
        coverage.pysam = real
    cols = [str(c) for c in t.columns]
    rows = [[canon_real(v, c) for c, v in zip(cols, row)] for row in t.itertuples(index=False, name=None)]
    ix = {c: k for k, c in enumerate(cols)}
    recs = []
    for r in rows:
        recs.append([r[ix["chromosome"]], r[ix["start"]], r[ix["end"]], r[ix["gene"]] if "gene" in ix else None,
                     r[ix["basecount"]]])
    out["parse"] = {"cols": cols, "rows": rows, "recs": recs}
    out["calls"] = len(seen)
    return out


def to_line(case, impl):
    line = {"op": "covcols", "in": dict(case["in"])}
    if isinstance(impl, dict) and "__error__" not in impl and "recs" in (impl.get("parse") or {}):
        line["impl"] = {"n": len(impl["parse"]["recs"]), "recs": impl["parse"]["recs"]}
    return line


def _canon_model(parse):
    cols = parse["cols"]
    rows = [[None if v is None else (v if c in STR_COLS else canon_text(v)) for c, v in zip(cols, r)] for r in parse["rows"]]
    recs = [[r[0], None if r[1] is None else canon_text(r[1]), None if r[2] is None else canon_text(r[2]), r[3],
             None if r[4] is None else canon_text(r[4])] for r in parse["recs"]]
    return cols, rows, recs


def judge(case, impl, resp):
    if isinstance(impl, dict) and "__error__" in impl:
        return ["raises_" + impl["__error__"]], [], None
    if "error" in resp:
        return [], ["model error: " + resp["error"]], None
    spec = list(resp.get("spec") or [])
    dis = []
    md, rd = resp["detect"], impl["detect"]
    if md != rd:
        dis.append(f"detect_bedcov_columns: model {md} impl {rd}")
    mp, rp = resp["parse"], impl["parse"]
    if "err" in mp or "err" in rp:
        if mp.get("err") != rp.get("err"):
            dis.append(f"bedcov: model {str(mp)[:120]} impl {str(rp)[:120]}")
        return sorted(set(spec)), dis, None
    cols, rows, recs = _canon_model(mp)
    if cols != rp["cols"]:
        dis.append(f"bedcov columns: model {cols} impl {rp['cols']}")
    elif len(rows) != len(rp["rows"]):
        dis.append(f"bedcov: {len(rows)} model rows, {len(rp['rows'])} implementation rows")
    else:
        for k, (a, b) in enumerate(zip(rows, rp["rows"])):
            if a != b:
                dis.append(f"bedcov row {k}: model {a} impl {b}")
                break
        if not dis and recs != rp["recs"]:
            dis.append(f"bedcov records: model {str(recs)[:150]} impl {str(rp['recs'])[:150]}")
    return sorted(set(spec)), dis, None


def nontrivial(case, impl, resp):
    return isinstance(impl, dict) and "recs" in (impl.get("parse") or {}) and bool(resp.get("wf")) \
        and len(impl["parse"]["recs"]) >= 2


def shrink(case):
    i = case["in"]
    if "lines" in i:
        ls = i["lines"]
        for k in range(len(ls)):
            if len(ls) > 1:
                part = ls[:k] + ls[k + 1:]
                yield {"op": "covcols", "tag": "shrunk", "in": {"text": render(part), "lines": part}}
    else:
        parts = i["text"].split("\n")
        for k in range(len(parts)):
            if len(parts) > 1:
                yield {"op": "covcols", "tag": "shrunk", "in": {"text": "\n".join(parts[:k] + parts[k + 1:])}}
