"""C08 extension ops (round 4): the spelling of '%.6g' and tab files with float columns at the byte level.

  fmt_spell : a column of finite floats is written by the REAL writer (tabio.write -> to_csv(float_format='%.6g'));
              the characters of every field are compared with the Lean model `fmt6g` (exact string equality), and the
              Lean spec reads the real characters back with the model's number parser: value = the 6-significant-digit
              rounding of the exact binary value, and printing that value again gives the same characters.
  tab_spell : a table with float / integer / text columns (NaN cells outside log2) goes through
              write -> read -> write -> read -> write with the real code; the model spells the whole file (every
              byte between the tabs), reads ITS OWN lines back, and spells them again: file1, the table read back and
              file2 are compared field by field, exactly.
  src_key   : chromosome names -> the sort key of the real `sorter_chrom`, against the hand-written model key AND the
              function regenerated from the source text (Generated/ExprsChromsort.lean).
  src_label : region -> `to_label` text -> `from_label`, against the generated source functions.
"""
from __future__ import annotations

import math
import os
import shutil
import struct
import tempfile
from fractions import Fraction

from ..core import frac

EXT_OPS = ("fmt_spell", "tab_spell", "src_key", "src_label")
SRC_OPS = True   # src_key / src_label need Generated/ExprsChromsort.lean + the driver ops


# ---------------------------------------------------------------------------------------------
# generators

def _pow10f(k):
    return float("1e%d" % k)


def spell_float(rng):
    """finite, non-zero-sign-safe doubles biased to the decision points of %.6g"""
    k = rng.random()
    if k < 0.12:      # decade boundaries: 10^k and neighbours, 999999.5 * 10^k and neighbours
        e = rng.randint(-12, 24)
        x = rng.choice([_pow10f(e), 9.999995 * _pow10f(e), 9.99999 * _pow10f(e), 9.9999949 * _pow10f(e), 9.9999951 * _pow10f(e)])
        x = rng.choice([x, math.nextafter(x, 0), math.nextafter(x, math.inf)])
    elif k < 0.24:    # exact ties of the 6th digit (binary-exact: (m + 1/2) * 2^j with small j), and neighbours
        m = rng.randint(100000, 999999)
        j = rng.randint(-3, 20)
        x = (m + 0.5) * 2.0 ** j if rng.random() < 0.3 else (m + 0.5) * _pow10f(rng.randint(-10, 8))
        x = rng.choice([x, x, math.nextafter(x, 0), math.nextafter(x, math.inf)])
    elif k < 0.36:    # the switch between fixed and scientific: exponents -6..-3 and 4..7
        x = rng.uniform(1, 10) * _pow10f(rng.choice([-6, -5, -4, -3, 4, 5, 6, 7]))
    elif k < 0.48:    # short decimals: trailing zeros are stripped
        x = rng.randint(1, 9999) / 10.0 ** rng.randint(0, 8)
    elif k < 0.58:    # integral values around 10^6 (int-literal spelling or 1e+06)
        x = float(rng.choice([rng.randint(0, 1200000), rng.randint(999990, 1000010), 10 ** rng.randint(0, 9)]))
    elif k < 0.68:
        x = rng.uniform(-1, 1) * 10.0 ** rng.choice([300, 200, 100, 99, 30, 20, 15, 10, 9])
    elif k < 0.78:
        x = rng.uniform(-1, 1) * 10.0 ** -rng.choice([300, 200, 100, 99, 30, 20, 15, 10, 9, 5, 4])
    elif k < 0.93:
        while True:
            x = struct.unpack("<d", struct.pack("<Q", rng.getrandbits(64)))[0]
            if math.isfinite(x) and abs(x) >= 2.3e-308:
                break
    else:
        x = rng.gauss(0, 1)
    if x == 0.0:
        x = 0.0   # no negative zero (no rational has a sign of zero)
    return -x if rng.random() < 0.3 else x


def spell_case(rng, n=48, tag=None):
    vals = [spell_float(rng) for _ in range(n)]
    vals = [0.0 if v == 0 else v for v in vals]
    return {"op": "fmt_spell", "tag": tag or "spell", "in": {"vals": [frac(v) for v in vals]}}


def tabspell_case(rng, table_fn, tag=None):
    cna = rng.random() < 0.5
    t0 = table_fn(rng, cna=cna, nmax=14, free_genes=True)
    # replace every float cell by a value biased to the decision points; NaN cells in float columns other than log2;
    # sometimes a whole column of integral floats (comes back as an integer column) or integral floats + NaN
    for j, n in enumerate(t0["names"]):
        cells = [r[3][j] for r in t0["rows"]]
        if not cells or cells[0][0] != "f":
            continue
        mode = rng.random()
        for r in t0["rows"]:
            if mode < 0.2:
                v = float(rng.randint(-20, 1200000))
            elif mode < 0.3:
                v = float(rng.choice([rng.randint(0, 99), 10 ** rng.randint(5, 7)]))
            else:
                v = spell_float(rng)
            if n == "depth":
                v = abs(v)
            r[3][j] = ["f", frac(0.0 if v == 0 else v)]
            if n != "log2" and rng.random() < (0.15 if mode < 0.85 else 1.0):
                r[3][j] = None
    i = {"cna": cna, "t0": t0, "ext": rng.choice(["cnr", "cnn", "cns", "tsv"])}
    if rng.random() < 0.3:
        i["sub"] = rng.randint(1, 10 ** 6)
    return {"op": "tab_spell", "tag": tag or ("tabspell-cna" if cna else "tabspell"), "in": i}


KEY_NAMES = ["1", "2", "10", "22", "X", "Y", "M", "MT", "x", "y", "Un", "1_random", "17_ctg5_hap1", "Un_gl000211", "GL000207.1",
             "6_cox_hap2", "007", "0", "", "chr", "Chr", "CHR", "chromosome1", "c", "ch", "r1", "1X", "1XY", "XY", "X1", "23A", "EBV",
             "KI270728.1", "HLA-A*01:01", "9z", "12_3", "1e5", "Z", "z9"]


def key_case(rng, n=40, tag=None):
    names = []
    for _ in range(n):
        base = rng.choice(KEY_NAMES) if rng.random() < 0.7 else "".join(
            rng.choice("0123456789XYMUnab_.") for _ in range(rng.randint(0, 6)))
        pre = rng.choice(["", "", "chr", "chr", "CHR", "Chr", "cHr", "chr_", "ch", "chrchr"])
        names.append(pre + base)
    return {"op": "src_key", "tag": tag or "srckey", "in": {"names": names}}


def label_case(rng, n=30, tag=None):
    rows = []
    for _ in range(n):
        c = rng.choice(["chr1", "X", "GL000207.1", "chr17_ctg5_hap1", "1", "chrUn_gl000211"])
        s = rng.choice([0, 1, 9, 10, rng.randint(0, 3 * 10 ** 8)])
        e = s + rng.choice([0, 1, rng.randint(0, 10 ** 6)])
        rows.append([c, s, e])
    return {"op": "src_label", "tag": tag or "srclabel", "in": {"rows": rows}}


def corpus(table_fn):
    import random
    rng = random.Random(84)
    vals = [999999.5, 99999.95, 123456.5, 1234565.0, 0.1000005, 1e-5, 0.0001, 9.9999949e-5, 9.999995e-5, 1e22, 1e23,
            1.7976931348623157e308, 2.2250738585072014e-308, 0.30000000000000004, 100000.0, 999999.0, 1e6, 1e5, 2.5, -2.5, 0.0, 1.0,
            -1.0, 10.0, 0.5, 1 / 3, 2 / 3, 1e-4 * (1 - 2 ** -53), 5e-5, 123456.0, 1234567.0, 0.000123456, 1e100, 1e-100, 1e-10, 1e10,
            100000.5, 100001.5, 262144.5, 262145.5]
    cases = [{"op": "fmt_spell", "tag": "corpus-spell", "in": {"vals": [frac(v) for v in vals]}}]
    t = {"names": ["gene", "log2", "depth", "weight"],
         "rows": [["chr2", 5, 9, [["s", "NA"], ["f", frac(0.5)], ["f", frac(3.0)], None]],
                  ["chr1", 5, 9, [["s", "A,B"], ["f", frac(-1234567.0)], ["f", frac(1000000.0)], ["f", frac(1e-5)]]],
                  ["chr1", 1, 2, [["s", "7"], ["f", frac(1 / 3)], ["f", frac(12.0)], ["f", frac(999999.5)]]]]}
    cases.append({"op": "tab_spell", "tag": "corpus-tabspell", "in": {"cna": True, "t0": t, "ext": "cnr"}})
    t2 = {"names": ["depth", "score2"],
          "rows": [["chr1", 1, 2, [["f", frac(3.0)], None]], ["chr1", 5, 9, [["f", frac(0.0)], None]]]}
    cases.append({"op": "tab_spell", "tag": "corpus-tabspell", "in": {"cna": False, "t0": t2, "ext": "tsv"}})
    if not SRC_OPS:
        return cases
    cases.append({"op": "src_key", "tag": "corpus-srckey", "in": {"names": KEY_NAMES + ["chr" + n for n in KEY_NAMES] + ["CHR" + n for n in KEY_NAMES]}})
    cases.append(label_case(rng, tag="corpus-srclabel"))
    return cases


def gen_cases(rng, tier, table_fn):
    n = {"quick": 1, "thorough": 5, "search": 2}[tier]
    cases = []
    for _ in range(60 * n):
        cases.append(spell_case(rng))
    for _ in range(120 * n):
        cases.append(tabspell_case(rng, table_fn))
    if not SRC_OPS:
        return cases
    for _ in range(20 * n):
        cases.append(key_case(rng))
    for _ in range(10 * n):
        cases.append(label_case(rng))
    return cases


# ---------------------------------------------------------------------------------------------
# the real code

def run_impl(case, helpers):
    op, i = case["op"], case["in"]
    if op == "src_key":
        from skgenome.chromsort import sorter_chrom
        return [list(sorter_chrom(nm)) for nm in i["names"]]
    if op == "src_label":
        from skgenome.rangelabel import from_label, to_label, Region
        out = {"labels": [], "back": []}
        for c, s, e in i["rows"]:
            lab = to_label(Region(c, s, e))
            out["labels"].append(lab)
            out["back"].append(list(from_label(lab, keep_gene=True)))
        return out
    d = tempfile.mkdtemp(dir="/var/tmp", prefix="c08x-")
    try:
        if op == "fmt_spell":
            from skgenome import tabio, GenomicArray
            import pandas as pd
            vals = [float(Fraction(v)) for v in i["vals"]]
            df = pd.DataFrame({"chromosome": ["chr1"] * len(vals), "start": list(range(len(vals))),
                               "end": [k + 1 for k in range(len(vals))], "v": pd.Series(vals, dtype="float64")})
            p = os.path.join(d, "v.tsv")
            tabio.write(GenomicArray(df), p, "tab")
            lines = helpers["read_lines"](p)
            assert lines[0] == ["chromosome", "start", "end", "v"] and len(lines) == len(vals) + 1
            got = [l[3] for l in lines[1:]]
            return got
        if op == "tab_spell":
            cna = i["cna"]
            f1, f2, f3 = (os.path.join(d, f"f{k}.{i['ext']}") for k in (1, 2, 3))
            a = helpers["array"](i["t0"], cna, sub=i.get("sub"))
            helpers["writer"](a, f1, "tab")
            b = helpers["reader"](f1, "tab", cna)
            helpers["writer"](b, f2, "tab")
            c = helpers["reader"](f2, "tab", cna)
            helpers["writer"](c, f3, "tab")
            rl = helpers["read_lines"]
            return {"file1": rl(f1), "t1": helpers["canon"](b.data), "file2": rl(f2), "t2": helpers["canon"](c.data), "file3": rl(f3)}
    finally:
        shutil.rmtree(d, ignore_errors=True)
    raise ValueError(op)


def to_line(case, impl, is_err):
    line = {"op": case["op"], "in": {k: v for k, v in case["in"].items() if k not in ("ext", "sub")}}
    if not is_err(impl):
        line["impl"] = impl
    return line


def _same_cells(a, b):
    if a is None or b is None:
        return a is None and b is None
    if a[0] != b[0]:
        return False
    if a[0] == "f":
        return Fraction(a[1]) == Fraction(b[1])
    return a[1] == b[1]


def _cmp_table_exact(m, im, what):
    if "error" in m:
        return [f"{what}: model error {m['error']!r} but the code returned a table"]
    if m["names"] != im["names"]:
        return [f"{what}: columns model {m['names']} impl {im['names']}"]
    if len(m["rows"]) != len(im["rows"]):
        return [f"{what}: {len(m['rows'])} model rows vs {len(im['rows'])}"]
    for k, (a, b) in enumerate(zip(m["rows"], im["rows"])):
        if a[:3] != b[:3]:
            return [f"{what}: row {k} model {a[:3]} impl {b[:3]}"]
        if len(a[3]) != len(b[3]) or not all(_same_cells(x, y) for x, y in zip(a[3], b[3])):
            return [f"{what}: row {k} cells model {a[3]} impl {b[3]}"]
    return []


def judge(case, impl, resp, is_err):
    op = case["op"]
    if "error" in resp and "out" not in resp:
        return [], ["driver error: " + resp["error"]], None
    out = resp.get("out")
    spec = list(resp.get("spec") or [])
    if is_err(impl):
        return ["raises_" + impl["__error__"]], [], None
    if op == "fmt_spell":
        dis = []
        for k, (o, s) in enumerate(zip(out, impl)):
            if o["s"] != s:
                dis.append(f"spelling of {case['in']['vals'][k]}: model {o['s']!r} code {s!r}")
                break
            if o["back"] != o["six"]:
                dis.append(f"model parse of its own spelling {o['s']!r}: {o['back']} vs sixg {o['six']}")
                break
            # the characters denote a decimal; the double the real reader makes of them is the nearest one
            if Fraction(o["six"]) != Fraction(s):
                dis.append(f"value of {s!r} is not the model's rounded value {o['six']}")
                break
        return spec, dis, None
    if op == "tab_spell":
        dis = []
        if out["w1"] != impl["file1"]:
            k = next((k for k, (a, b) in enumerate(zip(out["w1"], impl["file1"])) if a != b), None)
            dis = [f"first write: line {k} model {out['w1'][k] if k is not None else len(out['w1'])} "
                   f"file {impl['file1'][k] if k is not None else len(impl['file1'])}"]
        if not dis:
            r1 = out["r1"]
            if "error" in r1 and r1["error"].startswith("outside model"):
                return spec, [], "outside the model: " + r1["error"]
            # the model cell is the exact 6-digit decimal; the real cell is the double nearest to it
            dis = _cmp_near(r1, impl["t1"], "read back")
        if not dis and out["w2"] != impl["file2"]:
            dis = ["second write differs from the model's second write"]
        if not dis and not out["fix"]:
            dis = ["model: reading the second file does not give the table read from the first"]
        if not dis and impl["t2"] != impl["t1"]:
            spec = spec + ["reread_same_table"]
        return spec, dis, None
    if op == "src_key":
        dis = []
        for nm, o, im in zip(case["in"]["names"], out, impl):
            if o.get("outside"):
                continue
            if o["model"] != im or o["src"] != im:
                dis.append(f"sort key of {nm!r}: model {o['model']} source-function {o['src']} code {im}")
                break
        return spec, dis, None
    if op == "src_label":
        dis = []
        for r, o, lab, back in zip(case["in"]["rows"], out, impl["labels"], impl["back"]):
            if o["label"] != lab or o["model"] != lab:
                dis.append(f"to_label{r}: source-function {o['label']!r} model {o['model']!r} code {lab!r}")
                break
            if o["back"] != back[:3]:
                dis.append(f"from_label({lab!r}): model {o['back']} code {back}")
                break
            if back[:3] != r:
                spec = spec + ["roundtrip_coordinates"]
        return spec, dis, None
    return [], ["unknown op"], None


def _cmp_near(m, im, what):
    if "error" in m:
        return [f"{what}: model error {m['error']!r} but the code returned a table"]
    if m["names"] != im["names"]:
        return [f"{what}: columns model {m['names']} impl {im['names']}"]
    if len(m["rows"]) != len(im["rows"]):
        return [f"{what}: {len(m['rows'])} model rows vs {len(im['rows'])}"]
    for k, (a, b) in enumerate(zip(m["rows"], im["rows"])):
        if a[:3] != b[:3]:
            return [f"{what}: row {k} model {a[:3]} impl {b[:3]}"]
        if len(a[3]) != len(b[3]):
            return [f"{what}: row {k} cells model {a[3]} impl {b[3]}"]
        for x, y in zip(a[3], b[3]):
            if x is None or y is None:
                ok = x is None and y is None
            elif x[0] != y[0]:
                ok = False
            elif x[0] == "f":
                # decimal -> double: the real cell is a double next to the model's exact decimal (pandas' fast
                # parser may be an ulp off the nearest one): the usual 1e-9 relative tolerance
                fx, fy = Fraction(x[1]), Fraction(y[1])
                ok = abs(fx - fy) <= Fraction(1, 10 ** 9) * abs(fx)
            else:
                ok = x[1] == y[1]
            if not ok:
                return [f"{what}: row {k} cells model {a[3]} impl {b[3]}"]
    return []


def nontrivial(case, impl, resp):
    if case["op"] == "fmt_spell":
        return len(set(case["in"]["vals"])) >= 8
    if case["op"] == "tab_spell":
        t = case["in"]["t0"]
        return len(t["rows"]) >= 2 and any(c is not None and c[0] == "f" for r in t["rows"] for c in r[3])
    if case["op"] == "src_key":
        return len(set(case["in"]["names"])) >= 5
    return True
