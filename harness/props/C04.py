"""C04 -- fix subtracts the reference bin-for-bin by coordinate and normalises soundly."""
from __future__ import annotations

import math
import os
from fractions import Fraction

from ..core import frac
from . import _c04ext5 as _ext5

LEVEL = "proof"
RULE = ("references: pooled, flat, built from a single sample (real log2, spread 0) or whole-number log2 with a spread; +- gc / rmask "
        "columns (rmask with many ties at 0), +- depth column, +- the extra columns of a clustered reference, columns in any order, gene "
        "names that differ from the sample's; bad bins anywhere (log2 beyond +-5, spread > 1, depth 0, gc outside 0.3-0.7, values on "
        "the limits; sometimes every bin of a class); 1..5 chromosomes from six naming schemes (chr-prefixed or bare, chr2/chr10/chr11 "
        "so that natural and lexicographic order differ, X, Y, M, an unplaced contig, sex chromosomes only) with interleaved target "
        "(100-500 bp, abutting, apart or overlapping) and antitarget (5-20 kb, named Antitarget or Background) bins; samples over all or "
        "~90% of the bins, with no / a few / mostly zero-coverage bins in a class, empty antitargets (3%: empty targets), +- a Picard-style gc column, "
        "tables built directly or as filtered subsets (pandas index not 0..n-1), rows in genomic or shuffled order; every subset of "
        "{gc, edge, rmask} given by keyword, positionally or left to the defaults; diploid_parx_genome (15%) and "
        "smoothing_window_fraction (12%, fractions and whole widths); every malformed input once per run (sample bin whose start / end / "
        "chromosome is not in the reference, in the target or the antitarget table; duplicated coordinates in either sample table or in "
        "the reference) plus ~10% at random; each case is also re-run with permuted input rows and with a depth scale factor; one case "
        "in five goes through the command line (`cnvkit.py fix` on written .cnn files, --no-gc/--no-edge/--no-rmask, "
        "--diploid-parx-genome, --smoothing-window-fraction, -i, with -o or the default <sample>.cnr in the working directory, empty "
        "antitargets as a header-only or a zero-byte file), result read back from the .cnr. non-trivial = a bad bin was dropped or a "
        "correction was applied or rows were shuffled; distinct by hash")
EXHAUSTIVE = {"quick": False, "thorough": False}
ASSUMPTIONS = ["third-party numerics enter as parameters computed by the same library calls: numpy's seeded permutation "
               "(seed 0xA5EED), the rolling-median half-window (_width2wing of the given smoothing_window_fraction, by default max(0.01, n**-0.5)), numpy sqrt of bin sizes, "
               "and the two squared biweight midvariances of the residuals (C19's subject)",
               "float evaluation of the edge-bias formulas may order two nearly equal keys differently from exact "
               "arithmetic (not observed; would show up as a disagreement, not a violation)"]
TRUSTED_EXTRA = ["numpy.random.permutation (MT19937) under a fixed seed", "pandas rolling(center=True).median"]
SC = ["chromosome", "start", "end", "gene", "log2", "depth"]


# chromosome name sets: the natural order (chr2 < chr10 < chrX < chrY < chrM) differs from the lexicographic one in
# all but the first; names with and without the "chr" prefix; tables without any autosome (centring then uses
# every chromosome); an unplaced contig (never an autosome)
NAMINGS = [["chr1", "chr2", "chr3", "chrX"],
           ["chr1", "chr2", "chr10", "chrX", "chrY"],
           ["1", "2", "10", "X", "Y"],
           ["chr2", "chr11", "chrX", "chrY", "chrM"],
           ["chr9", "chr10", "chr1_gl000191_random", "chrX"],
           ["chrX", "chrY"]]


def _case(rng, big=False, force=None):
    naming = rng.choice(NAMINGS) if rng.random() < 0.6 else NAMINGS[0]
    if naming is NAMINGS[0]:
        chroms = naming[: rng.randint(1, 4)]
    else:
        chroms = [c for c in naming if rng.random() < 0.75] or [naming[0]]
        rng.shuffle(chroms)  # order of first appearance in the reference table is arbitrary as well
    xname = "chrX" if chroms[0].startswith("chr") else "X"
    withgc, withrm = rng.random() < 0.6, rng.random() < 0.5
    # reference kind: pooled; flat (log2 0 / -1, spread 0); built from a single sample (real log2, spread 0);
    # whole-number log2 with a spread (the other mixed cell of the pooled-or-flat test in apply_weights)
    kind = rng.choice(["pooled"] * 13 + ["flat"] * 4 + ["single"] * 2 + ["intlog2"])
    antiname = "Background" if rng.random() < 0.15 else "Antitarget"
    overlap = rng.random() < 0.15  # neighbouring bins may overlap (negative gap in the edge-bias formula)
    rmzero = rng.random() < 0.4    # many bins without repeats: ties in the rmask sort key
    ref = []
    for c in chroms:
        pos = rng.randint(0, 5000) if rng.random() < 0.8 else rng.randint(40000, 70000)
        for i in range(rng.randint(4, 25) if not big else rng.randint(30, 120)):
            anti = rng.random() < 0.4
            sz = rng.randint(5000, 20000) if anti else rng.choice([rng.randint(100, 400), 120, 250, 500])
            if kind == "flat":
                lg = -1.0 if c == xname and rng.random() < 0.5 else 0.0
                sp = 0.0
                dp = 1.0
            else:
                lg = rng.gauss(0, .5) if kind != "intlog2" else float(rng.choice([-1, 0, 0, 1]))
                if rng.random() < .05:
                    lg = rng.choice([-6.0, 5.5, -5.0, 5.0])
                sp = 0.0 if kind == "single" else rng.choice([0.05, 0.2, 0.9, 1.0, 1.2, rng.uniform(0, 1)])
                dp = 2 ** lg if rng.random() > .03 else 0.0
            gc = rng.choice([rng.uniform(.25, .75), 0.3, 0.7, rng.uniform(.31, .69)]) if withgc else None
            rm = (0.0 if rmzero and rng.random() < 0.6 else rng.uniform(0, 1)) if withrm else None
            ref.append([c, pos, pos + sz, antiname if anti else "G%d" % (i // 4), lg, dp, gc, rm, sp])
            if overlap and not anti and kind != "flat" and rng.random() < 0.3:
                # a second bin with the SAME start and another end (tiled / nested baits): the end is part of the sort key and
                # of the bin's identity; listed before or after its twin (round-4 seed C04-r4: sort key without the end)
                twin = [c, pos, pos + sz + rng.choice([-1, 1]) * rng.randint(1, sz - 1), "G%d" % (i // 4), lg + rng.choice([-0.7, 0.4, 0.9]),
                        dp, gc, rm, sp]
                ref.insert(len(ref) - 1 if rng.random() < 0.5 else len(ref), twin)
            gap = rng.choice([0, 0, rng.randint(1, 200), rng.randint(200, 3000)])
            if overlap and not anti and rng.random() < 0.4:
                gap = -rng.randint(1, sz - 1)
            pos += sz + gap
    if rng.random() < 0.12:
        # every bin of one class is bad in the reference (the class comes out empty although its table is not)
        cls = rng.random() < 0.7
        for r in ref:
            if (r[3] == antiname) == cls:
                r[8] = 1.5
    keep = [r for r in ref if rng.random() < .9] if rng.random() < 0.8 else list(ref)
    # zero-coverage bins: none / a few / most of one class (amplicon data under a hybrid-capture design, wrong BED)
    nullmode = rng.choice(["none"] * 4 + ["few"] * 4 + ["anti", "tgt"])
    samp = []
    for r in keep:
        p0 = {"none": 0.0, "few": 0.05, "anti": 0.75 if r[3] == antiname else 0.02,
              "tgt": 0.65 if r[3] != antiname else 0.02}[nullmode]
        lg = rng.gauss(3, .6) if rng.random() >= p0 else -20.0
        samp.append([r[0], r[1], r[2], r[3], lg, (2 ** lg if lg > -20 else 0.0)])
    tgt = [r for r in samp if r[3] != antiname]
    anti = [r for r in samp if r[3] == antiname] if rng.random() < .8 or (force and force[1] == "anti") else []
    if force and force[1].startswith("cli-noanti"):
        anti = []
    if not force and anti and rng.random() < 0.03:
        tgt = []  # the mirror case (only off-target bins): same code path as empty antitargets, in the other slot
    if rng.random() < 0.1:
        # the reference was annotated differently from the sample (gene names are not part of the key)
        other = rng.choice(["Background" if antiname == "Antitarget" else "Antitarget", "-"])
        ref = [r[:3] + [other if r[3] == antiname else "R" + r[3]] + r[4:] for r in ref]
    shuffled = rng.random() < 0.5
    if shuffled:
        rng.shuffle(tgt)
        rng.shuffle(anti)
        if rng.random() < 0.5:
            rng.shuffle(ref)
    corr = rng.choice([(False, False, False), (True, True, True), (True, False, False), (False, True, False),
                       (False, False, True), (True, True, False), (True, False, True), (False, True, True)])
    bad = None
    # malformed inputs: `force` = (kind, table, how) fixes the cell (gen_cases asks for every one of them once)
    k = rng.random()
    kind_bad, which, how = (force if force and force[0] else None) or (("missing" if k < 0.04 else "dup_sample" if k < 0.07 else "dup_ref" if k < 0.10 else None),
                                     "anti" if rng.random() < 0.35 else "tgt", rng.choice(["start", "end", "chrom"]))
    tab = anti if which == "anti" and len(anti) > 1 else tgt
    if kind_bad == "missing" and tab:
        # a sample bin that is not in the reference: start, end or chromosome differs; in either table
        j = rng.randrange(len(tab))
        t = list(tab[j])
        if how == "start":
            t[1] += 1
        elif how == "end":
            t[2] += 1
        else:
            # another chromosome of the design, or one the reference does not have at all
            t[0] = rng.choice([c for c in chroms if c != t[0]] or [t[0] + "_alt"]) if rng.random() < 0.5 else t[0] + "_alt"
        if (t[0], t[1], t[2]) not in {(r[0], r[1], r[2]) for r in ref}:
            bad = "missing"
            tab[j] = t
    elif kind_bad == "dup_sample" and len(tab) > 1:
        bad = "dup_sample"
        tab.insert(rng.randrange(len(tab) + 1), list(tab[rng.randrange(len(tab))]))
    elif kind_bad == "dup_ref" and len(ref) > 1:
        bad = "dup_ref"
        ref = ref + [list(ref[rng.randrange(len(ref))])]
    elif kind_bad == "dup_cross" and tgt and anti:
        bad = "dup_cross"
        t = tgt[rng.randrange(len(tgt))]
        anti.insert(rng.randrange(len(anti) + 1), t[:3] + [rng.choice([antiname, t[3]])] + t[4:])
    cli = rng.random() < 0.2
    # options beyond the three switches
    par = rng.choice(["grch38", "grch37", "GRCh38"]) if rng.random() < 0.15 else None
    swf = rng.choice([0.1, 0.25, 0.5, 0.9, 3.0, 5.0, 11.0]) if rng.random() < 0.12 else None
    # representation of the inputs (see _cna / _ref / _fix_cli)
    rep = {"sub": rng.randint(1, 10 ** 6) if rng.random() < 0.35 else None,   # tables are filtered subsets: index != 0..n-1
           "samp_gc": rng.random() < 0.12,                                    # Picard-style coverage tables with a gc column
           "ref_nodepth": rng.random() < 0.08,                                # reference without a depth column
           "ref_extra": rng.random() < 0.12,                                  # clustered reference columns (unused without --cluster)
           "ref_cols": rng.randint(1, 10 ** 6) if rng.random() < 0.2 else None,  # reference columns in another order
           "call": rng.choice(["kw", "kw", "pos", "implicit"]),              # keywords / positional / defaults left out
           "cli_no_o": rng.random() < 0.3, "cli_sid": rng.random() < 0.3, "cli_empty_file": rng.random() < 0.5}
    if force and force[1].startswith("cli-noanti"):
        cli, rep["cli_empty_file"] = True, force[1].endswith("0byte")
    if cli:
        # the .cnn files carry 6 significant digits: use inputs that survive the round trip exactly
        r6 = lambda v: v if v is None else float("%.6g" % v)
        ref = [r[:4] + [r6(v) for v in r[4:]] for r in ref]
        tgt = [r[:4] + [r6(v) for v in r[4:]] for r in tgt]
        anti = [r[:4] + [r6(v) for v in r[4:]] for r in anti]
    return {"op": "fix", "tag": ("cli-" if cli else "") + ("shuffled-" if shuffled else "sorted-") + kind + ("-" + bad if bad else ""),
            "in": {"tgt_f": tgt, "anti_f": anti, "ref_f": ref, "do_gc": corr[0], "do_edge": corr[1], "do_rmask": corr[2],
                   "par": par, "swf": swf, "rep": rep, "bad": bad,
                   "shuffled": shuffled, "scale": rng.choice([1.0, 2.0, -3.5, 0.37]), "pseed": rng.randint(0, 10 ** 6), "cli": cli}}


# a bin present in BOTH sample tables (e.g. the target coverage file named twice) is accepted and emitted twice:
# /verif/proposed_fixes/C04-cross-table-duplicate.md.  Not generated until the repair is in /repo (C04_CROSS_DUP=1).
CROSS_DUP = True   # finding BA fixed in /repo (9c896b5): generated
FORCED = ([("missing", w, h) for w in ("tgt", "anti") for h in ("start", "end", "chrom")] +
          [("dup_sample", "tgt", ""), ("dup_sample", "anti", ""), ("dup_ref", "", "")] +
          # and, well-formed, the command line with empty antitargets given as a header-only / a zero-byte file
          [(None, "cli-noanti-header", ""), (None, "cli-noanti-0byte", "")])


def gen_cases(rng, tier):
    n = {"quick": 150, "thorough": 1600, "search": 300}[tier]
    # every forced cell once (twice in the thorough tier), then the random cases
    forced = [_case(rng, force=f) for f in (FORCED + ([("dup_cross", "anti", "")] if CROSS_DUP else [])) * (2 if tier == "thorough" else 1)]
    cases = forced + [_case(rng, big=(k % 4 == 0)) for k in range(n)]
    return cases + _ext5.gen_cases(rng, tier)   # round 5: after everything else, so the earlier case stream is unchanged


def corpus():
    import random
    rng = random.Random(44)
    c = _case(rng)
    while not (c["in"]["anti_f"] and c["in"]["bad"] is None and len(c["in"]["tgt_f"]) > 6):
        c = _case(rng)
    # finding D: shuffled sample, empty antitargets, a correction on
    c["in"]["anti_f"] = []
    rng.shuffle(c["in"]["tgt_f"])
    c["in"].update(do_gc=False, do_edge=True, do_rmask=False, shuffled=True, cli=False, par=None, swf=None, rep={})
    c["tag"] = "corpus-D"
    return [c]


def _cna(rows, cols, sub=None):
    """a CopyNumArray of the rows.  With `sub` (a seed) the same table is obtained as a filtered SUBSET of a larger
    one (junk rows interleaved, then masked out), so that its pandas index labels are not 0..n-1 -- as for any table
    a caller has filtered before (one sex chromosome dropped, targets selected by gene ...)"""
    from cnvlib.cnary import CopyNumArray as CNA
    rows = [tuple(r) for r in rows]
    if sub is None or not rows:
        return CNA.from_rows(rows, columns=cols, meta_dict={"sample_id": "s"})
    import random
    import numpy as np
    rng = random.Random(sub)
    big, mask = [], []
    for r in rows:
        for _ in range(rng.choice([0, 1, 1, 2])):
            j = rng.choice(rows)
            big.append((j[0], j[1] + rng.randint(1, 50), j[2] + rng.randint(51, 90)) + tuple(j[3:]))
            mask.append(False)
        big.append(r)
        mask.append(True)
    if all(mask):
        big.insert(0, (rows[0][0], rows[0][1] + 1, rows[0][2] + 2) + tuple(rows[0][3:]))
        mask.insert(0, False)
    return CNA.from_rows(big, columns=cols, meta_dict={"sample_id": "s"})[np.array(mask)]


def _samp(rows, rep, sub=None):
    """a coverage table; `samp_gc`: with the extra gc column of Picard-derived tables"""
    if rep.get("samp_gc"):
        return _cna([list(r) + [0.25 + ((r[1] * 7 + r[2]) % 50) / 100] for r in rows], SC + ["gc"], sub)
    return _cna(rows, SC, sub)


def _ref(rows, rep=None, sub=None):
    rep = rep or {}
    cols = ["chromosome", "start", "end", "gene", "log2", "depth", "gc", "rmask", "spread"]
    if rep.get("ref_extra"):
        # what `reference --cluster` adds; `fix` without --cluster must not look at them
        rows = [list(r) + [r[4] + 0.5 - (k % 3) * 0.4, 0.01 + (k % 7) * 0.3] for k, r in enumerate(rows)]
        cols = cols + ["log2_1", "spread_1"]
    ref = _cna(rows, cols, sub)
    drop = [c for c, idx in (("gc", 6), ("rmask", 7)) if rows and rows[0][idx] is None]
    if rep.get("ref_nodepth"):
        drop.append("depth")
    keep = [c for c in cols if c not in drop]
    if rep.get("ref_cols"):
        import random
        tail = keep[4:]
        random.Random(rep["ref_cols"]).shuffle(tail)
        keep = keep[:4] + tail
    if drop or rep.get("ref_cols"):
        ref = ref.keep_columns(keep)
    return ref


def _fix_cli(i, tgt, anti, ref):
    """the same computation through the command line: write the three tables, run `cnvkit.py fix`, read the .cnr"""
    import os
    import shutil
    import tempfile
    import logging
    from cnvlib import commands
    from cnvlib.cmdutil import read_cna
    from skgenome import tabio
    rep = i.get("rep") or {}
    d = tempfile.mkdtemp(prefix="c04cli", dir="/var/tmp")
    cwd = os.getcwd()
    try:
        ft, fa, fr, fo = (os.path.join(d, n) for n in ("s.targetcoverage.cnn", "s.antitargetcoverage.cnn", "ref.cnn", "s.cnr"))
        tabio.write(_samp(tgt, rep), ft)
        if not anti and rep.get("cli_empty_file"):
            # what `coverage` leaves for an empty antitarget BED (amplicon / WGS designs); any empty file will do,
            # whatever sample its name suggests
            fa = os.path.join(d, "none.antitargetcoverage.cnn")
            open(fa, "w").close()
        else:
            tabio.write(_samp(anti, rep), fa)
        tabio.write(_ref(ref, rep), fr)
        argv = ["fix", ft, fa, fr]
        if rep.get("cli_sid"):
            argv += ["-i", "tumor7"]
        if rep.get("cli_no_o"):
            # default output name: <sample id>.cnr in the working directory
            wd = os.path.join(d, "wd")
            os.mkdir(wd)
            os.chdir(wd)
            fo = os.path.join(wd, ("tumor7" if rep.get("cli_sid") else "s") + ".cnr")
        else:
            argv += ["-o", fo]
        argv += [] if i["do_gc"] else ["--no-gc"]
        argv += [] if i["do_edge"] else ["--no-edge"]
        argv += [] if i["do_rmask"] else ["--no-rmask"]
        if i.get("par"):
            argv += ["--diploid-parx-genome", i["par"]]
        if i.get("swf") is not None:
            argv += ["--smoothing-window-fraction", repr(i["swf"])]
        # the .cnr is written with 6 significant digits (C08's subject): take the table the command hands to the
        # writer, and check separately that the file read back agrees with it to that precision
        captured = []

        class _Tab:
            def __getattr__(self, name):
                return getattr(tabio, name)

            def write(self, garr, outfname=None, *a, **k):
                captured.append(garr)
                return tabio.write(garr, outfname, *a, **k)
        saved = commands.tabio
        commands.tabio = _Tab()
        logging.disable(logging.CRITICAL)
        try:
            args = commands.parse_args(argv)
            args.func(args)
        finally:
            logging.disable(logging.NOTSET)
            commands.tabio = saved
        if len(captured) != 1 or not os.path.exists(fo):
            raise AssertionError("cnvkit.py fix did not write exactly one table to the requested output")
        back = read_cna(fo)
        out = captured[0]
        if len(back) != len(out) or any(
                (str(a.chromosome), int(a.start), int(a.end), str(a.gene)) != (str(b.chromosome), int(b.start), int(b.end), str(b.gene))
                or abs(a.log2 - b.log2) > 1e-5 * max(1, abs(b.log2)) for a, b in zip(back, out) if b.log2 == b.log2):
            raise AssertionError("the written .cnr does not read back as the table fix computed")
        return out
    finally:
        os.chdir(cwd)
        shutil.rmtree(d, ignore_errors=True)


def _fix_api(i, tgt, anti, ref):
    from cnvlib import fix
    rep = i.get("rep") or {}
    sub = rep.get("sub")
    t, a, r = _samp(tgt, rep, sub), _samp(anti, rep, sub and sub + 1), _ref(ref, rep, sub and sub + 2)
    par, swf = i.get("par"), i.get("swf")
    style = rep.get("call", "kw")
    if style == "pos":  # as commands._cmd_fix calls it
        return fix.do_fix(t, a, r, par, i["do_gc"], i["do_edge"], i["do_rmask"], False, swf)
    kw = {}
    if style != "implicit" or not i["do_gc"]:
        kw["do_gc"] = i["do_gc"]
    if style != "implicit" or not i["do_edge"]:
        kw["do_edge"] = i["do_edge"]
    if style != "implicit" or not i["do_rmask"]:
        kw["do_rmask"] = i["do_rmask"]
    if style != "implicit" or par is not None:
        kw["diploid_parx_genome"] = par
    if style != "implicit" or swf is not None:
        kw["smoothing_window_fraction"] = swf
    return fix.do_fix(t, a, r, **kw)


def _run(i, tgt, anti, ref, record=None):
    from cnvlib import fix, descriptives
    if i.get("cli"):
        do = lambda: _fix_cli(i, tgt, anti, ref)
    else:
        do = lambda: _fix_api(i, tgt, anti, ref)
    if record is not None:
        # the two residual spreads are third-party numerics (biweight midvariance, C19): capture the values
        # apply_weights actually obtains (the estimator switches to a MAD fallback on exactly symmetric data,
        # so recomputing it from the output can differ by a float knife-edge)
        real = descriptives.biweight_midvariance

        class _Rec:
            def __getattr__(self, name):
                return getattr(descriptives, name)

            def biweight_midvariance(self, *a, **k):
                v = real(*a, **k)
                record.append(float(v))
                return v
        saved = fix.descriptives
        fix.descriptives = _Rec()
        try:
            out = do()
        finally:
            fix.descriptives = saved
    else:
        out = do()
    d = out.data
    return out, [[str(d["chromosome"].iat[k]), int(d["start"].iat[k]), int(d["end"].iat[k]), str(d["gene"].iat[k]),
                  float(d["log2"].iat[k]), float(d["weight"].iat[k])] for k in range(len(d))]


def run_impl(case):
    if case["op"] in _ext5.EXT_OPS:
        return _ext5.run_impl(case, {"samp": _samp, "ref": _ref})
    import random
    import numpy as np
    from cnvlib import descriptives, smoothing
    i = case["in"]
    rec = []
    out, rows = _run(i, i["tgt_f"], i["anti_f"], i["ref_f"], record=rec)
    if any(math.isnan(r[4]) or math.isnan(r[5]) for r in rows):
        depth = {(r[0], r[1], r[2]): r[5] for r in i["tgt_f"] + i["anti_f"]}
        anti_rows = [r for r in rows if r[3] in ("Antitarget", "Background")]
        tgt_rows = [r for r in rows if r[3] not in ("Antitarget", "Background")]
        return {"nan": True, "live_t": sum(1 for r in tgt_rows if depth.get((r[0], r[1], r[2]), 0) > 0),
                "live_a": sum(1 for r in anti_rows if depth.get((r[0], r[1], r[2]), 0) > 0), "n_a": len(anti_rows)}
    # parameters (third-party numerics), recomputed with the same library calls
    is_anti = out["gene"].isin(("Antitarget", "Background"))
    nT, nA = int((~is_anti).sum()), int(is_anti.sum())

    def perm_wing(n):
        if n == 0:
            return [], 1
        if n == 1:  # rolling_median hands a single value back unchanged
            return [0], 1
        np.random.seed(0xA5EED)
        p = [int(x) for x in np.random.permutation(np.arange(n))]
        fr = i["swf"] if i.get("swf") is not None else max(0.01, n ** -0.5)
        try:
            return p, int(smoothing._width2wing(fr, np.zeros(n)))
        except ValueError:  # n == 1: the fraction is 1.0, which rolling_median refuses
            return p, 1
    pT, wT = perm_wing(nT)
    pA, wA = perm_wing(nA)
    varT = rec[0] ** 2 if rec else 0.0
    varA = rec[1] ** 2 if len(rec) > 1 else 0.0
    # the doubles numpy computes for the edge-bias sort keys of the good target bins (they depend on the
    # coordinates only); the model orders ties / near-ties by these and checks them against its exact formula
    edge_keys = []
    if i["do_edge"] and nT:
        from cnvlib import fix, params
        tg_sorted = out[~is_anti].copy()
        tg_sorted.sort()
        edge_keys = [frac(float(v)) for v in fix.get_edge_bias(tg_sorted, params.INSERT_SIZE)]
    sq = [[r[0], r[1], r[2], frac(float(np.sqrt(np.int64(r[2] - r[1]))))] for r in i["tgt_f"] + i["anti_f"]]
    res = {"rows": [[r[0], r[1], r[2], r[3], frac(r[4]), frac(r[5])] for r in rows],
           "permT": pT, "wingT": wT, "permA": pA, "wingA": wA,
           "edge_keys": edge_keys, "varT": frac(varT) if math.isfinite(varT) else "0", "varA": frac(varA) if math.isfinite(varA) else "0", "sqrt": sq}
    # metamorphic variants: permuted rows of every input; depth rescaled (constant added to the sample's log2)
    prng = random.Random(i["pseed"])
    t2, a2, r2 = list(i["tgt_f"]), list(i["anti_f"]), list(i["ref_f"])
    prng.shuffle(t2), prng.shuffle(a2), prng.shuffle(r2)
    ia = dict(i, cli=False)  # metamorphic re-runs go through the API (the files carry only 6 significant digits)
    _o, rows_p = _run(ia, t2, a2, r2)
    res["perm_same"] = _same(rows, rows_p)
    c = i["scale"]

    def scaled(rows_):
        return [r[:4] + [r[4] + c if r[5] > 0 else r[4], r[5] * 2 ** c] for r in rows_]
    # (a) on the bins that have coverage: every depth multiplied by 2**c must leave the output unchanged
    t0 = [r for r in i["tgt_f"] if r[5] > 0]
    a0 = [r for r in i["anti_f"] if r[5] > 0]
    res["scale_same"] = True
    if len(t0) >= 2:
        try:
            _o, rows_0 = _run(ia, t0, a0, i["ref_f"])
            _o, rows_s0 = _run(ia, scaled(t0), scaled(a0), i["ref_f"])
            res["scale_same"] = _same(rows_0, rows_s0)
        except ValueError as e:
            if "width must be" not in str(e):
                raise
    # (b) faithful rescale with the zero-coverage bins left at the sentinel (they have no reads to scale)
    _o, rows_s = _run(ia, scaled(i["tgt_f"]), scaled(i["anti_f"]), i["ref_f"])
    null = {(r[0], r[1], r[2]) for r in i["tgt_f"] + i["anti_f"] if r[5] == 0}
    res["scale_same_null"] = _same([r for r in rows if tuple(r[:3]) not in null],
                                   [r for r in rows_s if tuple(r[:3]) not in null])
    return res


def _same(a, b):
    """True, or a description of the first difference.  Identical log2 values with different weights are NOT
    reported: the weights depend on the data only through the residual spread (biweight midvariance), which is
    discontinuous on exactly symmetric residuals (MAD fallback decided by whether a float sum is exactly 0, e.g.
    any chromosome with exactly two bins) -- with identical log2 the residuals are identical, so a weight
    difference can only come from that fallback flipping under float rounding (C19's documented discontinuity)."""
    if len(a) != len(b):
        return f"row count {len(a)} vs {len(b)}"
    for x, y in zip(a, b):
        if x[:4] != y[:4]:
            return f"rows differ {x[:4]} vs {y[:4]}"
        if abs(x[4] - y[4]) > 1e-7 * max(1, abs(x[4])):
            return f"log2 differs at {x[:3]}: {x[4]} vs {y[4]}"
    return True


def _rows_json(rows, n):
    return [[r[0], r[1], r[2], r[3]] + [None if v is None else frac(v) for v in r[4:n]] for r in rows]


def to_line(case, impl):
    if case["op"] in _ext5.EXT_OPS:
        return _ext5.to_line(case, impl)
    i = case["in"]
    ref = i["ref_f"]
    if (i.get("rep") or {}).get("ref_nodepth"):
        # the reference has no depth column: no bin is dropped for depth 0 (the model's rows carry a depth)
        ref = [r[:5] + [1.0] + r[6:] for r in ref]
    base = {"tgt": _rows_json(i["tgt_f"], 6), "anti": _rows_json(i["anti_f"], 6), "ref": _rows_json(ref, 9),
            "do_gc": i["do_gc"], "do_edge": i["do_edge"], "do_rmask": i["do_rmask"], "par": i.get("par")}
    if isinstance(impl, dict) and ("__error__" in impl or impl.get("nan")):
        base.update(permT=[], wingT=1, permA=[], wingA=1, varT="0", varA="0", sqrt=[])
        return {"op": "fix", "in": base}
    base.update({k: impl[k] for k in ("permT", "wingT", "permA", "wingA", "varT", "varA", "sqrt")})
    if impl.get("edge_keys"):
        base["edge_keys"] = impl["edge_keys"]
    return {"op": "fix", "in": base, "impl": impl["rows"]}


def classify_null_bins(case, impl, resp):
    """finding W: zero-coverage bins stay at the -20 sentinel whatever the depth; they take part in the
    antitarget centring (skip_low=False) and in the rolling medians of the corrections, so the result depends
    (slightly, or grossly on tiny tables) on the depth scale"""
    if case["op"] in _ext5.EXT_OPS:
        return False
    return any(r[5] == 0 for r in case["in"]["anti_f"] + case["in"]["tgt_f"])


def classify_single_bin_class(case, impl, resp):
    """finding X: a class (targets or antitargets) with exactly one usable bin makes the smoothing fraction
    max(0.01, n**-0.5) = 1.0, which rolling_median rejects"""
    if case["op"] in _ext5.EXT_OPS:
        return False
    return (isinstance(impl, dict) and impl.get("__error__") == "ValueError" and "width must be" in impl.get("msg", "")
            and "(got 1.0)" in impl.get("msg", ""))


def _centred_before_shift(case, rows):
    """The driver's `output_centered` re-selects the bins with usable coverage on the OUTPUT values (log2 >= -15 and
    depth > 0); `center_all(skip_low=True)` selects them before it shifts.  When the shift is large (a class that is
    mostly zero-coverage bins drags its few live bins ~20 units away) a selected bin can cross the -15 cut-off with
    the shift, and the two selections differ although the output is centred exactly as the property says (same
    knife edge as C15, DESIGN 9.4).  True iff the output is centred (median of the autosomal chromosome medians
    within 1e-9 of 0) on the covered bins at or above SOME cut-off, i.e. for a selection made before some shift."""
    import re
    import statistics
    from cnvlib import params
    i = case["in"]
    depth = {(r[0], r[1], r[2]): r[5] for r in i["tgt_f"] + i["anti_f"]}
    live = [(r[0], r[1], r[2], float(Fraction(r[4]))) for r in rows if depth.get((r[0], r[1], r[2]), 1) > 0]
    if not live:
        return False
    xlab = "chrX" if rows[0][0].startswith("chr") else "X"
    par = params.PSEUDO_AUTSOMAL_REGIONS[i["par"].lower()] if i.get("par") else None

    def centre(sel):
        auto = [b for b in sel if re.match(r"(chr)?\d+$", b[0])]
        if auto:
            sel = [b for b in sel if re.match(r"(chr)?\d+$", b[0]) or
                   (par and b[0] == xlab and any(b[1] >= lo and b[2] <= hi for lo, hi in (par["PAR1X"], par["PAR2X"])))]
        if not sel:
            return None
        return statistics.median(statistics.median(b[3] for b in sel if b[0] == c) for c in {b[0] for b in sel})
    for v in sorted({b[3] for b in live}):
        for sel in ([b for b in live if b[3] >= v], [b for b in live if b[3] > v]):
            c = centre(sel)
            if c is not None and abs(c) <= 1e-9:
                return True
    return False


def judge(case, impl, resp):
    if case["op"] in _ext5.EXT_OPS:
        return _ext5.judge(case, impl, resp)
    if isinstance(impl, dict) and impl.get("nan"):
        # a class of emitted bins with fewer than two bins that have any coverage has no residual spread to
        # estimate (biweight midvariance of <= 1 value): the weights are undefined there by construction
        if impl.get("live_t", 0) < 2 or (impl.get("n_a", 0) > 0 and impl.get("live_a", 0) < 2):
            return [], [], "degenerate: a class with fewer than two emitted bins that have any coverage"
        return ["weight_in_range"], [], None
    if "error" in resp:
        return [], ["model error: " + resp["error"]], None
    out = resp["out"]
    model_err = isinstance(out, dict) and "error_kind" in out
    i = case["in"]
    if not model_err and {(r[0], r[1], r[2]) for r in i["tgt_f"]} & {(r[0], r[1], r[2]) for r in i["anti_f"]}:
        # coordinates duplicated ACROSS the two sample tables: the model checks each table on its own (as
        # match_ref_to_sample does); the property's refusal is demanded here from the case itself
        if isinstance(impl, dict) and impl.get("__error__") == "ValueError" and "uplicated" in impl.get("msg", ""):
            return [], [], None
        return ["fix_rejects_missing_or_duplicated"], [], None
    if isinstance(impl, dict) and "__error__" in impl:
        if model_err and impl["__error__"] == "ValueError" and "width must be" not in impl.get("msg", ""):
            return [], [], None  # refuses a missing / duplicated bin, as the property demands
        return ["raises_" + impl["__error__"]], [], None
    if model_err:
        return ["fix_rejects_missing_or_duplicated"], [], None
    spec = list(resp.get("spec") or [])
    if impl["perm_same"] is not True:
        spec.append("permutation_invariant")
    if impl["scale_same"] is not True:
        spec.append("depth_scale_invariant")
    if impl["scale_same_null"] is not True:
        spec.append("depth_scale_invariant_with_null_bins")
    dis = []
    rows = impl["rows"]
    if "output_centered" in spec and _centred_before_shift(case, rows):
        spec.remove("output_centered")
    if "edge_key_dev" in resp and Fraction(resp["edge_key_dev"]) > Fraction(1, 10 ** 9):
        dis.append(f"edge-bias keys: real doubles deviate from the exact formula by {float(Fraction(resp['edge_key_dev']))}")
    if len(out) != len(rows):
        dis.append(f"row count model {len(out)} impl {len(rows)}")
    else:
        for k, (m, r) in enumerate(zip(out, rows)):
            if m[:4] != r[:4]:
                dis.append(f"row {k}: model {m[:4]} impl {r[:4]}")
                break
            for idx, name in ((4, "log2"), (5, "weight")):
                a, b = float(Fraction(r[idx])), float(Fraction(m[idx]))
                if abs(a - b) > 1e-7 * max(1, abs(b)):
                    dis.append(f"row {k} {name}: model {b} impl {a}")
                    break
            if dis:
                break
    if dis and spec == ["depth_scale_invariant_with_null_bins"] and classify_null_bins(case, impl, resp):
        # the open finding W must not hide a model / implementation disagreement on the same case (the check only
        # counts disagreements of cases without a failing clause); W itself shows on the cases that agree
        spec = []
    return spec, dis, None


def nontrivial(case, impl, resp):
    if case["op"] in _ext5.EXT_OPS:
        return _ext5.nontrivial(case, impl, resp)
    i = case["in"]
    if isinstance(impl, dict) and ("__error__" in impl or impl.get("nan")):
        return "__error__" in impl
    return i["shuffled"] or i["do_gc"] or i["do_edge"] or i["do_rmask"] or len(impl["rows"]) < len(i["tgt_f"]) + len(i["anti_f"])


def shrink(case):
    if case["op"] in _ext5.EXT_OPS:
        return
    i = case["in"]
    for key in ("tgt_f", "anti_f"):
        rows = i[key]
        step = max(1, len(rows) // 3)
        for a in range(0, len(rows), step):
            c = {"op": case["op"], "tag": "shrunk", "in": dict(i)}
            c["in"][key] = rows[:a] + rows[a + step:]
            if c["in"]["tgt_f"]:
                yield c
