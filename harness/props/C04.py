"""C04 -- fix subtracts the reference bin-for-bin by coordinate and normalises soundly."""
from __future__ import annotations

import math
from fractions import Fraction

from ..core import frac

LEVEL = "proof"
RULE = ("references (pooled or flat, +- gc / rmask columns, bad bins anywhere: log2 beyond +-5, spread > 1, depth 0, gc "
        "outside 0.3-0.7) over 1..4 chromosomes with interleaved target (100-400 bp) and antitarget (5-20 kb) bins; "
        "samples over all or ~90% of the bins, empty antitargets, every subset of {gc, edge, rmask}, sample rows in "
        "genomic or shuffled order, plus malformed inputs (bin missing from the reference, duplicated coordinates); "
        "each case is also re-run with permuted input rows and with a depth scale factor; one case in five goes through the "
        "command line (`cnvkit.py fix` on written .cnn files, --no-gc/--no-edge/--no-rmask), result read back from the .cnr. non-trivial = a bad bin "
        "was dropped or a correction was applied or rows were shuffled; distinct by hash")
EXHAUSTIVE = {"quick": False, "thorough": False}
ASSUMPTIONS = ["third-party numerics enter as parameters computed by the same library calls: numpy's seeded permutation "
               "(seed 0xA5EED), the rolling-median half-window (_width2wing of max(0.01, n**-0.5)), numpy sqrt of bin sizes, "
               "and the two squared biweight midvariances of the residuals (C19's subject)",
               "float evaluation of the edge-bias formulas may order two nearly equal keys differently from exact "
               "arithmetic (not observed; would show up as a disagreement, not a violation)"]
TRUSTED_EXTRA = ["numpy.random.permutation (MT19937) under a fixed seed", "pandas rolling(center=True).median"]
SC = ["chromosome", "start", "end", "gene", "log2", "depth"]


def _case(rng, big=False):
    chroms = ["chr1", "chr2", "chr3", "chrX"][: rng.randint(1, 4)]
    withgc, withrm = rng.random() < 0.6, rng.random() < 0.5
    flat = rng.random() < 0.2
    ref = []
    for c in chroms:
        pos = rng.randint(0, 5000)
        for i in range(rng.randint(4, 25) if not big else rng.randint(30, 120)):
            anti = rng.random() < 0.4
            sz = rng.randint(5000, 20000) if anti else rng.choice([rng.randint(100, 400), 120, 250, 500])
            if flat:
                lg = -1.0 if c == "chrX" and rng.random() < 0.5 else 0.0
                sp = 0.0
                dp = 1.0
            else:
                lg = rng.gauss(0, .5)
                if rng.random() < .05:
                    lg = rng.choice([-6.0, 5.5, -5.0, 5.0])
                sp = rng.choice([0.05, 0.2, 0.9, 1.0, 1.2, rng.uniform(0, 1)])
                dp = 2 ** lg if rng.random() > .03 else 0.0
            gc = rng.choice([rng.uniform(.25, .75), 0.3, 0.7, rng.uniform(.31, .69)]) if withgc else None
            rm = rng.uniform(0, 1) if withrm else None
            ref.append([c, pos, pos + sz, "Antitarget" if anti else "G%d" % (i // 4), lg, dp, gc, rm, sp])
            pos += sz + rng.choice([0, 0, rng.randint(1, 200), rng.randint(200, 3000)])
    keep = [r for r in ref if rng.random() < .9]
    samp = []
    for r in keep:
        lg = rng.gauss(3, .6) if rng.random() > .05 else -20.0
        samp.append([r[0], r[1], r[2], r[3], lg, (2 ** lg if lg > -20 else 0.0)])
    tgt = [r for r in samp if r[3] != "Antitarget"]
    anti = [r for r in samp if r[3] == "Antitarget"] if rng.random() < .8 else []
    shuffled = rng.random() < 0.5
    if shuffled:
        rng.shuffle(tgt)
        rng.shuffle(anti)
        if rng.random() < 0.5:
            rng.shuffle(ref)
    corr = rng.choice([(False, False, False), (True, True, True), (True, False, False), (False, True, False),
                       (False, False, True), (True, True, False), (True, False, True), (False, True, True)])
    bad = None
    k = rng.random()
    if k < 0.04 and tgt:
        bad = "missing"
        t = list(tgt[0])
        t[1] += 1
        tgt = [t] + tgt[1:]
    elif k < 0.07 and len(tgt) > 1:
        bad = "dup_sample"
        tgt = tgt + [list(tgt[0])]
    elif k < 0.10 and len(ref) > 1:
        bad = "dup_ref"
        ref = ref + [list(ref[0])]
    cli = rng.random() < 0.2
    if cli:
        # the .cnn files carry 6 significant digits: use inputs that survive the round trip exactly
        r6 = lambda v: v if v is None else float("%.6g" % v)
        ref = [r[:4] + [r6(v) for v in r[4:]] for r in ref]
        tgt = [r[:4] + [r6(v) for v in r[4:]] for r in tgt]
        anti = [r[:4] + [r6(v) for v in r[4:]] for r in anti]
    return {"op": "fix", "tag": ("cli-" if cli else "") + ("shuffled-" if shuffled else "sorted-") + ("flat" if flat else "pooled") + ("-" + bad if bad else ""),
            "in": {"tgt_f": tgt, "anti_f": anti, "ref_f": ref, "do_gc": corr[0], "do_edge": corr[1], "do_rmask": corr[2],
                   "par": None, "shuffled": shuffled, "scale": rng.choice([1.0, 2.0, -3.5, 0.37]), "pseed": rng.randint(0, 10 ** 6), "cli": cli}}


def gen_cases(rng, tier):
    n = {"quick": 160, "thorough": 1600, "search": 300}[tier]
    return [_case(rng, big=(k % 4 == 0)) for k in range(n)]


def corpus():
    import random
    rng = random.Random(44)
    c = _case(rng)
    while not (c["in"]["anti_f"] and "-" not in c["tag"].split("-", 2)[-1:] and len(c["in"]["tgt_f"]) > 6):
        c = _case(rng)
    # finding D: shuffled sample, empty antitargets, a correction on
    c["in"]["anti_f"] = []
    rng.shuffle(c["in"]["tgt_f"])
    c["in"].update(do_gc=False, do_edge=True, do_rmask=False, shuffled=True, cli=False)
    c["tag"] = "corpus-D"
    return [c]


def _cna(rows, cols):
    from cnvlib.cnary import CopyNumArray as CNA
    return CNA.from_rows([tuple(r) for r in rows], columns=cols, meta_dict={"sample_id": "s"})


def _ref(rows):
    cols = ["chromosome", "start", "end", "gene", "log2", "depth", "gc", "rmask", "spread"]
    ref = _cna(rows, cols)
    drop = [c for c, idx in (("gc", 6), ("rmask", 7)) if rows and rows[0][idx] is None]
    if drop:
        ref = ref.keep_columns([c for c in cols if c not in drop])
    return ref


def _fix_cli(i, tgt, anti, ref):
    """the same computation through the command line: write the three tables, run `cnvkit.py fix`, read the .cnr"""
    import os
    import shutil
    import tempfile
    import logging
    from cnvlib import commands
    from cnvlib.cmdutil import read_cna
    from skgenome import tabio
    d = tempfile.mkdtemp(prefix="c04cli", dir="/var/tmp")
    try:
        ft, fa, fr, fo = (os.path.join(d, n) for n in ("s.targetcoverage.cnn", "s.antitargetcoverage.cnn", "ref.cnn", "s.cnr"))
        tabio.write(_cna(tgt, SC), ft)
        tabio.write(_cna(anti, SC), fa)
        tabio.write(_ref(ref), fr)
        argv = ["fix", ft, fa, fr, "-o", fo]
        argv += [] if i["do_gc"] else ["--no-gc"]
        argv += [] if i["do_edge"] else ["--no-edge"]
        argv += [] if i["do_rmask"] else ["--no-rmask"]
        # the .cnr is written with 6 significant digits (C08's subject): take the table the command hands to the
        # writer, and check separately that the file read back agrees with it to that precision
        captured = []

        class _Tab:
            def __getattr__(self, name):
                return getattr(tabio, name)

            def write(self, garr, outfname=None, *a, **k):
                captured.append(garr)
                return tabio.write(garr, outfname, *a, **k)
        saved = commands.tabio
        commands.tabio = _Tab()
        logging.disable(logging.CRITICAL)
        try:
            args = commands.parse_args(argv)
            args.func(args)
        finally:
            logging.disable(logging.NOTSET)
            commands.tabio = saved
        if len(captured) != 1 or not os.path.exists(fo):
            raise AssertionError("cnvkit.py fix did not write exactly one table to the requested output")
        back = read_cna(fo)
        out = captured[0]
        if len(back) != len(out) or any(
                (str(a.chromosome), int(a.start), int(a.end), str(a.gene)) != (str(b.chromosome), int(b.start), int(b.end), str(b.gene))
                or abs(a.log2 - b.log2) > 1e-5 * max(1, abs(b.log2)) for a, b in zip(back, out) if b.log2 == b.log2):
            raise AssertionError("the written .cnr does not read back as the table fix computed")
        return out
    finally:
        shutil.rmtree(d, ignore_errors=True)


def _run(i, tgt, anti, ref, record=None):
    from cnvlib import fix, descriptives
    if i.get("cli"):
        do = lambda: _fix_cli(i, tgt, anti, ref)
    else:
        do = lambda: fix.do_fix(_cna(tgt, SC), _cna(anti, SC), _ref(ref), do_gc=i["do_gc"], do_edge=i["do_edge"],
                                do_rmask=i["do_rmask"])
    if record is not None:
        # the two residual spreads are third-party numerics (biweight midvariance, C19): capture the values
        # apply_weights actually obtains (the estimator switches to a MAD fallback on exactly symmetric data,
        # so recomputing it from the output can differ by a float knife-edge)
        real = descriptives.biweight_midvariance

        class _Rec:
            def __getattr__(self, name):
                return getattr(descriptives, name)

            def biweight_midvariance(self, *a, **k):
                v = real(*a, **k)
                record.append(float(v))
                return v
        saved = fix.descriptives
        fix.descriptives = _Rec()
        try:
            out = do()
        finally:
            fix.descriptives = saved
    else:
        out = do()
    d = out.data
    return out, [[str(d["chromosome"].iat[k]), int(d["start"].iat[k]), int(d["end"].iat[k]), str(d["gene"].iat[k]),
                  float(d["log2"].iat[k]), float(d["weight"].iat[k])] for k in range(len(d))]


def run_impl(case):
    import random
    import numpy as np
    from cnvlib import descriptives, smoothing
    i = case["in"]
    rec = []
    out, rows = _run(i, i["tgt_f"], i["anti_f"], i["ref_f"], record=rec)
    if any(math.isnan(r[4]) or math.isnan(r[5]) for r in rows):
        depth = {(r[0], r[1], r[2]): r[5] for r in i["tgt_f"] + i["anti_f"]}
        anti_rows = [r for r in rows if r[3] in ("Antitarget", "Background")]
        tgt_rows = [r for r in rows if r[3] not in ("Antitarget", "Background")]
        return {"nan": True, "live_t": sum(1 for r in tgt_rows if depth.get((r[0], r[1], r[2]), 0) > 0),
                "live_a": sum(1 for r in anti_rows if depth.get((r[0], r[1], r[2]), 0) > 0), "n_a": len(anti_rows)}
    # parameters (third-party numerics), recomputed with the same library calls
    is_anti = out["gene"].isin(("Antitarget", "Background"))
    nT, nA = int((~is_anti).sum()), int(is_anti.sum())

    def perm_wing(n):
        if n == 0:
            return [], 1
        np.random.seed(0xA5EED)
        p = [int(x) for x in np.random.permutation(np.arange(n))]
        fr = max(0.01, n ** -0.5)
        try:
            return p, int(smoothing._width2wing(fr, np.zeros(n)))
        except ValueError:  # n == 1: the fraction is 1.0, which rolling_median refuses
            return p, 1
    pT, wT = perm_wing(nT)
    pA, wA = perm_wing(nA)
    varT = rec[0] ** 2 if rec else 0.0
    varA = rec[1] ** 2 if len(rec) > 1 else 0.0
    # the doubles numpy computes for the edge-bias sort keys of the good target bins (they depend on the
    # coordinates only); the model orders ties / near-ties by these and checks them against its exact formula
    edge_keys = []
    if i["do_edge"] and nT:
        from cnvlib import fix, params
        tg_sorted = out[~is_anti].copy()
        tg_sorted.sort()
        edge_keys = [frac(float(v)) for v in fix.get_edge_bias(tg_sorted, params.INSERT_SIZE)]
    sq = [[r[0], r[1], r[2], frac(float(np.sqrt(np.int64(r[2] - r[1]))))] for r in i["tgt_f"] + i["anti_f"]]
    res = {"rows": [[r[0], r[1], r[2], r[3], frac(r[4]), frac(r[5])] for r in rows],
           "permT": pT, "wingT": wT, "permA": pA, "wingA": wA,
           "edge_keys": edge_keys, "varT": frac(varT) if math.isfinite(varT) else "0", "varA": frac(varA) if math.isfinite(varA) else "0", "sqrt": sq}
    # metamorphic variants: permuted rows of every input; depth rescaled (constant added to the sample's log2)
    prng = random.Random(i["pseed"])
    t2, a2, r2 = list(i["tgt_f"]), list(i["anti_f"]), list(i["ref_f"])
    prng.shuffle(t2), prng.shuffle(a2), prng.shuffle(r2)
    ia = dict(i, cli=False)  # metamorphic re-runs go through the API (the files carry only 6 significant digits)
    _o, rows_p = _run(ia, t2, a2, r2)
    res["perm_same"] = _same(rows, rows_p)
    c = i["scale"]

    def scaled(rows_):
        return [r[:4] + [r[4] + c if r[5] > 0 else r[4], r[5] * 2 ** c] for r in rows_]
    # (a) on the bins that have coverage: every depth multiplied by 2**c must leave the output unchanged
    t0 = [r for r in i["tgt_f"] if r[5] > 0]
    a0 = [r for r in i["anti_f"] if r[5] > 0]
    res["scale_same"] = True
    if len(t0) >= 2:
        try:
            _o, rows_0 = _run(ia, t0, a0, i["ref_f"])
            _o, rows_s0 = _run(ia, scaled(t0), scaled(a0), i["ref_f"])
            res["scale_same"] = _same(rows_0, rows_s0)
        except ValueError as e:
            if "width must be" not in str(e):
                raise
    # (b) faithful rescale with the zero-coverage bins left at the sentinel (they have no reads to scale)
    _o, rows_s = _run(ia, scaled(i["tgt_f"]), scaled(i["anti_f"]), i["ref_f"])
    null = {(r[0], r[1], r[2]) for r in i["tgt_f"] + i["anti_f"] if r[5] == 0}
    res["scale_same_null"] = _same([r for r in rows if tuple(r[:3]) not in null],
                                   [r for r in rows_s if tuple(r[:3]) not in null])
    return res


def _same(a, b):
    """True, or a description of the first difference.  Identical log2 values with different weights are NOT
    reported: the weights depend on the data only through the residual spread (biweight midvariance), which is
    discontinuous on exactly symmetric residuals (MAD fallback decided by whether a float sum is exactly 0, e.g.
    any chromosome with exactly two bins) -- with identical log2 the residuals are identical, so a weight
    difference can only come from that fallback flipping under float rounding (C19's documented discontinuity)."""
    if len(a) != len(b):
        return f"row count {len(a)} vs {len(b)}"
    for x, y in zip(a, b):
        if x[:4] != y[:4]:
            return f"rows differ {x[:4]} vs {y[:4]}"
        if abs(x[4] - y[4]) > 1e-7 * max(1, abs(x[4])):
            return f"log2 differs at {x[:3]}: {x[4]} vs {y[4]}"
    return True


def _rows_json(rows, n):
    return [[r[0], r[1], r[2], r[3]] + [None if v is None else frac(v) for v in r[4:n]] for r in rows]


def to_line(case, impl):
    i = case["in"]
    base = {"tgt": _rows_json(i["tgt_f"], 6), "anti": _rows_json(i["anti_f"], 6), "ref": _rows_json(i["ref_f"], 9),
            "do_gc": i["do_gc"], "do_edge": i["do_edge"], "do_rmask": i["do_rmask"], "par": i["par"]}
    if isinstance(impl, dict) and ("__error__" in impl or impl.get("nan")):
        base.update(permT=[], wingT=1, permA=[], wingA=1, varT="0", varA="0", sqrt=[])
        return {"op": "fix", "in": base}
    base.update({k: impl[k] for k in ("permT", "wingT", "permA", "wingA", "varT", "varA", "sqrt")})
    if impl.get("edge_keys"):
        base["edge_keys"] = impl["edge_keys"]
    return {"op": "fix", "in": base, "impl": impl["rows"]}


def classify_null_bins(case, impl, resp):
    """finding W: zero-coverage bins stay at the -20 sentinel whatever the depth; they take part in the
    antitarget centring (skip_low=False) and in the rolling medians of the corrections, so the result depends
    (slightly, or grossly on tiny tables) on the depth scale"""
    return any(r[5] == 0 for r in case["in"]["anti_f"] + case["in"]["tgt_f"])


def classify_single_bin_class(case, impl, resp):
    """finding X: a class (targets or antitargets) with exactly one usable bin makes the smoothing fraction
    max(0.01, n**-0.5) = 1.0, which rolling_median rejects"""
    return (isinstance(impl, dict) and impl.get("__error__") == "ValueError" and "width must be" in impl.get("msg", "")
            and "(got 1.0)" in impl.get("msg", ""))


def judge(case, impl, resp):
    if isinstance(impl, dict) and impl.get("nan"):
        # a class of emitted bins with fewer than two bins that have any coverage has no residual spread to
        # estimate (biweight midvariance of <= 1 value): the weights are undefined there by construction
        if impl.get("live_t", 0) < 2 or (impl.get("n_a", 0) > 0 and impl.get("live_a", 0) < 2):
            return [], [], "degenerate: a class with fewer than two emitted bins that have any coverage"
        return ["weight_in_range"], [], None
    if "error" in resp:
        return [], ["model error: " + resp["error"]], None
    out = resp["out"]
    model_err = isinstance(out, dict) and "error_kind" in out
    if isinstance(impl, dict) and "__error__" in impl:
        if model_err and impl["__error__"] == "ValueError" and "width must be" not in impl.get("msg", ""):
            return [], [], None  # refuses a missing / duplicated bin, as the property demands
        return ["raises_" + impl["__error__"]], [], None
    if model_err:
        return ["fix_rejects_missing_or_duplicated"], [], None
    spec = list(resp.get("spec") or [])
    if impl["perm_same"] is not True:
        spec.append("permutation_invariant")
    if impl["scale_same"] is not True:
        spec.append("depth_scale_invariant")
    if impl["scale_same_null"] is not True:
        spec.append("depth_scale_invariant_with_null_bins")
    dis = []
    rows = impl["rows"]
    if "edge_key_dev" in resp and Fraction(resp["edge_key_dev"]) > Fraction(1, 10 ** 9):
        dis.append(f"edge-bias keys: real doubles deviate from the exact formula by {float(Fraction(resp['edge_key_dev']))}")
    if len(out) != len(rows):
        dis.append(f"row count model {len(out)} impl {len(rows)}")
    else:
        for k, (m, r) in enumerate(zip(out, rows)):
            if m[:4] != r[:4]:
                dis.append(f"row {k}: model {m[:4]} impl {r[:4]}")
                break
            for idx, name in ((4, "log2"), (5, "weight")):
                a, b = float(Fraction(r[idx])), float(Fraction(m[idx]))
                if abs(a - b) > 1e-7 * max(1, abs(b)):
                    dis.append(f"row {k} {name}: model {b} impl {a}")
                    break
            if dis:
                break
    return spec, dis, None


def nontrivial(case, impl, resp):
    i = case["in"]
    if isinstance(impl, dict) and ("__error__" in impl or impl.get("nan")):
        return "__error__" in impl
    return i["shuffled"] or i["do_gc"] or i["do_edge"] or i["do_rmask"] or len(impl["rows"]) < len(i["tgt_f"]) + len(i["anti_f"])


def shrink(case):
    i = case["in"]
    for key in ("tgt_f", "anti_f"):
        rows = i[key]
        step = max(1, len(rows) // 3)
        for a in range(0, len(rows), step):
            c = {"op": case["op"], "tag": "shrunk", "in": dict(i)}
            c["in"][key] = rows[:a] + rows[a + step:]
            if c["in"]["tgt_f"]:
                yield c
