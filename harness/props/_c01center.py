"""C01 round 5c — op `cmd_call_center`: `cnvkit.py call --center median|mean|mode|biweight` (no `--center-at`).

The command is run as for op `cmd_call`; the table `center_all` leaves behind is recomputed with the real
`CopyNumArray.center_all(name, diploid_parx_genome=...)` on the rows as the command read them (`rows_shift`: float log2 and
its antilog).  The Lean driver centres the rows with the model (`C01Ctr.centerRows`: C15's `centerAll` with by_chrom=True,
skip_low=False; median / mean exact, mode / biweight with the estimate as oracle), compares every centred log2 with
`rows_shift` at 1e-9 and calls the centred table (theorem `ctr_center_then_call_is_call_of_shifted`)."""
from __future__ import annotations

import os
import shutil
import tempfile

from ..core import frac
from . import _call as K

ESTIMATORS = ["median", "mean", "mode", "biweight"]
OP = "cmd_call_center"


def center_case(rng, k, table):
    name = ESTIMATORS[k % 4]
    kind = ["plain", "par", "sexonly", "plain", "bad", "plain"][(k // 4) % 6]
    force = {"method": "clonal", "par": rng.choice([None, "grch38"])}
    force["purity"] = rng.choice([0.25, 0.3, 0.5, 0.75, 0.9, 1.0, None, None, round(rng.uniform(0.05, 0.95), 2)])
    if kind == "par":
        force["par"] = rng.choice(["grch37", "grch38"])
        force["classes"] = ["auto", "auto", "x", "parx", "parx", "y"]
    elif kind == "sexonly":
        force["classes"] = ["x", "y"]
    elif kind == "bad":
        force["purity"] = rng.choice([1.5, -0.25, 2.0])
    c = table(rng, rng.choice([1, 4, 12, 30]), force=force)
    i = c["in"]
    c["op"] = OP
    i["cli"] = True
    sex = rng.choice(K.SEX_FEMALE if i["female"] else K.SEX_MALE)
    off = rng.choice([0.0, 0.5, -0.75, round(rng.uniform(-2, 2), 3)])
    i["log2_f"] = [lg + off for lg in i["log2_f"]]
    i["rows"] = [[r[0], r[1], r[2], frac(lg), frac(2.0 ** lg), r[5]] for r, lg in zip(i["rows"], i["log2_f"])]
    i["cli_opts"] = {"implicit": rng.random() < 0.5, "sex": sex, "sex_flag": rng.choice(["-x", "--sample-sex"]),
                     "hapx_flag": rng.choice(["-y", "--male-reference"]), "center": name}
    i["keep_n"] = False  # n belongs to the uncentred log2; the model is compared
    c["tag"] = "cmd-center-" + name + "-" + kind
    return c


def _centered(i, cli_rows, name):
    """the log2 column after the real `center_all`, on the rows exactly as the command read them"""
    from cnvlib.cmdutil import read_cna
    os.makedirs("/var/tmp/verif-call", exist_ok=True)
    d = tempfile.mkdtemp(dir="/var/tmp/verif-call")
    try:
        fn = os.path.join(d, "S.cns")
        with open(fn, "w") as fh:
            fh.write("chromosome\tstart\tend\tgene\tlog2\n")
            for c, s, e, lg, _b in cli_rows:
                fh.write(f"{c}\t{s}\t{e}\t-\t{lg!r}\n")
        cna = read_cna(fn)
        cna.center_all(name, diploid_parx_genome=i["par"])
        return [float(x) for x in cna["log2"]]
    finally:
        shutil.rmtree(d, ignore_errors=True)


def run_impl(case):
    res = K.run_impl(dict(case, op="cmd_call"))
    if isinstance(res, dict) and "cli_rows" in res:
        res["centered_log2"] = _centered(case["in"], res["cli_rows"], case["in"]["cli_opts"]["center"])
    return res


def to_line(case, impl, cmd_to_line):
    line = cmd_to_line(dict(case, op="cmd_call"), impl)
    line["op"] = OP
    if isinstance(impl, dict) and "centered_log2" in impl:
        line["in"]["rows_shift"] = [[r[0], r[1], r[2], frac(lg), frac(2.0 ** lg), r[5]]
                                    for r, lg in zip(line["in"]["rows"], impl["centered_log2"])]
    return line


def judge(case, impl, resp, judge_cmd):
    bad = resp.get("center_bad") if isinstance(resp, dict) else None
    if bad:
        k = bad[0]
        return [], [f"--center {case['in']['cli_opts']['center']}: centred log2 of row {k} differs: center_all left "
                    f"{impl['centered_log2'][k]!r}, the model takes off {resp.get('center_const')}"], None
    return judge_cmd(dict(case, op="cmd_call"), impl, resp)
