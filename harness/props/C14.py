"""C14 -- segment filters merge only adjacent like segments and conserve what they merge."""
from __future__ import annotations

import itertools
import math
from fractions import Fraction

from ..core import frac
from . import _c14ext5

LEVEL = "proof"
RULE = ("segment tables of 1..6 chromosomes (either naming style, any order) x 1..30 segments (runs of equal level of random "
        "length, gaps between segments, zero weights, optional allele-specific cn1/cn2, ci/sem straddling 0) through "
        "segfilters.cn/ci/sem/ampdel directly and through do_call(method=threshold, filters=<every ordered list of distinct "
        "filters with at most one of ci/sem>); about 8 % of the cases go through the command line instead (`cnvkit.py call` on a "
        "written .cns carrying ci_lo/ci_hi/sem and, half the time each, depth / p_bintest / (where the un-filtered call is a "
        "parameter) baf, columns in file order or shuffled: every such filter list as repeated --filter in order, -m threshold "
        "explicit or left to the parser's default, -t= custom thresholds of 3..8 levels or the default, --ploidy given or "
        "default, -y on/off; -m none with --filter ci|sem; -m clonal and -v VCF with --filter cn|ampdel, the un-filtered calls "
        "entering the model as parameters).  REPRESENTATIONS (`rep:` / `rep-call:` / `api-*:` cases, a quarter of the total; "
        "key rep_f, invisible to the model): pandas index default / filtered subset of a larger table (junk rows masked away) / "
        "shifted (tail of a larger table) / labels restarting on each chromosome (non-unique: do_call's index reset) -- the "
        "non-default ones only where /repo holds today, see LABELS_REPAIRED; extra columns depth, baf, p_bintest (every branch "
        "of squash_region); columns shuffled; weight column of dtype int64; no probes column (each row one probe); "
        "squash_by_groups(by_arm=True) (no arms at <= 30 segments: must equal the cn filter); do_call called positionally or "
        "with keywords only where the value differs from do_call's own defaults (two cases in five: nothing but filters=), "
        "filters as list or tuple, the caller's list required to come back unchanged; do_call through the API with ONE "
        "filter and method none (ci|sem), clonal, threshold/clonal with purity 0.3..0.95 or 1.0, a baf column in the table "
        "(cn1/cn2 derived by do_call), the un-filtered call with the same arguments entering the model as the table; "
        "ROUND 4 (ops filter_chain / do_call_pipe, the model's Filt.run / runChain / doCallFiltersE): chains of 1..3 filters "
        "(repeats allowed) applied directly, segfilters.F1 then F2 ..., on tables whose optional column groups cn / cn1+cn2 / "
        "ci_lo+ci_hi / sem are present or absent (require_column refusals, the columns a squash drops), 30 % with missing "
        "(NaN) ci / sem values in a present column; `chain-amp` tables of amplified / deleted runs with unequal cn and weights "
        "from {0, 1, 2} (exact half-weight ties: the weighted-median cn of an ampdel run is often k + 1/2) through "
        "ampdel->cn, cn->ampdel, ampdel, ampdel->cn->ampdel; do_call(method threshold | none) with ANY filter list: both "
        "ci and sem (refused), repeated names, method none with a cn-based filter (refused); "
        "non-trivial = some run of >= 2 mergeable neighbours exists (or the call is refused); distinct by hash")
EXHAUSTIVE = {"quick": False, "thorough": False}
ASSUMPTIONS = ["rows grouped by chromosome (each chromosome's rows contiguous; the chromosomes in any order)",
               "row labels: the command line and batch hand over tables labelled 0..n-1; for tables with other labels (filtered "
               "subsets, repeated labels) only `cn` and do_call's reset of repeated labels before the post-call filters are "
               "checked until the open defect proposed_fixes/C14-filter-row-labels.md is repaired in /repo (ci/sem/ampdel lose rows there)",
               "cn present (not NaN) wherever a cn-based filter reads it -- do_call writes integer calls; ci / sem may be missing (NaN: neutral)",
               "needs proposed_fixes/C14-fractional-levels-merged.diff applied to /repo (enumerate_changes counts the changes): until "
               "then the corpus witness `corpus-fractional-level` and the `chain-amp` cases report chain_runs_squashed",
               "where the property's wording itself is a refusal (a required column missing, e.g. a list with both ci and sem) no spec "
               "clause is evaluated: the refusal and the filter it names are compared with the model only",
               "the weighted median of unequal cn values inside an ampdel run is computed with C19's model of weighted_median on the "
               "pairs sorted by value (tie order unobservable: C19 wmedian_tie_order_unobservable)"]
TRUSTED_EXTRA = ["pandas groupby(sort=False)/apply ordering, np.average"]
FILTERS = ("cn", "ci", "sem", "ampdel")
DEFAULT_THR = (-1.1, -0.25, 0.2, 0.7)
BASE_COLS = ["chromosome", "start", "end", "gene", "log2", "probes", "weight"]


def _levels_runs(rng, n, values):
    out = []
    while len(out) < n:
        out += [rng.choice(values)] * rng.randint(1, 4)
    return out[:n]


def _table(rng, small=False):
    nchrom = rng.randint(1, 3 if small else 6)
    style = rng.choice(["chr", ""])
    names = rng.sample([style + str(i) for i in range(1, 23)] + [style + "X", style + "Y"], nchrom)
    has_cn1 = rng.random() < 0.3
    rows = []
    for c in names:
        n = rng.randint(1, 5 if small else 30)
        pos = rng.randint(0, 10 ** 5)
        cns = _levels_runs(rng, n, [0, 1, 2, 2, 2, 3, 4, 5, 6, 8])
        cilv = _levels_runs(rng, n, [-1, 0, 0, 1])
        for k in range(n):
            pos += rng.choice([0, 0, rng.randint(1, 10 ** 4)])
            ln = rng.randint(1, 10 ** 6)
            lg = rng.choice([rng.uniform(-3, 0.69), float(rng.randint(-4, 0)), round(rng.uniform(-2, 0.6), 2)])
            w = rng.choice([0.0, 0.0, 1.0, 0.5, rng.uniform(0, 40), float(rng.randint(1, 300))]) if rng.random() < 0.5 else rng.uniform(0.1, 50)
            probes = rng.randint(1, 400)
            cn = cns[k]
            cn1 = cn2 = None
            if has_cn1:
                cn1 = rng.choice([cn, (cn + 1) // 2, cn // 2 + (1 if cn > 2 and rng.random() < 0.5 else 0)])
                cn1 = min(cn, cn1)
                cn2 = cn - cn1
                if cn > 0 and rng.random() < 0.2:
                    cn1 = cn2 = None  # segment without BAF: do_call leaves both missing
            lv = cilv[k]
            wd = rng.uniform(0.01, 1)
            if lv == 1:
                lo, hi = rng.uniform(0.001, 1), None
            elif lv == -1:
                lo, hi = None, -rng.uniform(0.001, 1)
            else:
                lo, hi = -rng.uniform(0, 1), rng.uniform(0, 1)
            lo = hi - wd if lo is None else lo
            hi = lo + wd if hi is None else hi
            sem = rng.choice([0.0, abs(lg) / 1.96, rng.uniform(0, 1), abs(lg) / 3, abs(lg)])
            rows.append([c, pos, pos + ln, rng.choice(["A", "B", "C,D", "-"]), frac(lg), probes, frac(w),
                         frac(cn), None if cn1 is None else frac(cn1), None if cn2 is None else frac(cn2),
                         frac(lo), frac(hi), frac(sem)])
            pos += ln
    return rows, has_cn1


def corpus():
    r = lambda c, s, e, cn: [c, s, e, "G", "0", 10, "1", str(cn), None, None, "-1/10", "1/10", "1/20"]
    a = lambda s, e, c1, c2: ["chr1", s, e, "G", "0", 5, "1", "2", c1, c2, "-1/10", "1/10", "1/20"]
    w = lambda c, s, e, cn, lg: [c, s, e, "G", lg, 5, "1", str(cn), None, None, None, None, None]
    return [
        # finding T: a BAF-less segment used to bridge runs with different allele-specific copy numbers
        {"op": "segfilter", "tag": "corpus-T",
         "in": {"rows": [a(0, 10, "1", "1"), a(10, 20, None, None), a(20, 30, "2", "0")], "filter": "cn", "has_cn1": True}},
        {"op": "segfilter", "tag": "corpus-chrom-boundary",
         "in": {"rows": [r("chr1", 0, 10, 2), r("chr1", 10, 20, 2), r("chr2", 0, 10, 2), r("chr2", 20, 30, 3)],
                "filter": "cn", "has_cn1": False}},
        # proposed_fixes/C14-fractional-levels-merged: `ampdel` squashes cn 5 and 6 (equal weights) into their weighted
        # median 5.5; the `cn` filter that follows merged it with the cn-5 segment beyond the dropped neutral one
        {"op": "filter_chain", "tag": "corpus-fractional-level",
         "in": {"rows": [w("chr1", 0, 10, 5, "13/10"), w("chr1", 10, 20, 6, "8/5"), w("chr1", 20, 30, 2, "0"), w("chr1", 30, 40, 5, "13/10")],
                "cols": BASE_COLS + ["cn"], "filters": ["ampdel", "cn"]}},
        # a list holding both ci and sem: each consumes the columns the other needs -> ValueError from the second
        {"op": "do_call_pipe", "tag": "corpus-ci-and-sem",
         "in": {"rows": [r("chr1", 0, 10, 2)[:7] + [None, None, None] + r("chr1", 0, 10, 2)[10:],
                         r("chr1", 10, 20, 2)[:7] + [None, None, None] + r("chr1", 10, 20, 2)[10:]],
                "cols": BASE_COLS + ["ci_lo", "ci_hi", "sem"], "filters": ["sem", "cn", "ci"], "method": "threshold",
                "thr": [frac(t) for t in DEFAULT_THR], "thr_f": list(DEFAULT_THR), "ploidy": 2, "hapX": False}},
    ]


_corpus_r4 = corpus


def corpus():
    return _corpus_r4() + _c14ext5.corpus()


def gen_cases(rng, tier):
    n = {"quick": 300, "thorough": 3000, "search": 600}[tier]
    cases = []
    for k in range(n):
        rows, has_cn1 = _table(rng, small=(k % 3 == 0))
        for f in FILTERS:
            cases.append({"op": "segfilter", "tag": f, "in": {"rows": rows, "filter": f, "has_cn1": has_cn1}})
    # every ordered list of distinct filters holding at most one of ci/sem, through do_call
    lists = []
    for k in range(1, 4):
        for combo in itertools.permutations(FILTERS, k):
            if not ({"ci", "sem"} <= set(combo)):
                lists.append(list(combo))
    m = {"quick": 2, "thorough": 12, "search": 2}[tier]
    for fl in lists:
        for _ in range(m):
            rows, _h = _table(rng, small=rng.random() < 0.5)
            rows = [r[:7] + [None, None, None] + r[10:] for r in rows]
            cases.append({"op": "call_filters", "tag": "call:" + "+".join(fl),
                          "in": {"rows": rows, "filters": fl, "thr": [frac(t) for t in DEFAULT_THR],
                                 "thr_f": list(DEFAULT_THR), "ploidy": rng.choice([2, 2, 3, 4]), "hapX": rng.random() < 0.5}})
    # the same pipelines through the command line (`cnvkit.py call ... --filter F ...`), appended so that the cases
    # above keep their random stream
    mc = {"quick": 4, "thorough": 40, "search": 4}[tier]
    for fl in lists:
        for _ in range(mc):
            cases.append(_cli_case(rng, "call_filters", fl, None))
    me = {"quick": 12, "thorough": 80, "search": 12}[tier]
    for kind, f in (("none", "ci"), ("none", "sem"), ("clonal", "cn"), ("clonal", "ampdel"), ("vcf", "cn")):
        for _ in range(me):
            cases.append(_cli_case(rng, "segfilter", [f], kind))
    # other representations / call styles / doors (own random stream: the cases above keep theirs)
    import random
    cases += _rep_cases(random.Random(rng.randrange(10 ** 9)), tier)
    cases += _chain_cases(random.Random(rng.randrange(10 ** 9)), tier)
    # round 5: every column of the merged row (own random stream)
    cases += _c14ext5.gen(random.Random(rng.randrange(10 ** 9)), tier)
    return cases


# ---------------------------------------------------------------------------------------------------------------
# round 4: chains of filters applied directly (guards, dropped columns, fractional weighted-median cn handed from
# `ampdel` to `cn`), and do_call with ANY filter list (both ci and sem, repeated names, method none + cn filter)

def _table_amp(rng):
    """amplified / deleted runs of unequal cn with weights from {1, 2}: exact half-weight ties, so that the weighted
    median of an ampdel run is often k + 1/2; neutral singletons between them"""
    rows = []
    for c in rng.sample(["chr1", "chr2", "chr7", "chrX"], rng.randint(1, 3)):
        pos = rng.randint(0, 1000)
        for _ in range(rng.randint(2, 9)):
            kind = rng.choice(["amp", "amp", "amp", "del", "neutral"])
            for _k in range(1 if kind == "neutral" else rng.randint(1, 4)):
                cn = {"amp": rng.choice([5, 5, 6, 6, 7, 9]), "del": 0, "neutral": rng.choice([1, 2, 3, 4])}[kind]
                ln = rng.randint(1, 1000)
                pos += rng.choice([0, rng.randint(1, 50)])
                rows.append([c, pos, pos + ln, rng.choice(["A", "B", "-"]), frac(float(rng.randint(-8, 8)) / 4), rng.randint(1, 50),
                             frac(float(rng.choice([1, 1, 1, 2, 0]))), frac(cn), None, None, None, None, None])
                pos += ln
    return rows


def _cols_for(rng, rows, has_cn1, drop=0.0):
    cols = list(BASE_COLS)
    for grp in (["cn"], ["cn1", "cn2"] if has_cn1 else [], ["ci_lo", "ci_hi"], ["sem"]):
        if grp and rng.random() >= drop:
            cols += grp
    if "cn1" in cols and "cn" not in cols:
        cols = [c for c in cols if c not in ("cn1", "cn2")]
    return cols


def _blank(rows, cols):
    idx = {"cn": 7, "cn1": 8, "cn2": 9, "ci_lo": 10, "ci_hi": 11, "sem": 12}
    return [[(None if (k >= 7 and not any(idx[c] == k for c in cols if c in idx)) else v) for k, v in enumerate(r)] for r in rows]


def _chain_cases(rng, tier):
    cases = []
    n = {"quick": 120, "thorough": 1200, "search": 300}[tier]
    for k in range(n):
        rows = _table_amp(rng)
        fl = rng.choice([["ampdel", "cn"], ["ampdel", "cn"], ["cn", "ampdel"], ["ampdel"], ["ampdel", "cn", "ampdel"]])
        cases.append({"op": "filter_chain", "tag": "chain-amp:" + "+".join(fl),
                      "in": {"rows": rows, "cols": BASE_COLS + ["cn"], "filters": fl}})
    m = {"quick": 150, "thorough": 1500, "search": 150}[tier]
    for k in range(m):
        rows, has_cn1 = _table(rng, small=rng.random() < 0.6)
        fl = [rng.choice(FILTERS) for _ in range(rng.choice([1, 2, 2, 3]))]
        cols = _cols_for(rng, rows, has_cn1, drop=rng.choice([0.0, 0.0, 0.3]))
        rows = _blank(rows, cols)
        nan = rng.random() < 0.3
        if nan:
            # missing (NaN) segmetrics values in a column that is present: 1-bin segments have no sem, a failed
            # bootstrap no ci -- every comparison with NaN is False, the row is neutral
            for r in rows:
                for k in (10, 11, 12):
                    if rng.random() < 0.25:
                        r[k] = None
        cases.append({"op": "filter_chain", "tag": ("chain-nan:" if nan else "chain:") + "+".join(fl),
                      "in": {"rows": rows, "cols": cols, "filters": fl}})
    q = {"quick": 120, "thorough": 1200, "search": 120}[tier]
    for k in range(q):
        rows, _h = _table(rng, small=rng.random() < 0.6)
        kind = rng.choice(["both", "any", "any", "repeat", "none"])
        if kind == "both":
            fl = rng.sample(FILTERS, rng.choice([2, 3, 4]))
            for f in ("ci", "sem"):
                if f not in fl:
                    fl.insert(rng.randrange(len(fl) + 1), f)
        elif kind == "repeat":
            fl = [rng.choice(FILTERS) for _ in range(rng.choice([2, 3]))]
        else:
            fl = rng.sample(FILTERS, rng.choice([1, 2, 3]))
        method = "none" if kind == "none" else "threshold"
        cols = BASE_COLS + [c for grp in (["ci_lo", "ci_hi"], ["sem"]) if rng.random() < 0.85 for c in grp]
        cases.append({"op": "do_call_pipe", "tag": "pipe-" + kind + ":" + "+".join(fl),
                      "in": {"rows": _blank(rows, cols), "cols": cols, "filters": fl, "method": method,
                             "thr": [frac(t) for t in DEFAULT_THR], "thr_f": list(DEFAULT_THR),
                             "ploidy": rng.choice([2, 2, 3, 4]), "hapX": rng.random() < 0.5}})
    return cases


def _raises(e):
    """the outcome `raises` for the ValueError of a `require_column` guard (its message names the filter first)"""
    msg = str(e)
    if "filter requires column" not in msg:
        raise e
    return {"raises": msg.split("'")[1]}


def _run_chain(i):
    from cnvlib import segfilters
    arr = _cna(i["rows"], [c for c in i["cols"] if c not in BASE_COLS])
    try:
        for f in i["filters"]:
            arr = getattr(segfilters, f)(arr)
    except ValueError as e:
        return _raises(e)
    return {"rows": _rows_out(arr)}


def _run_pipe(i):
    from cnvlib import call
    arr = _cna(i["rows"], [c for c in i["cols"] if c not in BASE_COLS])
    fl = list(i["filters"])
    try:
        out = call.do_call(arr, None, i["method"], i["ploidy"], None, i["hapX"], False, None, fl, tuple(i["thr_f"]))
    except ValueError as e:
        return _raises(e)
    if fl != list(i["filters"]):
        raise AssertionError("do_call changed the caller's filter list")
    return {"rows": _rows_out(out)}


def _cli_case(rng, op, fl, kind):
    """a case that reaches the filters through `cnvkit.py call`.  op = call_filters: -m threshold, the whole pipeline
    is the model's.  op = segfilter: one filter after `-m none` (no calls at all), `-m clonal` or `-v VCF` (the
    un-filtered calls, C01/C02/C18's subject, enter the model as the table's cn/cn1/cn2 columns)."""
    rows, _h = _table(rng, small=rng.random() < 0.5)
    rows = [r[:7] + [None, None, None] + r[10:] for r in rows]
    # columns written to the .cns: those the filters need, sometimes the others too
    need = [c for f, cs in (("ci", ["ci_lo", "ci_hi"]), ("sem", ["sem"])) if f in fl for c in cs]
    cols = [c for c in ("ci_lo", "ci_hi", "sem") if c in need or rng.random() < 0.5]
    opt_t = rng.random() < 0.6
    if opt_t:
        # 3..8 levels, the last one above every log2 of the table (the model never consults the ratio 2^log2); the
        # half-hundredths keep them off the two-decimal log2 values of the table (knife-edge rule)
        # (up to 8 levels: an ampdel run may then squash unequal calls, e.g. 5 and 6, into their weighted median,
        # which the model computes with C19's weighted-median model and hands on to a following cn filter)
        k = rng.randint(3, 8)
        thr = sorted(rng.choice([round(rng.uniform(-3, 0.6), 2) + 0.005, rng.uniform(-2.5, 0.65)]) for _ in range(k - 1))
        thr.append(rng.choice([0.7, 0.75, 1.0, rng.uniform(0.7, 2)]))
    else:
        thr = list(DEFAULT_THR)
    opt_ploidy = rng.random() < 0.6
    ploidy = rng.choice([1, 2, 3, 4, 6]) if opt_ploidy else 2
    i = {"rows": rows, "cols": cols, "thr": [frac(t) for t in thr], "thr_f": thr, "opt_t": opt_t, "ploidy": ploidy,
         "opt_ploidy": opt_ploidy, "hapX": rng.random() < 0.5, "cli": True}
    # the .cns as the pipeline writes it: depth (segment), p_bintest (bintest), baf (segment -v; only where the
    # un-filtered call enters the model as a parameter, since do_call derives cn1/cn2 from it), columns in any order
    # (drawn from its own stream so that the cases keep theirs)
    import random
    r2 = random.Random(len(rows) * 7919 + rows[0][1])
    i["rep_f"] = {"index": "default", "seed": r2.randrange(10 ** 6),
                  "extra": [c for c in (("depth", "p_bintest") if op == "call_filters" else EXTRAS) if r2.random() < 0.5],
                  "order": r2.randrange(10 ** 6) if r2.random() < 0.4 else None}
    if op == "call_filters":
        i.update(filters=list(fl), method=rng.choice(["threshold", None]))  # None: left to the parser's default
        tag = "cli-call:" + "+".join(fl)
    else:
        i.update(filter=fl[0], has_cn1=False, method={"none": "none", "clonal": "clonal", "vcf": rng.choice(["threshold", None])}[kind])
        if kind == "vcf":
            # heterozygous SNPs [chromosome, position, ref depth, alt depth] inside some of the segments
            snps = []
            for r in rows:
                for _ in range(rng.choice([0, 1, 1, 2, 3])):
                    dp = rng.randint(20, 120)
                    alt = rng.choice([dp // 2, rng.randint(1, dp - 1), rng.randint(dp // 3, 2 * dp // 3)])
                    snps.append([r[0], rng.randint(r[1], r[2] - 1), dp - alt, alt])
            i["snps"] = snps
        tag = "cli-" + kind + ":" + fl[0]
    return {"op": op, "tag": tag, "in": i}


# ---------------------------------------------------------------------------------------------------------------
# input REPRESENTATIONS (impl-only: the key `rep_f` never reaches the model -- row labels, extra columns, column
# order, dtypes and call styles carry no meaning for the property)

# OPEN DEFECT (not registered; see /verif/proposed_fixes/C14-filter-row-labels.md): ci / sem / ampdel build their
# level Series with fresh labels 0..n-1 while the chromosome ordinals carry the table's labels, so on a table whose
# labels are not 0..n-1 (any filtered subset, e.g. segments[segments.chromosome != "chrY"]) rows are silently lost or
# left unmerged; on duplicated labels they raise AssertionError.  Until /repo is repaired the generator keeps those
# index representations to the pipelines that hold on /repo: `cn` alone (labels kept throughout) and, for duplicated
# labels, do_call lists without ci/sem (do_call resets a non-unique index before the post-call filters).
# VERIF_C14_LABELS=1 switches all cells on (make it True once /repo is repaired).
import os as _os
LABELS_REPAIRED = True   # finding BB fixed in /repo (b643b5d): non-default row labels generated for every filter
INDEXES = ("default", "default", "subset", "shifted", "dup")
EXTRAS = ("depth", "baf", "p_bintest")


def _index_ok(index, pipeline, direct):
    """may this index representation be generated for this list of filters (direct = segfilters.F(arr) itself)?"""
    if index == "default" or LABELS_REPAIRED:
        return True
    if index == "dup":
        return not direct and not ({"ci", "sem"} & set(pipeline))
    return list(pipeline) == ["cn"]


def _gen_rep(rng, pipeline, direct, rows, extras=EXTRAS):
    index = rng.choice(INDEXES)
    if not _index_ok(index, pipeline, direct):
        index = "default"
    rep = {"index": index, "seed": rng.randrange(10 ** 6),
           "extra": [c for c in extras if rng.random() < 0.4],
           "order": rng.randrange(10 ** 6) if rng.random() < 0.5 else None}
    if all(Fraction(r[6]).denominator == 1 for r in rows) and rng.random() < 0.7:
        rep["intw"] = True      # weight column of dtype int64 (as a .cns whose weights are all whole reads back)
    if all(r[5] == 1 for r in rows):
        rep["noprobes"] = True  # no `probes` column: every row counts as one probe
    return rep


def _apply_rep(arr, rep):
    """the same table as `arr` in another representation"""
    if not rep:
        return arr
    import random
    import numpy as np
    import pandas as pd
    r = random.Random(rep["seed"])
    d = arr.data.copy()
    n = len(d)
    for c in rep.get("extra", ()):
        if c == "depth":
            d[c] = [round(r.uniform(0, 500), 3) for _ in range(n)]
        elif c == "baf":
            d[c] = [r.choice([float("nan"), 0.5, round(r.uniform(0, 1), 3)]) for _ in range(n)]
        else:
            d[c] = [r.choice([1.0, 1e-9, r.uniform(0, 1)]) for _ in range(n)]
    if rep.get("intw"):
        d["weight"] = d["weight"].astype("int64")
    if rep.get("noprobes"):
        d = d.drop(columns=["probes"])
    if rep.get("order") is not None:
        cols = list(d.columns)
        random.Random(rep["order"]).shuffle(cols)
        d = d[cols]
    index = rep.get("index", "default")
    if index == "subset" and n:
        # a filtered subset of a larger table: junk rows (copies of other rows, other levels) interleaved, then
        # masked away the way users filter (boolean mask through CopyNumArray.__getitem__)
        pos, mask = [], []
        for k in range(n):
            for _ in range(r.choice([0, 1, 1, 2, 3])):
                pos.append(r.randrange(n))
                mask.append(False)
            pos.append(k)
            mask.append(True)
        if all(mask):
            pos.insert(0, n - 1)
            mask.insert(0, False)
        big = arr.as_dataframe(d.iloc[pos].reset_index(drop=True))
        return big[np.array(mask)]
    if index == "shifted" and n:
        # the tail of a larger table (e.g. one chromosome selected): unique labels starting above 0
        d.index = pd.RangeIndex(7, 7 + n)
    elif index == "dup" and n:
        # per-chromosome pieces put together with pd.concat without ignore_index: labels restart on each chromosome
        chrom = d["chromosome"].tolist()
        lab, k = [], 0
        for j in range(n):
            k = 0 if j and chrom[j] != chrom[j - 1] else k
            lab.append(k)
            k += 1
        d.index = lab
    return arr.as_dataframe(d)


def _table_int(rng, small):
    """a table whose weights are whole numbers (zero included) and, half the time, whose probes are all 1"""
    rows, has_cn1 = _table(rng, small=small)
    one = rng.random() < 0.5
    for r in rows:
        r[6] = frac(float(rng.choice([0, 0, 1, 1, 2, rng.randint(1, 300)])))
        if one:
            r[5] = 1
    return rows, has_cn1


def _rep_cases(rng, tier):
    """the API doors again on other representations of the table, other call styles, other doors"""
    cases = []
    lists = []
    for k in range(1, 4):
        for combo in itertools.permutations(FILTERS, k):
            if not ({"ci", "sem"} <= set(combo)):
                lists.append(list(combo))
    n = {"quick": 60, "thorough": 600, "search": 60}[tier]
    for k in range(n):
        rows, has_cn1 = (_table_int if k % 3 == 0 else _table)(rng, small=(k % 2 == 0))
        for f in FILTERS:
            cases.append({"op": "segfilter", "tag": "rep:" + f,
                          "in": {"rows": rows, "filter": f, "has_cn1": has_cn1, "rep_f": _gen_rep(rng, [f], True, rows)}})
        # squash_by_groups(by_arm=True), the segmentation's door: with <= 30 segments per chromosome no chromosome
        # has arms (by_arm needs > 101 rows), so it must act as the cn filter does
        cases.append({"op": "segfilter", "tag": "rep:by_arm",
                      "in": {"rows": rows, "filter": "cn", "has_cn1": has_cn1, "by_arm_f": True,
                             "rep_f": _gen_rep(rng, ["cn"], True, rows)}})
    m = {"quick": 3, "thorough": 20, "search": 3}[tier]
    for fl in lists:
        for j in range(m):
            rows, _h = (_table_int if j == 0 else _table)(rng, small=rng.random() < 0.5)
            rows = [r[:7] + [None, None, None] + r[10:] for r in rows]
            style = rng.choice(["kw", "kw", "pos"])
            dflt = style == "kw" and rng.random() < 0.6   # everything but `filters` left to do_call's own defaults
            # (no baf column here: do_call would derive cn1/cn2 from it, which the threshold pipeline of the model lacks;
            # the baf column goes through the `api:` cases below)
            cases.append({"op": "call_filters", "tag": "rep-call:" + "+".join(fl),
                          "in": {"rows": rows, "filters": fl, "thr": [frac(t) for t in DEFAULT_THR], "thr_f": list(DEFAULT_THR),
                                 "ploidy": 2 if dflt else rng.choice([2, 2, 3, 4]), "hapX": False if dflt else rng.random() < 0.5,
                                 "style_f": style, "container_f": rng.choice(["list", "tuple"]),
                                 "rep_f": _gen_rep(rng, fl, False, rows, extras=("depth", "p_bintest"))}})
    # do_call through the API with the calling methods / inputs the threshold pipeline of the model lacks: the
    # un-filtered call (same arguments, filters=None) enters the model as the table, then ONE post-call filter; or
    # method="none" with one pre-call filter
    a = {"quick": 12, "thorough": 100, "search": 12}[tier]
    for kind, f in (("none", "ci"), ("none", "sem"), ("clonal", "cn"), ("clonal", "ampdel"), ("purity", "cn"),
                    ("purity", "ampdel"), ("baf", "cn"), ("baf", "ampdel"), ("threshold", "ampdel")):
        for _ in range(a):
            rows, _h = _table(rng, small=rng.random() < 0.5)
            rows = [r[:7] + [None, None, None] + r[10:] for r in rows]
            extras = ("depth", "p_bintest") if kind != "baf" else ("depth", "p_bintest")
            rep = _gen_rep(rng, [f], False, rows, extras=extras)
            if kind == "baf" or (kind in ("none", "clonal") and rng.random() < 0.3):
                rep["extra"] = sorted(set(rep["extra"]) | {"baf"})
            i = {"rows": rows, "filter": f, "has_cn1": False, "rep_f": rep,
                 "api_f": {"method": {"none": "none", "clonal": "clonal"}.get(kind, rng.choice(["threshold", "clonal"]) if kind == "purity" else "threshold"),
                           "ploidy": rng.choice([2, 2, 3, 4]), "hapX": rng.random() < 0.5,
                           "purity": rng.choice([0.3, 0.5, 0.8, 0.95]) if kind == "purity" else rng.choice([None, None, 1.0]),
                           "female": rng.random() < 0.5, "thr": list(DEFAULT_THR),
                           "container": rng.choice(["list", "tuple"])}}
            cases.append({"op": "segfilter", "tag": "api-" + kind + ":" + f, "in": i})
    return cases


def _cna(rows, cols_extra):
    from cnvlib.cnary import CopyNumArray as CNA
    cols = ["chromosome", "start", "end", "gene", "log2", "probes", "weight"] + cols_extra
    idx = {"cn": 7, "cn1": 8, "cn2": 9, "ci_lo": 10, "ci_hi": 11, "sem": 12}
    data = []
    for r in rows:
        row = [r[0], r[1], r[2], r[3], float(Fraction(r[4])), r[5], float(Fraction(r[6]))]
        for c in cols_extra:
            v = r[idx[c]]
            if c in ("cn", "cn1", "cn2"):
                row.append(int(Fraction(v)) if v is not None else float("nan"))
            else:
                row.append(float(Fraction(v)) if v is not None else float("nan"))
        data.append(tuple(row))
    return CNA.from_rows(data, columns=cols, meta_dict={"sample_id": "S"})


def _rows_out(arr):
    d = arr.data
    out = []
    for k in range(len(d)):
        def opt(col):
            if col not in d.columns:
                return None
            v = d[col].iat[k]
            if v is None or (isinstance(v, float) and math.isnan(v)) or v != v:
                return None
            return frac(float(v))
        out.append([str(d["chromosome"].iat[k]), int(d["start"].iat[k]), int(d["end"].iat[k]), str(d["gene"].iat[k]),
                    frac(float(d["log2"].iat[k])), int(d["probes"].iat[k]), frac(float(d["weight"].iat[k])),
                    opt("cn"), opt("cn1"), opt("cn2"), None, None, None])
    return out


def run_impl(case):
    if case["op"] in _c14ext5.OPS:
        return _c14ext5.run(case)
    from cnvlib import segfilters, call
    i = case["in"]
    if case["op"] == "filter_chain":
        return _run_chain(i)
    if case["op"] == "do_call_pipe":
        return _run_pipe(i)
    if i.get("cli"):
        return _run_cli(case["op"], i)
    rep = i.get("rep_f")
    if case["op"] == "segfilter" and i.get("api_f"):
        return _run_api(i)
    if case["op"] == "segfilter":
        extra = {"cn": ["cn"], "ampdel": ["cn"], "ci": ["cn", "ci_lo", "ci_hi"], "sem": ["cn", "sem"]}[i["filter"]]
        if i["has_cn1"]:
            extra = extra + ["cn1", "cn2"]
        arr = _apply_rep(_cna(i["rows"], extra), rep)
        if i.get("by_arm_f"):
            return _rows_out(segfilters.squash_by_groups(arr, arr["cn"], by_arm=True))
        return _rows_out(getattr(segfilters, i["filter"])(arr))
    if case["op"] == "call_filters":
        arr = _apply_rep(_cna(i["rows"], ["ci_lo", "ci_hi", "sem"]), rep)
        fl = tuple(i["filters"]) if i.get("container_f") == "tuple" else list(i["filters"])
        if i.get("style_f") == "kw":
            # only what differs from do_call's own defaults is passed, by keyword
            kw = {}
            if i["ploidy"] != 2:
                kw["ploidy"] = i["ploidy"]
            if i["hapX"]:
                kw["is_haploid_x_reference"] = True
            if tuple(i["thr_f"]) != DEFAULT_THR:
                kw["thresholds"] = tuple(i["thr_f"])
            out = call.do_call(arr, filters=fl, **kw)
        else:
            out = call.do_call(arr, None, "threshold", i["ploidy"], None, i["hapX"], False, None, fl, tuple(i["thr_f"]))
        if isinstance(fl, list) and fl != list(i["filters"]):
            raise AssertionError("do_call changed the caller's filter list")
        return _rows_out(out)
    raise ValueError(case["op"])


def _rows_in(sd, param):
    """the table the filters see, as model rows: coordinates, probes, weight and the segmetrics columns from `sd`;
    cn/cn1/cn2 and -- when a call was made -- log2 (purity rescaling changes it) from the un-filtered call `param`"""
    f = lambda v: frac(float(v))
    src = sd if param is None else param
    rows = []
    for k in range(len(sd)):
        def col(df, name, conv):
            if df is None or name not in df.columns:
                return None
            v = df[name].iat[k]
            return None if v != v else conv(v)
        rows.append([str(sd["chromosome"].iat[k]), int(sd["start"].iat[k]), int(sd["end"].iat[k]), str(sd["gene"].iat[k]),
                     f(src["log2"].iat[k]), int(sd["probes"].iat[k]) if "probes" in sd.columns else 1, f(sd["weight"].iat[k]),
                     col(param, "cn", f), col(param, "cn1", f), col(param, "cn2", f),
                     col(sd, "ci_lo", f), col(sd, "ci_hi", f), col(sd, "sem", f)])
    return rows


def _run_api(i):
    """do_call through the API with one filter and a calling method / input the model's threshold pipeline lacks:
    the un-filtered call with the same arguments gives the table the post-call filter sees"""
    from cnvlib import call
    a = i["api_f"]
    arr = _apply_rep(_cna(i["rows"], ["ci_lo", "ci_hi", "sem"]), i.get("rep_f"))
    kw = dict(method=a["method"], ploidy=a["ploidy"], purity=a["purity"], is_haploid_x_reference=a["hapX"],
              is_sample_female=a["female"], thresholds=tuple(a["thr"]))
    fl = (i["filter"],) if a["container"] == "tuple" else [i["filter"]]
    out = call.do_call(arr, None, filters=fl, **kw)
    param = None if a["method"] == "none" else call.do_call(arr, None, filters=None, **kw).data
    if (a["method"] == "none") != ("cn" not in out.data.columns):
        raise AssertionError("the cn column is present exactly when a calling method is")
    return {"cli_rows": _rows_in(arr.data, param), "has_cn1": param is not None and "cn1" in param.columns,
            "out": _rows_out(out)}


def _vcf_text(contigs, snps):
    lines = ["##fileformat=VCFv4.2"] + [f"##contig=<ID={c},length=300000000>" for c in contigs]
    lines += ['##FORMAT=<ID=GT,Number=1,Type=String,Description="genotype">',
              '##FORMAT=<ID=AD,Number=R,Type=Integer,Description="allelic depths">',
              '##FORMAT=<ID=DP,Number=1,Type=Integer,Description="depth">',
              "#CHROM\tPOS\tID\tREF\tALT\tQUAL\tFILTER\tINFO\tFORMAT\tS"]
    for c, p, nref, nalt in sorted(snps, key=lambda x: (contigs.index(x[0]), x[1])):
        lines.append(f"{c}\t{p + 1}\t.\tA\tG\t50\tPASS\t.\tGT:AD:DP\t0/1:{nref},{nalt}:{nref + nalt}")
    return "\n".join(lines) + "\n"


def _run_cli(op, i):
    """the same computation through the command line: write the .cns (and the VCF), run `cnvkit.py call`, take the
    table the command hands to the writer.  Returns the input table as the command read it back (sorted, values as
    parsed from the 6-digit text: the model is fed these) together with the output rows."""
    import logging
    import os
    import shutil
    import tempfile
    from cnvlib import call, commands
    from cnvlib.cmdutil import read_cna, load_het_snps
    from skgenome import tabio
    d = tempfile.mkdtemp(dir="/var/tmp", prefix="c14cli")
    try:
        fin, fout, fvcf = (os.path.join(d, n) for n in ("S.cns", "S.call.cns", "S.vcf"))
        tabio.write(_apply_rep(_cna(i["rows"], list(i["cols"])), i.get("rep_f")), fin)
        filters = list(i["filters"]) if op == "call_filters" else [i["filter"]]
        argv = ["call", fin, "-o", fout]
        for f in filters:
            argv += ["--filter", f]
        if i["method"] is not None:
            argv += ["-m", i["method"]]
        if i["opt_t"]:
            argv.append("-t=" + ",".join(repr(t) for t in i["thr_f"]))
        if i["opt_ploidy"]:
            argv += ["--ploidy", str(i["ploidy"])]
        if i["hapX"]:
            argv.append("-y")
        if i.get("snps") is not None:
            contigs = []
            for r in i["rows"]:
                if r[0] not in contigs:
                    contigs.append(r[0])
            with open(fvcf, "w") as fh:
                fh.write(_vcf_text(contigs, i["snps"]))
            argv += ["-v", fvcf]
        # the .call.cns is written with 6 significant digits (C08's subject): take the table the command hands to the
        # writer, and check separately that the file read back agrees with it to that precision
        captured = []

        class _Tab:
            def __getattr__(self, name):
                return getattr(tabio, name)

            def write(self, garr, outfname=None, *a, **k):
                captured.append((garr, outfname))
                return tabio.write(garr, outfname, *a, **k)
        saved = commands.tabio
        commands.tabio = _Tab()
        level = logging.root.manager.disable
        logging.disable(logging.CRITICAL)
        try:
            args = commands.parse_args(argv)
            args.func(args)
        finally:
            logging.disable(level)
            commands.tabio = saved
        if len(captured) != 1 or captured[0][1] != fout or not os.path.exists(fout):
            raise AssertionError("cnvkit.py call did not write exactly one table to the requested output")
        out = captured[0][0]
        if (i["method"] == "none") != ("cn" not in out.data.columns):
            raise AssertionError("the cn column is present exactly when a calling method is")
        rows_out = _rows_out(out)
        if len(out):
            back = _rows_out(read_cna(fout))
            if len(back) != len(rows_out) or any(
                    a[:4] != b[:4] or a[5] != b[5] or a[7:10] != b[7:10] or
                    any(abs(Fraction(a[k]) - Fraction(b[k])) > Fraction(1, 10 ** 5) * max(1, abs(Fraction(b[k]))) for k in (4, 6))
                    for a, b in zip(back, rows_out)):
                raise AssertionError("the written .call.cns does not read back as the table call computed")
        # the input as the command saw it
        seen = read_cna(fin)
        param = None
        if op == "segfilter" and i["method"] != "none":
            # the un-filtered calls (C01/C02; the VCF's b-allele frequencies: C18) through the API, as parameters
            varr = load_het_snps(fvcf, None, None, 20, None) if i.get("snps") is not None else None
            param = call.do_call(seen, varr, i["method"] or "threshold", i["ploidy"], None, i["hapX"], None, None, None,
                                 tuple(i["thr_f"])).data
        cli_rows = _rows_in(seen.data, param)
        return {"cli_rows": cli_rows, "has_cn1": param is not None and "cn1" in param.columns, "out": rows_out}
    finally:
        shutil.rmtree(d, ignore_errors=True)


def to_line(case, impl):
    line = {"op": case["op"], "in": {k: v for k, v in case["in"].items() if not k.endswith("_f")}}
    if isinstance(impl, dict) and "cli_rows" in impl:
        # command-line case: the table as `cnvkit.py call` read it from the file
        line["in"]["rows"] = impl["cli_rows"]
        if case["op"] == "segfilter":
            line["in"]["has_cn1"] = impl["has_cn1"]
        line["impl"] = impl["out"]
    elif not (isinstance(impl, dict) and "__error__" in impl):
        line["impl"] = impl
    return line


def _close(a, b):
    if a is None or b is None:
        return a is None and b is None
    a, b = Fraction(a), Fraction(b)
    return abs(a - b) <= Fraction(1, 10 ** 9) * max(1, abs(b))


def judge(case, impl, resp):
    if case["op"] in _c14ext5.OPS:
        return _c14ext5.judge(case, impl, resp)
    if isinstance(impl, dict) and "__error__" in impl:
        return ["raises_" + impl["__error__"]], [], None
    if "error" in resp:
        return [], ["model error: " + resp["error"]], None
    spec = list(resp.get("spec") or [])
    out = resp["out"]
    if isinstance(impl, dict) and "cli_rows" in impl:
        impl = impl["out"]
    if "slack" in resp and Fraction(resp["slack"]) < Fraction(1, 10 ** 9):
        return [], [], "a level comparison (threshold / log2 +- 1.96 sem) within 1e-9 of its boundary"
    dis = []
    if case["op"] in ("filter_chain", "do_call_pipe"):
        if ("raises" in out) != ("raises" in impl):
            return spec, [f"model {'raises ' + out['raises'] if 'raises' in out else 'returns rows'}, impl "
                          f"{'raises ' + impl['raises'] if 'raises' in impl else 'returns rows'}"], None
        if "raises" in out:
            return spec, ([] if out["raises"] == impl["raises"] else [f"raised by {impl['raises']}, model {out['raises']}"]), None
        out, impl = out["rows"], impl["rows"]
    if len(out) != len(impl):
        dis.append(f"row count model {len(out)} impl {len(impl)}")
    else:
        for k, (m, im) in enumerate(zip(out, impl)):
            if m[:3] != im[:3] or m[5] != im[5] or not _close(im[4], m[4]) or not _close(im[6], m[6]):
                dis.append(f"row {k}: model {m} impl {im}")
                break
            # cn (the run's common value, or the weighted median of unequal calls inside an ampdel run)
            if not _close(im[7], m[7]):
                dis.append(f"row {k}: cn model {m[7]} impl {im[7]}")
                break
    return spec, dis, None


def nontrivial(case, impl, resp):
    if case["op"] in _c14ext5.OPS:
        return _c14ext5.nontrivial(case, impl, resp)
    if case["op"] in ("filter_chain", "do_call_pipe"):
        return isinstance(impl, dict) and ("raises" in impl or len(impl.get("rows", [])) < len(case["in"]["rows"]))
    if isinstance(impl, dict) and "cli_rows" in impl:
        return len(impl["out"]) < len(impl["cli_rows"])
    return not isinstance(impl, dict) and len(impl) < len(case["in"]["rows"])


def shrink(case):
    rows = case["in"]["rows"]
    for k in range(len(rows)):
        c = {"op": case["op"], "tag": "shrunk", "in": dict(case["in"])}
        c["in"]["rows"] = rows[:k] + rows[k + 1:]
        if c["in"]["rows"]:
            yield c
