"""C08 -- every table format is read to 0-based half-open, sorted; write-then-read is lossless."""
from __future__ import annotations

import copy
import math
import os
import shutil
import struct
import tempfile
from fractions import Fraction

from ..core import frac
from . import _c08ext as _ext
from . import _c08lab as _lab   # round 5: re_label pattern / from_label
from . import _c08snf as _snf   # round 5c: sniff patterns text / bed

LEVEL = "proof"
RULE = ("random region tables (1..4 dozen rows; chromosome names 1..22/X/Y/M/MT, 3-digit numbers, alt/random/Un/hap "
        "contigs, dotted accessions, with or without a chr prefix in any letter case (chr/CHR/Chr), lower-case x/y/m; "
        "unsorted or sorted; coordinates 0..3e8 incl. 0 and 3e8; duplicated and nested rows; gene labels with "
        "commas/dots/dashes) are (a) rendered by the harness itself in each format's own convention (bed/bed3/bed4 with "
        "track/browser lines, tab with shuffled columns and empty cells (a row without log2 is dropped) read by tabio.read "
        "and -- with gene+log2 -- by cnvlib.read, interval list with @-header and empty name fields, chr:start-end text "
        "with/without gene, GFF with directives, SEG with junk lines / 5-6 columns / 1-4 samples / selection by index or "
        "name / chrom_names and chrom_prefix renaming, Picard per-target, VCF sites/simple with END= or without (end from "
        "the allele lengths); blank lines inside the pandas-read formats; with or without a final newline; given as a "
        "path or as an open handle) and read with tabio.read [fmt_read]; (a') written by each real writer (bed, bed3, "
        "bed4, interval, text, tab, seg via tabio.write(chrom_ids=False), picardhs) and read by each compatible real "
        "reader (11 writer/reader pairs incl. bed4->bed3, bed->bed/bed3/bed4) [fmt_read with written_by]; (b) sniffed and "
        "read through read_auto(path) / read_auto(open handle) / tabio.read(path, 'auto') vs the intended reader, incl. "
        "leading blank lines, empty files and VCFs of single-base substitutions (pysam reader, judged against the "
        "regions written) [fmt_auto]; (c) written with tabio.write as tab(.cnn/.cnr/.cns/.tsv via cnvlib.read, and "
        "plain GenomicArray)/bed3/bed4/interval/text to a path, an open handle or into a directory that does not exist "
        "yet, read back (path or handle), written again twice [fmt_roundtrip]; in 40 % of (a'),(c) and 30 % of (b),(d) the "
        "written table is a filtered subset of a larger array (pandas index labels != positions); in 30 % of (c) the same "
        "table object is first written in 1..3 other formats; (d) 1..4 samples sent through export seg -> import-seg -> "
        "read -> export seg, 12 % through the cnvkit.py argument parser [seg_roundtrip]. Extra numeric columns hold "
        "arbitrary finite floats (random bit patterns, dyadics, 6-digit rounding ties, 1e+-300, integral). "
        "Round 4: (e) columns of 48 finite doubles biased to the decision points of %.6g (decade boundaries 10^k and "
        "999999.5*10^k with neighbours, binary-exact ties of the 6th digit, the fixed/scientific switch at exponents -5/-4 "
        "and 5/6, short decimals, integral values around 10^6, 1e+-300, random bit patterns) written by the real "
        "tabio.write: every field compared character for character with the Lean spelling model fmt6g, and read back by "
        "the Lean number parser [fmt_spell]; (f) tab tables with float (NaN outside log2, whole columns of integral "
        "floats), integer and text columns through write/read/write/read/write: file1, the typed table and file2 against "
        "the Lean model reading ITS OWN spelled lines, byte for byte [tab_spell]; (g) chromosome labels (ASCII; any "
        "prefix case, alt/random/Un, leading zeros, empty) -> sort key of the real sorter_chrom vs the hand model vs the "
        "function regenerated from the source text [src_key]; regions -> to_label -> from_label likewise [src_label]. "
        "(h) label texts (valid chr:start-end with/without gene part and trailing newline, open-ended chr:start- / chr:-end, "
        "no chromosome, near misses with one character replaced/inserted/removed, random strings over the label alphabet) "
        "-> re_label.match(text).groups() and from_label(text, keep_gene) of the real code (value or ValueError) vs the "
        "pattern AST regenerated from the source under the Lean backtracking semantics, the hand parser and the full "
        "from_label model [lab_parse]. "
        "non-trivial = table has >= 2 rows on >= 2 chromosomes or an extra column; distinct by hash of the case")
EXHAUSTIVE = {"quick": False, "thorough": False}
ASSUMPTIONS = [
    "field level: a file is compared/modelled as lines split on newline and tab (pandas CSV tokenising and quoting trusted)",
    "float cells are exact rationals; '%.6g' is modelled by its value (nearest 6-significant-digit decimal, ties to even "
    "on the exact binary value) AND by its characters (fmt6g: fixed for decimal exponents -4..5, else d.ddddde+-XX, zeros "
    "stripped; proved to be parsed back to the rounded value and to be a fixed point); the decimal->double parse of the "
    "real reader is trusted (pandas' fast parser may be one ulp off the nearest double: compared at 1e-9 relative)",
    "tables handed to the writers have their columns in class order (as every table cnvkit reads or builds has)",
    "chromosome names (and gene labels outside tab files: interval lists, SEG) are not pandas NA spellings (NA, nan, NULL, "
    "None, ...), not purely numeric with leading zeros, and contain no tab/quote/@/# characters; floats are finite, "
    "not -0.0, not subnormal",
    "the pysam-based reader behind fmt 'vcf' is outside the Lean model (only the sniffer's answer is modelled): the table "
    "read_auto returns for a VCF is judged by the harness against the regions it wrote (coordinates, alleles, order); "
    "SEG renaming options are tied by handing the Lean reader the same file with the names already replaced",
]
TRUSTED_EXTRA = ["pandas read_csv / to_csv tokenising, dtype inference and NA spellings", "Python re for the sniff patterns; for re_label only Python's pattern PARSER (re._parser, read by harness/extractors/regex_label.py) and the backtracking semantics of Model/FormatsExt5Label.lean are trusted, and the latter is compared with re_label.match on every run (ASCII texts; \\s on the control characters 0x1c-0x1f is outside)",
                 "Python/pandas decimal printing of ints; C/Python '%.6g' (compared byte for byte with the Lean model on every run)",
                 "harness/extractors/exprs_chromsort.py: reading of the Python str subset (Model/PyStr.lean primitives)", "pandas stable multi-key mergesort on (tuple key, start, end)"]

COORD_MAX = 3 * 10 ** 8
REQ = ("chromosome", "start", "end")

# ---------------------------------------------------------------------------------------------
# generators


STYLES = ["chr"] * 9 + ["plain"] * 9 + ["CHR", "Chr"]  # the prefix is stripped whatever its case


def _chrom_pool(rng, style, dotted=True, exotic=True):
    p = {"chr": "chr", "plain": "", "CHR": "CHR", "Chr": "Chr"}[style]
    nums = [str(i) for i in range(1, 23)]
    pool = [p + n for n in rng.sample(nums, rng.randint(2, 8))]
    pool += [p + "1", p + "2", p + "10"][: rng.randint(0, 3)]
    pool += rng.sample([p + "X", p + "Y", p + rng.choice(["M", "MT"])], rng.randint(0, 3))
    if rng.random() < 0.08:
        pool += [p + rng.choice(["x", "y", "m", "mt"])]  # lower-case sex / mitochondrial names
    if rng.random() < 0.3:
        pool += [p + str(rng.choice([23, 38, 100, 101, 150, 999]))]
    if exotic and rng.random() < 0.6:
        contigs = [p + "1_gl000191_random", p + "Un_gl000211", p + "6_apd_hap1", p + "17_ctg5_hap1",
                   p + "Un_KI270742v1", p + "1_KI270706v1_random", p + "EBV", p + "4_gl000193_random",
                   "scaffold_12", "2L", "2R", "IV", "MtDNA", p + "Un"]
        pool += rng.sample(contigs, rng.randint(1, 4))
    if dotted and rng.random() < 0.35:
        pool += rng.sample(["GL000207.1", "KI270728.1", "NC_000001.11", "JH584304.1", p + "Un_GL000218.1"], rng.randint(1, 3))
        if rng.random() < 0.6:
            # names that agree up to a dot / differ only after it (round-4 seed C08-r4: a sort key cut at
            # the first dot merges such contigs into one block ordered by start only)
            pool += rng.choice([["GL000220.1", "GL000220.2"], ["NC_000001.10", "NC_000001.11", "NC_000001.9"],
                                [p + "1.a", p + "1.b"], ["ctg7.p", "ctg7.q", "ctg7.10"]])
    out = []
    for c in pool:
        if c not in out:
            out.append(c)
    return out


GENES = ["-", "TP53", "BRCA1,BRCA2", "A-B.1", "RP11-34P13.7", "LOC100,LOC200", "gene_1", "HLA-DRB1", "C1orf112",
         "MIR1302-2", "Antitarget", "CDKN2A,CDKN2B-AS1", "a.b.c", "x-", "KIAA1549", "g"]


def _regions(rng, nmax=36, style=None, dotted=True, exotic=True, sort_prob=0.3, nmin=1):
    style = style or rng.choice(STYLES)
    pool = _chrom_pool(rng, style, dotted, exotic)
    n = rng.randint(nmin, nmax)
    rows = []
    for _ in range(n):
        if rows and rng.random() < 0.25:
            base = rng.choice(rows)
            k = rng.random()
            if k < 0.4:
                rows.append(list(base))  # duplicate coordinates
                continue
            if k < 0.7:
                rows.append([base[0], base[1], base[2] + rng.randint(1, 1000)])  # same start, other end
                continue
            rows.append([base[0], base[2], base[2] + rng.randint(1, 1000)])  # abutting
            continue
        c = rng.choice(pool)
        k = rng.random()
        if k < 0.08:
            s = 0
        elif k < 0.14:
            s = 1
        elif k < 0.6:
            s = rng.randint(0, 10 ** rng.randint(2, 8))
        else:
            s = rng.randint(0, COORD_MAX - 1)
        ln = rng.choice([1, 2, rng.randint(1, 500), rng.randint(1, 10 ** 6)])
        e = min(COORD_MAX, s + ln)
        if rng.random() < 0.03:
            e = COORD_MAX
        rows.append([c, s, e])
    rows = [r for r in rows if r[2] <= COORD_MAX and r[1] < r[2]]
    if rng.random() < sort_prob:
        rows = _sorted_rows(rows)
    return rows


def _sorter(label):
    """independent re-statement of the documented order, used only to pre-sort generated inputs"""
    from skgenome.chromsort import sorter_chrom
    return sorter_chrom(label)


def _sorted_rows(rows):
    return sorted(rows, key=lambda r: (_sorter(r[0]), r[1], r[2]))


def _float(rng):
    k = rng.random()
    if k < 0.25:
        return rng.uniform(-5, 5)
    if k < 0.35:
        return rng.randint(-4096, 4096) / 2 ** rng.randint(0, 12)
    if k < 0.45:
        return float(rng.randint(-10 ** rng.randint(1, 9), 10 ** rng.randint(1, 9)))
    if k < 0.55:
        # 6-digit rounding ties and near-ties
        m = rng.randint(100000, 999999)
        x = (m + 0.5) * 10.0 ** rng.randint(-12, 8)
        return rng.choice([x, -x, math.nextafter(x, 0), math.nextafter(x, math.inf)])
    if k < 0.62:
        return rng.uniform(-1, 1) * 10.0 ** rng.choice([300, 200, 100, 30, 20, 15])
    if k < 0.69:
        return rng.uniform(-1, 1) * 10.0 ** -rng.choice([300, 200, 100, 30, 20, 15, 5, 4])
    if k < 0.75:
        return rng.choice([0.0, 0.1, 0.25, 1e-5, 1e-4, 99999.95, 999999.5, 1e6, 123456.5, 0.0001234565, 1e15, 1e16, 1e22, 1e23])
    if k < 0.9:
        while True:
            x = struct.unpack("<d", struct.pack("<Q", rng.getrandbits(64)))[0]
            if math.isfinite(x) and (x == 0.0 or abs(x) >= 2.3e-308) and not (x == 0.0 and math.copysign(1, x) < 0):
                return x
    return rng.gauss(0, 1)


def _cell_f(x):
    return ["f", frac(x)]


# labels pandas would take for missing values or numbers if the gene column were not read as text
FREE_GENES = ["NA", "null", "None", "nan", "NULL", "N/A", "7157", "0012", "1e5", "-0", "#N/A"]


def _table(rng, cna=None, rows=None, want_probes=None, free_genes=False, **kw):
    """a table {"names": [...], "rows": [[chrom,s,e,[cells]]]} with class-ordered columns"""
    rows = rows if rows is not None else _regions(rng, **kw)
    cna = rng.random() < 0.6 if cna is None else cna
    names = []
    if cna:
        names = ["gene", "log2"]
        extra = [n for n in ("baf", "cn", "depth", "p_ttest", "probes", "weight") if rng.random() < 0.35]
        if want_probes is True and "probes" not in extra:
            extra = sorted(extra + ["probes"])
        if want_probes is False:
            extra = [n for n in extra if n != "probes"]
        names += extra
    else:
        names = sorted(n for n in ("gene", "log2", "depth", "probes", "strand", "score2") if rng.random() < 0.45)
    genes = rng.sample(GENES, rng.randint(1, min(6, len(GENES))))
    if free_genes and rng.random() < 0.25:
        genes = rng.sample(FREE_GENES, rng.randint(1, 3)) + (genes[:2] if rng.random() < 0.5 else [])
    intlike = {n: rng.random() < 0.15 for n in names}  # float column whose values are all integral
    out = []
    for c, s, e in rows:
        cells = []
        for n in names:
            if n == "gene":
                cells.append(["s", rng.choice(genes)])
            elif n == "strand":
                cells.append(["s", rng.choice(["+", "-", "."])])
            elif n in ("probes", "cn"):
                cells.append(["i", rng.randint(0, 10 ** rng.randint(0, 9))])
            elif n == "weight":
                cells.append(_cell_f(rng.random()))
            elif n == "depth":
                cells.append(_cell_f(float(rng.randint(0, 500)) if intlike[n] else abs(_float(rng))))
            else:
                cells.append(_cell_f(float(rng.randint(-9, 9)) if intlike[n] else _float(rng)))
        out.append([c, s, e, cells])
    return {"names": names, "rows": out}


# --- harness-side rendering of a truth table in each format's own convention -------------------

def _fmt_num(x):
    """a short decimal the harness writes into third-party files (<= 6 significant digits)"""
    return "%.6g" % x


def _author(rng, fmt, nmax=30, canonical_tab=False):
    """returns (lines, truth_table, carried, extra_in)"""
    dotted = fmt not in ("text-auto",)
    rows = _regions(rng, nmax=nmax)
    genes = [rng.choice(GENES) for _ in rows]
    extra = {}
    if fmt in ("bed", "bed3", "bed4"):
        ncol = rng.choice([3, 4, 5, 6, 8])
        lines = []
        if rng.random() < 0.2:
            lines.append(["browser position chr1:1-1000"])
        if rng.random() < 0.3:
            lines.append(['track name=targets description="x y"'])
        strands = [rng.choice(["+", "-", "."]) for _ in rows]
        for (c, s, e), g, st in zip(rows, genes, strands):
            f = [c, str(s), str(e), g, str(rng.randint(0, 1000)), st, str(s), str(e)]
            lines.append(f[:ncol])
        names = {"bed": ["gene", "strand"], "bed3": [], "bed4": ["gene"]}[fmt]
        trows = []
        for (c, s, e), g, st in zip(rows, genes, strands):
            cells = {"gene": ["s", g if ncol >= 4 else "-"], "strand": ["s", st if ncol >= 6 else "."]}
            trows.append([c, s, e, [cells[n] for n in names]])
        if rng.random() < 0.15 and len(lines) > 2:
            # a second track: reading stops there
            k = rng.randint(1, len(rows))
            lines = lines[: len(lines) - len(rows) + k] + [["track name=second"]] + lines[len(lines) - len(rows) + k:]
            trows = trows[:k]
        return lines, {"names": names, "rows": trows}, names, extra
    if fmt in ("tab", "tab-cna"):
        # "tab-cna": a hand-made .cnr/.cns (gene and log2 present), read through cnvlib.read
        t = _table(rng, cna=(fmt == "tab-cna"), rows=rows)
        if rng.random() < 0.3:
            # empty cells: a row without a log2 value is dropped by the reader, other numbers are just missing
            for r in t["rows"]:
                for j, n in enumerate(t["names"]):
                    if n not in ("gene", "strand") and rng.random() < 0.12:
                        r[3][j] = None
        hdr = list(REQ) + t["names"]
        if rng.random() < 0.5 and not canonical_tab:
            # columns in arbitrary order
            perm = hdr[:]
            rng.shuffle(perm)
        else:
            perm = hdr
        lines = [perm]
        for c, s, e, cells in t["rows"]:
            d = {"chromosome": c, "start": str(s), "end": str(e)}
            for n, cell in zip(t["names"], cells):
                d[n] = _render_cell_truth(cell)
            lines.append([d[n] for n in perm])
        t = _truth_numbers(t)
        for j in range(len(t["names"])):
            if any(r[3][j] is None for r in t["rows"]):
                # an integer column with a missing cell is a float column in pandas
                for r in t["rows"]:
                    if r[3][j] is not None and r[3][j][0] == "i":
                        r[3][j] = _cell_f(float(r[3][j][1]))
        if "log2" in t["names"]:
            li = t["names"].index("log2")
            t["rows"] = [r for r in t["rows"] if r[3][li] is not None]  # "every bin needs a log2 value"
        return _blank_lines(rng, lines, 0), t, t["names"], extra
    if fmt == "interval":
        lines = []
        if rng.random() < 0.6:
            lines.append(["@HD", "VN:1.4", "SO:unsorted"])
            lines.append(["@SQ", "SN:chr1", "LN:249250621"])
        strands = [rng.choice(["+", "-"]) for _ in rows]
        if rng.random() < 0.2:
            genes = [("" if rng.random() < 0.3 else g) for g in genes]  # an empty name field is read as "-"
        for (c, s, e), g, st in zip(rows, genes, strands):
            lines.append([c, str(s + 1), str(e), st, g])
        trows = [[c, s, e, [["s", g or "-"], ["s", st]]] for (c, s, e), g, st in zip(rows, genes, strands)]
        return _blank_lines(rng, lines, 0), {"names": ["gene", "strand"], "rows": trows}, ["gene"], extra
    if fmt == "text":
        with_gene = rng.random() < 0.5
        sep = rng.choice([" ", "\t", "  "])
        lines, trows = [], []
        for (c, s, e), g in zip(rows, genes):
            lab = f"{c}:{s + 1}-{e}"
            if with_gene and g != "-":
                lines.append((lab + sep + g).split("\t"))
                trows.append([c, s, e, [["s", g]]])
            else:
                lines.append([lab])
                trows.append([c, s, e, [["s", "-"]]])
        return lines, {"names": ["gene"], "rows": trows}, ["gene"], extra
    if fmt == "gff":
        lines = []
        if rng.random() < 0.6:
            lines.append(["##gff-version 3"])
        if rng.random() < 0.3:
            lines.append(["# a comment"])
        trows = []
        for (c, s, e), g in zip(rows, genes):
            typ = rng.choice(["gene", "exon", "CDS", "mRNA"])
            st = rng.choice(["+", "-", ".", "?"])
            attr = rng.choice([f"ID=x1;Name={g}", f'gene_id "{g}"; transcript_id "t1";', f"gene={g}", "ID=only"])
            lines.append([c, "src", typ, str(s + 1), str(e), rng.choice([".", "0.5", "12"]), st,
                          rng.choice([".", "0", "1", "2"]), attr])
            trows.append([c, s, e, [["s", st], ["s", typ]]])
        extra["keep"] = ["strand", "type"]
        return _blank_lines(rng, lines, 0), {"names": ["strand", "type"], "rows": trows}, ["strand", "type"], extra
    if fmt == "seg":
        nsamp = rng.randint(1, 4)
        six = rng.random() < 0.6
        sids = rng.sample(["S1", "tumor_2", "P-3", "normal", "x9", "101"], nsamp)
        lines = []
        for _ in range(rng.randint(0, 2)):
            lines.append([rng.choice(["WARNING: something happened", "Analyzing: sample", ""])])
        lines.append(['"ID"', "chrom", "loc.start", "loc.end"] + (["num.mark"] if six else []) + ["seg.mean"])
        # chromosomes in SEG are often bare numbers
        per = {}
        body = []
        for k, sid in enumerate(sids):
            rs = rows if k == 0 else _regions(rng, nmax=8)
            per[sid] = []
            for (c, s, e) in rs:
                pr = rng.randint(1, 5000)
                mean = round(rng.uniform(-3, 3), rng.choice([0, 2, 4]))
                body.append((sid, [sid, c, str(s + 1), str(e)] + ([str(pr)] if six else []) + [_fmt_num(mean)]))
                cells = {"gene": ["s", "-"], "log2": _cell_f(float(_fmt_num(mean))), "probes": ["i", pr]}
                per[sid].append([c, s, e, cells])
        if rng.random() < 0.3:
            rng.shuffle(body)  # samples interleaved
        order = []
        for sid, _l in body:
            if sid not in order:
                order.append(sid)
        lines += [l for _sid, l in body]
        names = ["gene", "log2"] + (["probes"] if six else [])
        k = rng.random()
        if k < 0.5 or not order:
            sel, sid = None, (order[0] if order else None)
        elif k < 0.75:
            i = rng.randrange(len(order))
            sel, sid = i, order[i]
        else:
            sid = rng.choice(order)
            sel = sid
        # rows of the chosen sample in file order
        chosen = [l for s_, l in body if s_ == sid]
        trows = []
        for l in chosen:
            c, s, e = l[1], int(l[2]) - 1, int(l[3])
            cells = {"gene": ["s", "-"], "log2": _cell_f(float(l[-1])), "probes": ["i", int(l[4])] if six else None}
            trows.append([c, s, e, [cells[n] for n in names]])
        extra["sel"] = sel
        if rng.random() < 0.3:
            # read_seg / import-seg options: rename chromosomes (-c, e.g. the "human" preset) and / or prefix them (-p)
            present = sorted({l[1] for _s, l in body})
            cn = {"23": "X", "24": "Y", "25": "M"} if rng.random() < 0.5 else {}
            for c in rng.sample(present, min(len(present), rng.randint(0, 2))):
                cn[c] = rng.choice(["X", "Y", "7", c + "_alt", "chrQ"])
            pre = rng.choice([None, "chr", "c_"])
            if cn or pre:
                extra["seg_opts"] = {"chrom_names": cn or None, "chrom_prefix": pre}
                trows = [[_seg_rename(extra["seg_opts"], c), s, e, cells] for c, s, e, cells in trows]
        return lines, {"names": names, "rows": trows}, [n for n in names if n != "gene"], extra
    if fmt == "picardhs":
        lines = [["chrom", "start", "end", "length", "name", "%gc", "mean_coverage", "normalized_coverage"]]
        trows = []
        for (c, s, e), g in zip(rows, genes):
            gc, cov = round(rng.random(), 4), round(rng.uniform(0, 500), 3)
            norm = round(cov / 100, 5)
            lines.append([c, str(s + 1), str(e), str(e - s), g, _fmt_num(gc), _fmt_num(cov), _fmt_num(norm)])
            trows.append([c, s, e, [["s", g], _cell_f(float(_fmt_num(gc))), _cell_f(float(_fmt_num(cov))),
                                    _cell_f(float(_fmt_num(norm)))]])
        # class order of the extra columns: depth, gc, gene, ratio
        trows = [[c, s, e, [cl[2], cl[1], cl[0], cl[3]]] for c, s, e, cl in trows]
        return (_blank_lines(rng, lines, 0), {"names": ["depth", "gc", "gene", "ratio"], "rows": trows},
                ["depth", "gc", "gene", "ratio"], extra)
    if fmt in ("vcf-sites", "vcf-simple"):
        lines = [["##fileformat=VCFv4.2"], ['##INFO=<ID=END,Number=1,Type=Integer,Description="e">']]
        nsamp = rng.randint(0, 2)
        hdr = ["#CHROM", "POS", "ID", "REF", "ALT", "QUAL", "FILTER", "INFO"]
        if fmt == "vcf-simple" or nsamp:
            hdr += ["FORMAT"] + [f"S{i}" for i in range(nsamp)]
        lines.append(hdr)
        trows = []
        # share of records that carry no END: small variants, whose end the simple readers derive from the allele
        # lengths (start + max(0, len(alt) - len(ref)) on the already shifted start -- the readers' documented rule)
        p_noend = rng.choice([0.0, 0.0, 0.3, 1.0])
        nhead = len(lines)
        for (c, s, e) in rows:
            ref = "".join(rng.choice("ACGT") for _ in range(rng.choice([1, 1, 1, 2, 5])))
            if rng.random() < p_noend:
                alt = rng.choice(["A", "T", "ACGT", "G", "GA", "TTTTTTTTT", ref + "C"])
                info = rng.choice([".", "DP=14", "AF=0.5;DP=10", "SVTYPE=INS", "DB"])
                e = s + max(0, len(alt) - len(ref))
            else:
                alt = rng.choice(["<DEL>", "<DUP>", "A", "T", "ACGT", "G"])
                info = rng.choice([f"END={e}", f"SVTYPE=DEL;END={e};SVLEN=-{e - s}", f"IMPRECISE;END={e}",
                                   f"END={e};CIEND=-5,5"])
            l = [c, str(s + 1), ".", ref, alt, rng.choice([".", "30", "99.5"]), rng.choice([".", "PASS", "q10"]), info]
            if len(hdr) > 8:
                l += ["GT"] + ["0/1"] * nsamp
            lines.append(l)
            trows.append([c, s, e, [["s", alt], ["s", ref]]])
        extra["keep"] = ["alt", "ref"]
        return _blank_lines(rng, lines, nhead), {"names": ["alt", "ref"], "rows": trows}, ["alt", "ref"], extra
    raise ValueError(fmt)


def _seg_rename(opts, c):
    return (opts.get("chrom_prefix") or "") + (opts.get("chrom_names") or {}).get(c, c)


def _seg_renamed_lines(opts, lines):
    """the same SEG file as a tool that already uses the target names would have written it (the Lean reader has no
    renaming options: it reads this file, the real reader gets the original file and the options)"""
    out, body = [], False
    for l in lines:
        if body and len(l) > 1:
            l = [l[0], _seg_rename(opts, l[1])] + l[2:]
        elif len(l) > 1:
            body = True  # the header: first line with a tab
        out.append(l)
    return out


def _render_cell_truth(cell):
    if cell is None:
        return ""
    k, v = cell
    if k == "s":
        return v
    if k == "i":
        return str(v)
    return _fmt_num(float(Fraction(v)))


def _truth_numbers(t):
    """the harness wrote 6-digit decimals: the truth is the decimal it wrote"""
    t = copy.deepcopy(t)
    for r in t["rows"]:
        r[3] = [(_cell_f(float(_fmt_num(float(Fraction(c[1]))))) if c and c[0] == "f" else c) for c in r[3]]
    return t


def _blank_lines(rng, lines, first):
    """a blank line somewhere at or after position `first` (the pandas-based readers and the sniffer skip them)"""
    if rng.random() < 0.12 and len(lines) >= first:
        k = rng.randint(first, len(lines))
        lines = lines[:k] + [[""]] + lines[k:]
    return lines


AUTHOR_FORMATS = ["bed", "bed3", "bed4", "tab", "interval", "text", "gff", "seg", "picardhs", "vcf-sites", "vcf-simple"]


def _io_options(rng, i, handle_ok=True):
    """how the file reaches the reader: as a path or an open handle; with or without a final newline"""
    if handle_ok and rng.random() < 0.2:
        i["via"] = "handle"
    if rng.random() < 0.15:
        i["nonl"] = True
    return i


def _read_case(rng, fmt, tag=None, nmax=30):
    lines, truth, carried, extra = _author(rng, fmt, nmax=nmax)
    i = {"fmt": "tab" if fmt == "tab-cna" else fmt, "lines": lines, "truth": truth, "carried": carried,
         "cna": fmt == "tab-cna"}
    i.update(extra)
    return {"op": "fmt_read", "tag": tag or f"read-{fmt}", "in": _io_options(rng, i)}


# every (writer, reader) pair of cnvkit's own formats that is not already a fmt_roundtrip pair; the columns the reader
# must bring back are the ones BOTH sides carry.  "bed" (write_bed) keeps ALL columns of the table: it is a BED file
# only for a bare table or when `gene` is the first extra column.
CROSS_PAIRS = [("bed4", "bed3"), ("bed", "bed"), ("bed", "bed3"), ("bed", "bed4"), ("seg", "seg"), ("picardhs", "picardhs"),
               ("interval", "interval"), ("text", "text"), ("bed3", "bed"), ("bed4", "bed4"), ("tab", "tab")]


def _cross_case(rng, wfmt=None, rfmt=None, tag=None, nmax=24):
    """a table written by the real writer `wfmt`, the file read by the real reader `rfmt`: the result is judged
    against the table that was written (spec) and against the model reader run on the very file (correspondence)"""
    if wfmt is None:
        wfmt, rfmt = rng.choice(CROSS_PAIRS)
    rows = _regions(rng, nmax=nmax)
    cna = False
    if wfmt == "seg":
        t0 = _table(rng, cna=True, rows=rows, want_probes=rng.random() < 0.6)
        keepn = [n for n in t0["names"] if n in ("gene", "log2", "probes")]
        t0 = {"names": keepn, "rows": [[c, s, e, [cl[t0["names"].index(n)] for n in keepn]] for c, s, e, cl in t0["rows"]]}
        cna = True
    elif wfmt == "picardhs":
        genes = rng.sample(GENES, rng.randint(1, 5))
        t0 = {"names": ["depth", "gc", "gene"],
              "rows": [[c, s, e, [_cell_f(rng.randint(1, 2 ** 20) / 1024), _cell_f(rng.randint(0, 1024) / 1024),
                                  ["s", rng.choice(genes)]]] for c, s, e in rows]}
    elif wfmt == "bed":
        k = rng.random()
        genes = rng.sample(GENES, rng.randint(1, 5))
        if k < 0.4:
            t0 = {"names": [], "rows": [[c, s, e, []] for c, s, e in rows]}  # three columns: write_bed3
        elif k < 0.7:
            t0 = {"names": ["gene"], "rows": [[c, s, e, [["s", rng.choice(genes)]]] for c, s, e in rows]}
        else:
            t0 = {"names": ["gene", "log2", "weight"],
                  "rows": [[c, s, e, [["s", rng.choice(genes)], _cell_f(_float(rng)), _cell_f(rng.random())]] for c, s, e in rows]}
    else:
        cna = wfmt == "tab" and rng.random() < 0.5
        t0 = _table(rng, cna=cna if wfmt == "tab" else None, rows=rows)
    have = t0["names"]
    # what the reader returns for this writer's file, and which of it comes from the table
    if rfmt == "tab":
        names = list(have)
    elif wfmt == "seg":
        names = [n for n in ("gene", "log2", "probes") if n in have]
    elif wfmt == "picardhs":
        names = ["depth", "gc", "gene"]
    else:
        w_has = {"bed3": [], "bed4": ["gene"], "bed": (["gene"] if have[:1] == ["gene"] else []),
                 "interval": ["gene", "strand"], "text": []}[wfmt]
        r_has = {"bed3": [], "bed4": ["gene"], "bed": ["gene"], "interval": ["gene", "strand"], "text": []}[rfmt]
        names = [n for n in w_has if n in r_has]
    default = {"gene": ["s", "-"], "strand": ["s", "+"]}
    trows = []
    for c, s, e, cells in t0["rows"]:
        d = dict(zip(have, cells))
        out = []
        for n in names:
            cell = d.get(n, default.get(n))
            if wfmt == "seg" and n == "gene":
                cell = ["s", "-"]  # SEG has no name column
            out.append(cell)
        trows.append([c, s, e, out])
    i = {"fmt": rfmt, "lines": None, "truth": {"names": names, "rows": trows}, "carried": names, "cna": cna and rfmt == "tab",
         "written_by": {"wfmt": wfmt, "cna": cna, "t0": t0}}
    if rng.random() < 0.4:
        i["written_by"]["sub"] = rng.randint(1, 10 ** 6)
    if rng.random() < 0.2:
        i["written_by"]["via"] = "handle"
    i = _io_options(rng, i)
    i.pop("nonl", None)  # the file is the writer's
    return {"op": "fmt_read", "tag": tag or f"cross-{wfmt}-{rfmt}", "in": i}


AUTO_EXTS = ["bed", "txt", "tsv", "interval_list", "list", "gff", "gff3", "cnr", "cnn", "cns", "", "interval", "text", "tab"]
# extensions whose tail names a format: the (mis-sliced) file-name hint of sniff_region_format fires
HINT_EXTS = ["xbed", "ttab", "ttext", "iinterval", "ggff", "bbed", "rrefflat"]


# Structural records (symbolic ALT + INFO/END) in the VCFs sent through auto-detection.  OFF: with pysam >= 0.20 the
# pysam-based reader never sees INFO/END and takes start + len(ALT) as the end -- proposed_fixes/C08-vcf-end-ignored.md
# (switch on, or run with C08_VCF_END=1, once that repair is in the tree)
VCF_END_RECORDS = True   # finding AR fixed in /repo (d10cfdd): records with INFO/END are generated


def _author_vcf_snv(rng, nmax=12):
    """a VCF of single-base substitutions (what cnvkit reads VCFs for), 0..2 samples, unsorted; every record is the
    one-base region [POS-1, POS)"""
    rows = _regions(rng, nmax=nmax)
    nsamp = rng.randint(0, 2)
    lines = [["##fileformat=VCFv4.2"]]
    if rng.random() < 0.5:
        lines.append(["##source=harness"])
    for c in sorted({r[0] for r in rows}):
        lines.append([f"##contig=<ID={c}>"])
    lines += [['##INFO=<ID=DP,Number=1,Type=Integer,Description="d">'],
              ['##INFO=<ID=END,Number=1,Type=Integer,Description="e">'],
              ['##INFO=<ID=SVTYPE,Number=1,Type=String,Description="t">'],
              ['##FORMAT=<ID=GT,Number=1,Type=String,Description="g">'],
              ['##FORMAT=<ID=AD,Number=R,Type=Integer,Description="a">'],
              ['##FORMAT=<ID=DP,Number=1,Type=Integer,Description="d">']]
    hdr = ["#CHROM", "POS", "ID", "REF", "ALT", "QUAL", "FILTER", "INFO"]
    if nsamp:
        hdr += ["FORMAT"] + [f"S{k}" for k in range(nsamp)]
    lines.append(hdr)
    trows = []
    for c, s, e in rows:
        ref = rng.choice("ACGT")
        alt = rng.choice([b for b in "ACGT" if b != ref])
        info = rng.choice([".", "DP=31"])
        if VCF_END_RECORDS and rng.random() < 0.4:
            alt, info = rng.choice([("<DEL>", f"SVTYPE=DEL;END={e}"), ("<DUP>", f"END={e};SVTYPE=DUP")])
        else:
            e = s + 1
        l = [c, str(s + 1), rng.choice([".", "rs12"]), ref, alt, rng.choice([".", "30", "99.5"]), rng.choice([".", "PASS"]), info]
        if nsamp:
            l.append("GT:AD:DP")
            for _ in range(nsamp):
                a, b = rng.randint(0, 40), rng.randint(0, 40)
                l.append(f"{rng.choice(['0/1', '1/1', '0/0', '0|1'])}:{a},{b}:{a + b}")
        lines.append(l)
        trows.append([c, s, e, [["s", alt], ["s", ref]]])
    return lines, {"names": ["alt", "ref"], "rows": trows}


def _auto_options(rng, i, handle_ok=True):
    """the doors to auto-detection: read_auto(path), read_auto(open handle), tabio.read(path, "auto")"""
    k = rng.random()
    if k < 0.2 and handle_ok:
        i["via"] = "handle"
    elif k < 0.4:
        i["via"] = "fmt-auto"
    if i.get("lines") is not None and rng.random() < 0.15:
        i["nonl"] = True
    return i


def _auto_case(rng, tag=None):
    c = _auto_case0(rng, tag)
    c["in"] = _auto_options(rng, c["in"], handle_ok=c["in"].get("direct") != "vcf")
    return c


def _auto_case0(rng, tag=None):
    """a file (harness-authored or cnvkit-written) with \\w-only names, sniffed and read through read_auto"""
    k = rng.random()
    ext = rng.choice(AUTO_EXTS)
    if rng.random() < 0.07:
        # VCF: recognised by its header; read_auto hands it to the pysam-based reader (a path is required).
        # Only single-base substitutions without END: see proposed_fixes/C08-vcf-end-ignored.md (the pysam-based
        # reader ignores INFO/END and takes start + len(ALT) as the end of every other record)
        lines, truth = _author_vcf_snv(rng)
        return {"op": "fmt_auto", "tag": tag or "auto-authored-vcf",
                "in": {"ext": rng.choice(["vcf", "txt", "", "bed"]), "lines": lines, "direct": "vcf", "written_by": None,
                       "keep": ["alt", "ref"], "truth": truth}}
    if rng.random() < 0.08:
        # file-name hint in force: the caller named the format, only the sniff answer itself is compared
        fmt = rng.choice(["bed", "bed4", "tab", "interval", "text", "gff"])
        lines, _truth, _carried, _extra = _author(rng, fmt, nmax=6, canonical_tab=rng.random() < 0.7)
        return {"op": "fmt_auto", "tag": tag or "auto-exthint",
                "in": {"ext": rng.choice(HINT_EXTS), "lines": lines, "direct": None, "written_by": None, "keep": None}}
    if k < 0.55:
        fmt = rng.choice(["bed", "bed3", "bed4", "tab", "interval", "text", "gff"])
        for _ in range(20):
            lines, truth, carried, extra = _author(rng, fmt, nmax=12, canonical_tab=True)
            if fmt == "interval" and any(len(l) == 5 and l[4] == "" for l in lines):
                continue  # an interval list whose first record has an EMPTY name field is sniffed as BED (`\\S+$`): no claim
            if all(_is_word(r[0]) for r in truth["rows"]) and truth["rows"]:
                break
        else:
            lines, truth = [["chr1", "0", "10"]], {"names": [], "rows": [["chr1", 0, 10, []]]}
            fmt = "bed3"
        data = [l for l in lines if l and not l[0].startswith(("track", "browser ", "#", "@"))]
        if fmt.startswith("bed") and data and len(data[0]) == 5 and data[0][3] in (".", "+", "-"):
            # a 5-column BED line whose name is a strand symbol IS an interval-list line: inherently ambiguous
            return {"op": "fmt_auto", "tag": "auto-ambiguous-bed5",
                    "in": {"ext": ext, "lines": lines, "direct": None, "written_by": None, "keep": None}}
        return {"op": "fmt_auto", "tag": tag or f"auto-authored-{fmt}",
                "in": {"ext": ext, "lines": lines, "direct": fmt, "written_by": None, "keep": extra.get("keep") if fmt == "gff" else None}}
    wfmt = rng.choice(["tab", "bed3", "bed4", "interval", "text"])
    cna = wfmt == "tab" and rng.random() < 0.5
    t0 = _table(rng, cna=cna, nmax=12, dotted=False)
    wb = {"wfmt": wfmt, "cna": cna, "t0": t0}
    if rng.random() < 0.3:
        wb["sub"] = rng.randint(1, 10 ** 6)
    return {"op": "fmt_auto", "tag": tag or f"auto-written-{wfmt}",
            "in": {"ext": ext, "lines": None, "direct": wfmt, "written_by": wb, "keep": None}}


def _is_word(s):
    return bool(s) and all(ch.isalnum() or ch == "_" for ch in s)


WRITE_PAIRS = [("tab", "tab"), ("bed3", "bed3"), ("bed4", "bed4"), ("interval", "interval"), ("text", "text"),
               ("bed3", "bed"), ("bed4", "bed"), ("bed3", "bed4")]
PRE_FORMATS = ["tab", "bed", "bed3", "bed4", "interval", "text"]


def _rt_case(rng, wfmt=None, rfmt=None, tag=None, nmax=36, **kw):
    if wfmt is None:
        wfmt, rfmt = rng.choice(WRITE_PAIRS)
    cna = (wfmt == "tab" and rng.random() < 0.6)
    t0 = _table(rng, cna=cna if wfmt == "tab" else None, nmax=nmax, free_genes=(wfmt == "tab"), **kw)
    i = {"wfmt": wfmt, "rfmt": rfmt, "cna": cna, "t0": t0}
    if rng.random() < 0.4:
        i["sub"] = rng.randint(1, 10 ** 6)  # the written table is a filtered subset (index labels != positions)
    if rng.random() < 0.3:
        # the same table OBJECT is first written in other formats (and in this one): no writer may change it
        i["pre"] = [rng.choice(PRE_FORMATS + [wfmt]) for _ in range(rng.randint(1, 3))]
    k = rng.random()
    if k < 0.15:
        i["via"] = "handle-write"
    elif k < 0.3:
        i["via"] = "handle-read"
    elif k < 0.36:
        i["via"] = "newdir"  # the output directory does not exist yet
    if wfmt == "tab":
        i["ext"] = rng.choice(["cnr", "cnn", "cns", "tsv"])
    return {"op": "fmt_roundtrip", "tag": tag or f"rt-{wfmt}-{rfmt}{'-cna' if cna else ''}", "in": i}


def _seg_case(rng, tag=None, cli=False, nsamp=None):
    nsamp = nsamp or rng.randint(1, 4)
    sids = rng.sample(["S1", "tumor_2", "P-3", "normal", "x9", "T101", "n_b"], nsamp)
    probes = rng.random() < 0.6
    samples = [{"sid": sid, "t0": _table(rng, cna=True, nmax=14, want_probes=probes)} for sid in sids]
    if tag is None and rng.random() < 0.12:
        cli = True  # `cnvkit.py export seg ... -o` then `cnvkit.py import-seg ... -d` through the argument parser
    i = {"samples": samples, "cli": cli}
    if rng.random() < 0.3:
        i["sub"] = rng.randint(1, 10 ** 6)
    return {"op": "seg_roundtrip", "tag": tag or f"seg-{nsamp}{'-cli' if cli else ''}", "in": i}


def corpus():
    import random
    rng = random.Random(8)
    cases = []
    # defect I: the text writer added 1 twice ([10,20) written as chr1:12-20)
    cases.append({"op": "fmt_roundtrip", "tag": "corpus-I",
                  "in": {"wfmt": "text", "rfmt": "text", "cna": False,
                         "t0": {"names": [], "rows": [["chr1", 10, 20, []]]}}})
    cases.append({"op": "fmt_roundtrip", "tag": "corpus-I",
                  "in": {"wfmt": "text", "rfmt": "text", "cna": False,
                         "t0": {"names": ["gene"], "rows": [["chrX", 0, 5, [["s", "g"]]], ["chr2", 100, 200, [["s", "-"]]]]}}})
    # defect U: gene labels that are pandas NA spellings / numbers were lost or altered by the tab reader
    for cna in (True, False):
        rows = [["chr1", 1, 2, [["s", "NA"], ["f", "1/2"]]], ["chr1", 3, 4, [["s", "TP53"], ["f", "1/8"]]]]
        cases.append({"op": "fmt_roundtrip", "tag": "corpus-U",
                      "in": {"wfmt": "tab", "rfmt": "tab", "cna": cna, "t0": {"names": ["gene", "log2"], "rows": rows}}})
    rows = [["chr1", 1, 2, [["s", "7157"], ["f", "1/2"]]], ["chr1", 3, 4, [["s", "0012"], ["f", "1/8"]]]]
    cases.append({"op": "fmt_roundtrip", "tag": "corpus-U",
                  "in": {"wfmt": "tab", "rfmt": "tab", "cna": True, "t0": {"names": ["gene", "log2"], "rows": rows}}})
    # the order spelled out by the property: 1, 2, 10, X, Y, M (both naming styles), written unsorted
    for p in ("chr", ""):
        rows = [[p + c, 5, 9, []] for c in ("M", "Y", "X", "10", "2", "1")]
        cases.append({"op": "fmt_roundtrip", "tag": "corpus-order",
                      "in": {"wfmt": "bed3", "rfmt": "bed3", "cna": False, "t0": {"names": [], "rows": rows}}})
    # boundary coordinates, duplicates, same start / different end
    rows = [["chr1", 0, 1, []], ["chr1", 0, COORD_MAX, []], ["chr1", 0, 1, []], ["chr1", COORD_MAX - 1, COORD_MAX, []],
            ["chr1", 5, 7, []], ["chr1", 5, 6, []]]
    for w, r in WRITE_PAIRS:
        cases.append({"op": "fmt_roundtrip", "tag": "corpus-boundary",
                      "in": {"wfmt": w, "rfmt": r, "cna": False, "t0": {"names": [], "rows": rows}}})
    # empty tables / files
    for w, r in WRITE_PAIRS:
        cases.append({"op": "fmt_roundtrip", "tag": "corpus-empty",
                      "in": {"wfmt": w, "rfmt": r, "cna": False, "t0": {"names": [], "rows": []}}})
    for fmt in ("bed", "bed3", "bed4", "tab", "interval", "text"):
        cases.append({"op": "fmt_read", "tag": "corpus-emptyfile",
                      "in": {"fmt": fmt, "lines": [], "truth": {"names": [], "rows": []}, "carried": [], "cna": False}})
    cases.append({"op": "fmt_read", "tag": "corpus-interval-header-only",
                  "in": {"fmt": "interval", "lines": [["@HD", "VN:1.4"]], "truth": {"names": [], "rows": []}, "carried": [], "cna": False}})
    # every (writer, reader) pair on the boundary rows, the written table being a filtered subset
    for w, r in CROSS_PAIRS:
        c = _cross_case(rng, w, r, tag="corpus-cross", nmax=6)
        c["in"]["written_by"]["sub"] = 5
        cases.append(c)
    # the same table object written in every format, twice, before the write that is compared
    for w, r in WRITE_PAIRS:
        t0 = _table(rng, cna=(w == "tab"), nmax=8, nmin=3)
        cases.append({"op": "fmt_roundtrip", "tag": "corpus-reuse",
                      "in": {"wfmt": w, "rfmt": r, "cna": w == "tab", "t0": t0, "pre": PRE_FORMATS + PRE_FORMATS, "sub": 11}})
    # prefix in any letter case, lower-case x / y: still 1, 2, 10, X, Y, M
    for pfx in ("CHR", "Chr", "cHr"):
        rows = [[pfx + c, 5, 9, []] for c in ("M", "Y", "X", "10", "2", "1")]
        cases.append({"op": "fmt_roundtrip", "tag": "corpus-order",
                      "in": {"wfmt": "bed3", "rfmt": "bed3", "cna": False, "t0": {"names": [], "rows": rows}}})
    # auto-detection of an empty / blank file (read as an empty BED), through each door
    for via in (None, "handle", "fmt-auto"):
        for lines in ([], [["track name=x"]]):  # (a file holding only a blank line raises "Bad line" in read_bed)
            cases.append({"op": "fmt_auto", "tag": "corpus-auto-empty",
                          "in": {"ext": "bed", "lines": lines, "direct": "bed3", "written_by": None, "keep": None, "via": via}})
    # VCF records without END in the simple readers (end from the allele lengths), and a VCF through auto-detection
    hdr = [["##fileformat=VCFv4.2"], ["#CHROM", "POS", "ID", "REF", "ALT", "QUAL", "FILTER", "INFO"]]
    body = [["chr2", "11", ".", "A", "T", ".", ".", "."], ["chr1", "5", ".", "A", "ACGT", ".", "PASS", "DP=3"],
            ["chr1", "50", ".", "ACG", "A", "30", ".", "DP=3"], ["chr1", "1", ".", "C", "<DEL>", ".", ".", "SVTYPE=DEL;END=40"]]
    trows = [["chr2", 10, 10, [["s", "T"], ["s", "A"]]], ["chr1", 4, 7, [["s", "ACGT"], ["s", "A"]]],
             ["chr1", 49, 49, [["s", "A"], ["s", "ACG"]]], ["chr1", 0, 40, [["s", "<DEL>"], ["s", "C"]]]]
    cases.append({"op": "fmt_read", "tag": "corpus-vcf-noend",
                  "in": {"fmt": "vcf-sites", "lines": hdr + body, "truth": {"names": ["alt", "ref"], "rows": trows},
                         "carried": ["alt", "ref"], "cna": False, "keep": ["alt", "ref"]}})
    lines, truth = _author_vcf_snv(rng, nmax=6)
    cases.append({"op": "fmt_auto", "tag": "corpus-auto-vcf",
                  "in": {"ext": "vcf", "lines": lines, "direct": "vcf", "written_by": None, "keep": ["alt", "ref"], "truth": truth}})
    # export seg / import-seg through the command line parser, once
    cases.append(_seg_case(rng, tag="corpus-seg-cli", cli=True, nsamp=2))
    # number classes: ties of the 6-digit rounding, integral floats, huge / tiny
    vals = [999999.5, 99999.95, 123456.5, 1234565.0, 0.1000005, 1e-5, 0.0001, 1e22, 1e23, 5e-324 * 2 ** 60, 1.7976931348623157e308,
            0.30000000000000004, 100000.0, 1e6, 2.5, -2.5, 0.0]
    rows = [["chr1", 10 * k, 10 * k + 5, [["s", "g"], _cell_f(v)]] for k, v in enumerate(vals)]
    cases.append({"op": "fmt_roundtrip", "tag": "corpus-numbers",
                  "in": {"wfmt": "tab", "rfmt": "tab", "cna": True, "t0": {"names": ["gene", "log2"], "rows": rows}}})
    cases.extend(_ext.corpus(_table))
    cases.extend(_lab.corpus())
    cases.extend(_snf.corpus())
    return cases


def gen_cases(rng, tier):
    n = {"quick": 1, "thorough": 5, "search": 2}[tier]
    cases = []
    for fmt in AUTHOR_FORMATS + ["tab-cna"]:
        for _ in range((60 if fmt.startswith("vcf") else 40) * n):
            cases.append(_read_case(rng, fmt))
    for w, r in CROSS_PAIRS:
        for _ in range(30 * n):
            cases.append(_cross_case(rng, w, r))
    for _ in range(400 * n):
        cases.append(_auto_case(rng))
    for w, r in WRITE_PAIRS:
        for _ in range((100 if w in ("tab", "text") else 60) * n):
            cases.append(_rt_case(rng, w, r))
    for _ in range(80 * n):
        cases.append(_seg_case(rng))
    if tier != "search":
        for _ in range(20 * n):
            cases.append(_malformed(rng))
    cases.extend(_ext.gen_cases(rng, tier, _table))   # round 4: after everything else, so earlier case streams are unchanged
    cases.extend(_lab.gen_cases(rng, tier))   # round 5: likewise last
    cases.extend(_snf.gen_cases(rng, tier))   # round 5c: likewise last
    return cases


def _malformed(rng):
    k = rng.randrange(6)
    if k == 0:
        return {"op": "fmt_read", "tag": "malformed", "in": {"fmt": "bed", "lines": [["chr1", "10"]], "cna": False}}
    if k == 1:
        return {"op": "fmt_read", "tag": "malformed", "in": {"fmt": "text", "lines": [["chr1 10 20"]], "cna": False}}
    if k == 2:
        return {"op": "fmt_read", "tag": "malformed", "in": {"fmt": "seg", "lines": [["a", "b", "c"], ["S", "1", "2"]], "cna": False}}
    if k == 3:
        return {"op": "fmt_read", "tag": "malformed", "in": {"fmt": "tab", "lines": [["chrom", "start", "end"], ["chr1", "1", "2"]], "cna": False}}
    if k == 4:
        return {"op": "fmt_auto", "tag": "malformed", "in": {"ext": "txt", "lines": [["hello world"]], "direct": None, "written_by": None, "keep": None}}
    return {"op": "fmt_read", "tag": "malformed", "in": {"fmt": "seg", "lines": [["no tabs here"]], "cna": False}}


# ---------------------------------------------------------------------------------------------
# the real code


def _write_lines(path, lines, nonl=False):
    text = "".join("\t".join(l) + "\n" for l in lines)
    if nonl and text.endswith("\n") and not text.endswith("\n\n"):
        text = text[:-1]  # a file whose last line is not terminated
    with open(path, "w", newline="") as fh:
        fh.write(text)


def _read_lines(path):
    with open(path, newline="") as fh:
        content = fh.read()
    ls = content.split("\n")
    if ls and ls[-1] == "":
        ls = ls[:-1]
    return [l.split("\t") for l in ls]


def _canon(df, keep=None):
    """DataFrame -> {"names", "rows"} with typed cells"""
    import numpy as np
    import pandas as pd

    names = [c for c in df.columns if c not in REQ]
    if keep is not None:
        names = [c for c in names if c in keep]
    cols = {}
    for n in names:
        col = df[n]
        kind = col.dtype.kind if hasattr(col.dtype, "kind") else "O"
        vals = []
        for v in col.tolist():
            if v is None or (isinstance(v, float) and math.isnan(v)) or v is pd.NA:
                vals.append(None)
            elif isinstance(v, bool):
                vals.append(["s", str(v)])
            elif isinstance(v, (int, np.integer)):
                vals.append(["i", int(v)])
            elif isinstance(v, (float, np.floating)):
                vals.append(["f", frac(float(v))] if math.isfinite(v) else ["s", repr(float(v))])
            else:
                vals.append(["s", str(v)])
        cols[n] = vals
    rows = []
    chroms, starts, ends = df["chromosome"].tolist(), df["start"].tolist(), df["end"].tolist()
    for k in range(len(df)):
        rows.append([str(chroms[k]), int(starts[k]), int(ends[k]), [cols[n][k] for n in names]])
    return {"names": names, "rows": rows}


def _frame(t):
    """table -> DataFrame with int64 / float64 / str columns"""
    import pandas as pd

    data = {"chromosome": pd.Series([r[0] for r in t["rows"]], dtype="object"),
            "start": pd.Series([r[1] for r in t["rows"]], dtype="int64"),
            "end": pd.Series([r[2] for r in t["rows"]], dtype="int64")}
    for j, n in enumerate(t["names"]):
        cells = [r[3][j] for r in t["rows"]]
        kinds = {c[0] for c in cells if c is not None}
        if kinds <= {"i"} and all(c is not None for c in cells) and cells:
            data[n] = pd.Series([c[1] for c in cells], dtype="int64")
        elif kinds <= {"i", "f"} and kinds:
            data[n] = pd.Series([float("nan") if c is None else float(Fraction(c[1])) for c in cells], dtype="float64")
        elif not cells:
            data[n] = pd.Series([], dtype="float64" if n not in ("gene", "strand") else "object")
        else:
            data[n] = pd.Series([None if c is None else c[1] for c in cells], dtype="object")
    return pd.DataFrame(data, columns=list(REQ) + list(t["names"]))


def _array(t, cna, sid="S", sub=None):
    """the table as a GenomicArray / CopyNumArray.  With `sub` (a seed) it is built as a filtered SUBSET of a larger
    array (junk rows interleaved, then masked away): its pandas index labels are not 0..n-1, as for every table
    that went through a filter (one chromosome, targets only, drop_low_coverage ...)."""
    from skgenome import GenomicArray
    from cnvlib.cnary import CopyNumArray

    cls = CopyNumArray if cna else GenomicArray
    if sub is None or not t["rows"]:
        return cls(_frame(t), {"sample_id": sid})
    import random
    import numpy as np

    rng = random.Random(sub)
    big, mask = [], []
    for r in t["rows"]:
        for _ in range(rng.choice([0, 1, 1, 2, 3])):
            big.append(copy.deepcopy(rng.choice(t["rows"])))
            mask.append(False)
        big.append(r)
        mask.append(True)
    if all(mask):
        big.insert(0, copy.deepcopy(t["rows"][0]))
        mask.insert(0, False)
    arr = cls(_frame({"names": t["names"], "rows": big}), {"sample_id": sid})
    out = arr[np.array(mask)]
    assert len(out) == len(t["rows"]) and list(out.data.index) != list(range(len(out)))
    return out


def _reader(path, fmt, cna, sel=None, via=None, opts=None):
    """tabio.read / cnvlib.read on a path, or on an open handle (`via` = "handle")"""
    from skgenome import tabio
    import cnvlib

    if via == "handle":
        with open(path) as fh:
            return _reader(fh, fmt, cna, sel, None, opts)
    if cna and fmt == "tab":
        return cnvlib.read(path)
    kw = dict(opts or {})
    if sel is not None:
        kw["sample_id"] = sel
    return tabio.read(path, fmt, **kw)


def _writer(arr, path, fmt, via=None, **kw):
    """tabio.write to a path, or to an open handle"""
    from skgenome import tabio

    if via == "handle":
        with open(path, "w") as fh:
            tabio.write(arr, fh, fmt, **kw)
    else:
        tabio.write(arr, path, fmt, **kw)


def _write_by(wb, path):
    kw = {"chrom_ids": False} if wb["wfmt"] == "seg" else {}
    _writer(_array(wb["t0"], wb["cna"], sub=wb.get("sub")), path, wb["wfmt"], wb.get("via"), **kw)


def run_impl(case):
    from skgenome import tabio

    op, i = case["op"], case["in"]
    if op in _snf.EXT_OPS:
        return _snf.run_impl(case)
    if op in _lab.EXT_OPS:
        return _lab.run_impl(case)
    if op in _ext.EXT_OPS:
        return _ext.run_impl(case, {"read_lines": _read_lines, "array": _array, "writer": _writer, "reader": _reader, "canon": _canon})
    d = tempfile.mkdtemp(dir="/var/tmp", prefix="c08-")
    try:
        if op == "fmt_read":
            p = os.path.join(d, "input.dat")
            wb = i.get("written_by")
            if wb:
                _write_by(wb, p)
            else:
                _write_lines(p, i["lines"], i.get("nonl"))
            arr = _reader(p, i["fmt"], i.get("cna", False), i.get("sel"), i.get("via"), i.get("seg_opts"))
            out = _canon(arr.data, i.get("keep"))
            if wb:
                out["lines"] = _read_lines(p)  # the model reader is run on the very file the real writer made
            return out
        if op == "fmt_auto":
            p = os.path.join(d, "input" + ("." + i["ext"] if i["ext"] else ""))
            wb = i.get("written_by")
            if wb:
                _write_by(wb, p)
                lines = _read_lines(p)
            else:
                lines = i["lines"]
                _write_lines(p, lines, i.get("nonl"))
            out = {"lines": lines}
            try:
                out["fmt"] = tabio.sniff_region_format(p)
            except ValueError as e:
                out["fmt_error"] = "ValueError"
                return out
            if i.get("direct") is None or (out["fmt"] == "vcf") != (i["direct"] == "vcf"):
                return out
            if i.get("via") == "handle":
                with open(p) as fh:
                    auto = tabio.read_auto(fh)
            elif i.get("via") == "fmt-auto":
                auto = tabio.read(p, "auto")
            else:
                auto = tabio.read_auto(p)
            direct = tabio.read(p, i["direct"])
            out["auto"] = _canon(auto.data, i.get("keep"))
            out["direct"] = _canon(direct.data, i.get("keep"))
            return out
        if op == "fmt_roundtrip":
            cna, w, r, via = i["cna"], i["wfmt"], i["rfmt"], i.get("via")
            sub = os.path.join(d, "out", "dir") if via == "newdir" else d
            if via == "newdir":
                os.mkdir(os.path.join(d, "out"))  # safe_write creates the last level only
            f1, f2, f3 = (os.path.join(sub, f"f{k}.{i.get('ext') or ('cnr' if w == 'tab' else w)}") for k in (1, 2, 3))
            wvia = "handle" if via == "handle-write" else None
            rvia = "handle" if via == "handle-read" else None
            a = _array(i["t0"], cna, sub=i.get("sub"))
            for k, pf in enumerate(i.get("pre") or []):
                tabio.write(a, os.path.join(d, f"pre{k}.{pf}"), pf)
            _writer(a, f1, w, wvia)
            b = _reader(f1, r, cna, via=rvia)
            _writer(b, f2, w, wvia)
            c = _reader(f2, r, cna, via=rvia)
            _writer(c, f3, w, wvia)
            return {"file1": _read_lines(f1), "t1": _canon(b.data), "file2": _read_lines(f2), "file3": _read_lines(f3)}
        if op == "seg_roundtrip":
            import argparse
            from cnvlib import commands, export, cmdutil
            import cnvlib

            fnames, cns1 = [], []
            for s in i["samples"]:
                p = os.path.join(d, s["sid"] + ".cns")
                tabio.write(_array(s["t0"], True, s["sid"], sub=i.get("sub")), p)
                fnames.append(p)
                cns1.append(_read_lines(p))
            seg1 = os.path.join(d, "all.seg")
            outdir = os.path.join(d, "imported")
            os.mkdir(outdir)
            if i.get("cli"):
                args = commands.parse_args(["export", "seg"] + fnames + ["-o", seg1])
                args.func(args)
                args = commands.parse_args(["import-seg", seg1, "-d", outdir])
                args.func(args)
            else:
                cmdutil.write_dataframe(seg1, export.export_seg(fnames, chrom_ids=False))
                commands._cmd_import_seg(argparse.Namespace(segfile=seg1, chromosomes=None, prefix=None,
                                                            from_log10=False, output_dir=outdir))
            imported, f2 = [], []
            for s in i["samples"]:
                p = os.path.join(outdir, s["sid"] + ".cns")
                imported.append({"sid": s["sid"] if os.path.exists(p) else "<missing>",
                                 "cns": _read_lines(p), "t1": _canon(cnvlib.read(p).data)})
                f2.append(p)
            produced = sorted(os.listdir(outdir))
            seg2 = os.path.join(d, "again.seg")
            cmdutil.write_dataframe(seg2, export.export_seg(f2, chrom_ids=False))
            return {"cns1": cns1, "seg1": _read_lines(seg1), "imported": imported, "seg2": _read_lines(seg2),
                    "produced": produced}
        raise ValueError(op)
    finally:
        shutil.rmtree(d, ignore_errors=True)


# ---------------------------------------------------------------------------------------------
# line for the Lean driver, verdict


def _is_err(impl):
    return isinstance(impl, dict) and "__error__" in impl


def to_line(case, impl):
    op, i = case["op"], case["in"]
    if op in _snf.EXT_OPS:
        return _snf.to_line(case, impl, _is_err)
    if op in _lab.EXT_OPS:
        return _lab.to_line(case, impl, _is_err)
    if op in _ext.EXT_OPS:
        return _ext.to_line(case, impl, _is_err)
    if op == "fmt_read":
        line = {"op": op, "in": {k: v for k, v in i.items() if k in ("fmt", "lines", "cna", "sel", "truth", "carried") and v is not None}}
        if i.get("written_by"):
            line["in"]["lines"] = [] if _is_err(impl) else impl["lines"]
        if i.get("seg_opts"):
            line["in"]["lines"] = _seg_renamed_lines(i["seg_opts"], i["lines"])
        if not _is_err(impl):
            line["impl"] = {"names": impl["names"], "rows": impl["rows"]}
        return line
    if op == "fmt_auto":
        lines = i["lines"] if _is_err(impl) or "lines" not in impl else impl["lines"]
        line = {"op": op, "in": {"ext": i["ext"], "lines": lines or []}}
        if not _is_err(impl) and "auto" in impl:
            line["impl"] = {"auto": impl["auto"], "direct": impl["direct"]}
        return line
    if op == "fmt_roundtrip":
        line = {"op": op, "in": i}
        if not _is_err(impl):
            line["impl"] = impl
        return line
    if op == "seg_roundtrip":
        line = {"op": op, "in": {"samples": i["samples"]}}
        if not _is_err(impl):
            line["impl"] = {k: impl[k] for k in ("cns1", "seg1", "imported", "seg2")}
        return line
    raise ValueError(op)


def _cmp_cell(m, im):
    if m is None or im is None:
        return m is None and im is None
    if m[0] != im[0]:
        return False
    if m[0] == "f":
        a, b = Fraction(m[1]), Fraction(im[1])
        return abs(a - b) <= Fraction(1, 10 ** 9) * max(1, abs(a))
    return m[1] == im[1]


def _cmp_table(m, im, what):
    if "error" in m:
        return [f"{what}: model error {m['error']!r} but the code returned a table"]
    if m["names"] != im["names"]:
        return [f"{what}: columns model {m['names']} impl {im['names']}"]
    if len(m["rows"]) != len(im["rows"]):
        return [f"{what}: {len(m['rows'])} model rows vs {len(im['rows'])}"]
    for k, (a, b) in enumerate(zip(m["rows"], im["rows"])):
        if a[:3] != b[:3]:
            return [f"{what}: row {k} model {a[:3]} impl {b[:3]}"]
        if len(a[3]) != len(b[3]) or not all(_cmp_cell(x, y) for x, y in zip(a[3], b[3])):
            return [f"{what}: row {k} cells model {a[3]} impl {b[3]}"]
    return []


def _cmp_file(m, lines, what):
    """model cell lines vs the fields of the real file"""
    if "error" in m:
        return [f"{what}: model error {m['error']!r}"]
    if len(m) != len(lines):
        return [f"{what}: {len(m)} model lines vs {len(lines)}"]
    for k, (a, b) in enumerate(zip(m, lines)):
        if len(a) != len(b):
            return [f"{what}: line {k} model {a} file {b}"]
        for c, f in zip(a, b):
            if c is None:
                ok = f == ""
            elif c[0] == "f":
                try:
                    ok = Fraction(f) == Fraction(c[1])
                except (ValueError, ZeroDivisionError):
                    ok = False
            elif c[0] == "i":
                ok = f == str(c[1])
            else:
                ok = f == c[1]
            if not ok:
                return [f"{what}: line {k} model cell {c} file field {f!r}"]
    return []


def _canon_rank(c):
    """rank of a canonical chromosome name in the order the property spells out (1 < 2 < 10 < X < Y < M)"""
    c = c[3:] if c[:3].lower() == "chr" else c
    if c.isdigit() and len(c) <= 3 and c.isascii():
        return int(c)
    return {"X": 1000, "Y": 1001, "M": 1002, "MT": 1002}.get(c)


def _order_clauses(rows):
    """the sort clauses, restated in the harness for tables the Lean driver does not see (VCF through pysam)"""
    out = []
    for k, a in enumerate(rows):
        for b in rows[k + 1:]:
            ra, rb = _canon_rank(a[0]), _canon_rank(b[0])
            if ra is not None and rb is not None and ra > rb and "natural_chromosome_order" not in out:
                out.append("natural_chromosome_order")
            if a[0] == b[0] and (a[1], a[2]) > (b[1], b[2]) and "start_then_end_order" not in out:
                out.append("start_then_end_order")
    names = [r[0] for r in rows]
    blocks = [n for k, n in enumerate(names) if k == 0 or names[k - 1] != n]
    folded = {(n[3:] if n[:3].lower() == "chr" else n).lower() for n in set(names)}
    if len(folded) == len(set(names)) and len(blocks) != len(set(blocks)):
        out.append("chromosomes_contiguous")
    return out


def _outside(msg):
    return isinstance(msg, str) and msg.startswith("outside model")


def judge(case, impl, resp):
    op, tag = case["op"], case.get("tag", "")
    if op in _snf.EXT_OPS:
        return _snf.judge(case, impl, resp, _is_err)
    if op in _lab.EXT_OPS:
        return _lab.judge(case, impl, resp, _is_err)
    if op in _ext.EXT_OPS:
        return _ext.judge(case, impl, resp, _is_err)
    if "error" in resp and "out" not in resp:
        return [], ["driver error: " + resp["error"]], None
    out = resp.get("out")
    spec = list(resp.get("spec") or [])
    malformed = tag == "malformed"
    if op == "fmt_read":
        merr = isinstance(out, dict) and "error" in out
        if _is_err(impl):
            if merr and not _outside(out["error"]):
                return ([] if malformed or "truth" not in case["in"] else ["raises_" + impl["__error__"]]), [], None
            if merr:
                return ([] if malformed else ["raises_" + impl["__error__"]]), [], "outside the model: " + out["error"]
            return (["raises_" + impl["__error__"]] if not malformed else []), \
                [f"code raised {impl['__error__']}: {impl.get('msg')} but the model returned a table"], None
        if merr:
            if _outside(out["error"]):
                return spec, [], "outside the model: " + out["error"]
            return spec, [f"model error {out['error']!r} but the code returned a table"], None
        return spec, _cmp_table(out, impl, "read"), None
    if op == "fmt_auto":
        merr = isinstance(out, dict) and "error" in out
        if _is_err(impl):
            return ["raises_" + impl["__error__"]], [], None
        if "fmt_error" in impl:
            if merr:
                # no claim when the caller named the format through the file name, or the content is ambiguous
                return ([] if malformed or case["in"].get("direct") is None else ["auto_detection_fails"]), [], None
            return [], [f"sniff raised but the model says {out}"], None
        if merr:
            return [], [f"model sniff error but the code says {impl.get('fmt')}"], None
        got = impl["fmt"] or "bed3"
        dis = [] if got == out else [f"sniff: model {out} impl {got}"]
        if "auto" not in impl:
            spec = []
            if case["in"].get("direct") == "vcf":
                spec = ["auto_detection_fails"]  # a VCF that was not recognised as one
        elif case["in"].get("truth") is not None:
            # VCF (read through pysam, outside the Lean model): the records against the regions the harness wrote
            def keyed(t):
                ia, ir = t["names"].index("alt"), t["names"].index("ref")
                return sorted((r[0], r[1], r[2], r[3][ia][1], r[3][ir][1]) for r in t["rows"])
            want, have = keyed(case["in"]["truth"]), keyed(impl["auto"])
            if [w[:3] for w in want] != [h[:3] for h in have]:
                spec = spec + ["coords_zero_based_half_open"]
            elif want != have:
                spec = spec + ["names_kept"]
            spec = spec + _order_clauses(impl["auto"]["rows"])
        return spec, dis, None
    if op == "fmt_roundtrip":
        if _is_err(impl):
            return ["raises_" + impl["__error__"]], [], None
        dis = _cmp_file(out["w1"], impl["file1"], "first write")
        if not dis:
            r1 = out["r1"]
            if "error" in r1 and _outside(r1["error"]):
                return spec, [], "outside the model: " + r1["error"]
            dis = _cmp_table(r1, impl["t1"], "read back")
        if not dis:
            dis = _cmp_file(out["w2"], impl["file2"], "second write")
        return spec, dis, None
    if op == "seg_roundtrip":
        if _is_err(impl):
            return ["raises_" + impl["__error__"]], [], None
        dis = _cmp_file(out["seg"], impl["seg1"], "export seg")
        if not dis:
            p = out["parsed"]
            if isinstance(p, dict) and "error" in p:
                dis = ["import-seg: model error " + p["error"]]
            else:
                want = [s["sid"] for s in case["in"]["samples"]]
                if [x["sid"] for x in p] != want or sorted(impl["produced"]) != sorted(w + ".cns" for w in want):
                    dis = [f"import-seg samples: model {[x['sid'] for x in p]} files {impl['produced']}"]
                for x, im in zip(p, impl["imported"]):
                    dis = dis or _cmp_file(x["cns"], im["cns"], "import-seg " + x["sid"])
        if not dis:
            rr = out["reread"]
            if isinstance(rr, dict) and "error" in rr:
                dis = ["reread: model error " + rr["error"]]
            else:
                for t, im in zip(rr, impl["imported"]):
                    dis = dis or _cmp_table(t, im["t1"], "read imported " + im["sid"])
        return spec, dis, None
    return [], ["unknown op"], None


def nontrivial(case, impl, resp):
    i = case["in"]
    if case["op"] in _snf.EXT_OPS:
        return _snf.nontrivial(case, impl, resp)
    if case["op"] in _lab.EXT_OPS:
        return _lab.nontrivial(case, impl, resp)
    if case["op"] in _ext.EXT_OPS:
        return _ext.nontrivial(case, impl, resp)
    if case["op"] == "fmt_read":
        rows = (i.get("truth") or {}).get("rows") or []
        return len(rows) >= 2 and len({r[0] for r in rows}) >= 2
    if case["op"] == "fmt_auto":
        return not _is_err(impl) and "auto" in impl and len(impl["auto"]["rows"]) >= 1
    if case["op"] == "fmt_roundtrip":
        rows = i["t0"]["rows"]
        return len(rows) >= 2 and (len({r[0] for r in rows}) >= 2 or bool(i["t0"]["names"]))
    if case["op"] == "seg_roundtrip":
        return any(len(s["t0"]["rows"]) >= 2 for s in i["samples"])
    return False


def shrink(case):
    op, i = case["op"], case["in"]
    if op in _snf.EXT_OPS:
        yield from _snf.shrink(case)
        return
    if op in _lab.EXT_OPS:
        yield from _lab.shrink(case)
        return
    if op == "fmt_roundtrip":
        rows = i["t0"]["rows"]
        for k in range(len(rows)):
            c = copy.deepcopy(case)
            c["tag"] = "shrunk"
            del c["in"]["t0"]["rows"][k]
            if c["in"]["t0"]["rows"]:
                yield c
        for j in range(len(i["t0"]["names"])):
            n = i["t0"]["names"][j]
            if i["cna"] and n in ("gene", "log2"):
                continue
            c = copy.deepcopy(case)
            c["tag"] = "shrunk"
            del c["in"]["t0"]["names"][j]
            for r in c["in"]["t0"]["rows"]:
                del r[3][j]
            yield c
    elif op == "seg_roundtrip":
        for k in range(len(i["samples"])):
            if len(i["samples"]) > 1:
                c = copy.deepcopy(case)
                c["tag"] = "shrunk"
                del c["in"]["samples"][k]
                yield c
        for k, s in enumerate(i["samples"]):
            for j in range(len(s["t0"]["rows"])):
                if len(s["t0"]["rows"]) > 1:
                    c = copy.deepcopy(case)
                    c["tag"] = "shrunk"
                    del c["in"]["samples"][k]["t0"]["rows"][j]
                    yield c
