"""C16 (round 5): the dict loop of `GenomicArray._get_gene_map` run directly (op `gene_map`).

The real function is called on a `gene` column given as data -- names, comma-joined lists, repeated names inside one bin,
the empty string, nulls (None / NaN / pd.NA), and a table without a `gene` column -- and compared item for item with the
model's `GeneExt.geneMap` (Lean driver `Driver/GeneExt.lean`), whose spec clauses restate `gene_map_keys`,
`gene_map_index_iff`, `gene_map_values_nonempty` on the real output."""
import itertools

ALPHABET = ["A", "B", "A,B", "B,A", "A,A", "-", "", None]
NULLS = ("none", "nan", "pdna")


def _mk(genes, tag, **kw):
    inp = {"genes": list(genes), "absent": False, "null": "none", "how": "direct"}
    inp.update(kw)
    return {"op": "gene_map", "tag": tag, "in": inp}


def corpus():
    return [
        _mk(["A", "A,B", None, "B", "A"], "corpus-gene-map"),
        _mk(["A", "A,B", None, "B", "A"], "corpus-gene-map-nan", null="nan"),
        _mk([], "corpus-gene-map-empty"),
        _mk([None, None], "corpus-gene-map-all-null", null="pdna"),
        _mk(["A", "B"], "corpus-gene-map-no-gene-column", absent=True),
        _mk(["G1", "Antitarget", "G1,G2", "G2"], "corpus-gene-map-reset-index", how="reset"),
    ]


def gen(rng, tier):
    maxlen = {"quick": 3, "thorough": 4, "search": 3}[tier]
    cases = []
    for n in range(1, maxlen + 1):
        for k, col in enumerate(itertools.product(ALPHABET, repeat=n)):
            cases.append(_mk(col, "gene_map-exhaustive", null=NULLS[k % 3], how=("direct", "reset")[(k // 3) % 2]))
    pool = ["G%d" % j for j in range(1, 7)] + ["Antitarget", "-", ".", "CGH", ""]
    for k in range({"quick": 120, "thorough": 1200, "search": 200}[tier]):
        col = []
        for _ in range(rng.randint(0, 30)):
            r = rng.random()
            if r < 0.08:
                col.append(None)
            elif r < 0.3:
                col.append(",".join(rng.choice(pool) for _ in range(rng.randint(2, 4))))
            else:
                col.append(rng.choice(pool))
        cases.append(_mk(col, "gene_map-random", null=rng.choice(NULLS), how=rng.choice(["direct", "reset"]),
                         absent=(k % 40 == 7)))
    return cases


def run_impl(case):
    import numpy as np
    import pandas as pd

    from skgenome.gary import GenomicArray as GA

    i = case["in"]
    null = {"none": None, "nan": np.nan, "pdna": pd.NA}[i.get("null") or "none"]
    genes = [null if g is None else g for g in i["genes"]]
    n = len(genes)
    data = {"chromosome": ["chr1"] * n, "start": [10 * k for k in range(n)], "end": [10 * k + 10 for k in range(n)]}
    if not i.get("absent"):
        data["gene"] = pd.Series(genes, dtype=object)
    table = pd.DataFrame(data)
    arr = GA(table, {"sample_id": "S"})
    if i.get("how") == "reset":
        # as `by_gene` calls it: arbitrary index labels, then positions
        arr.data.index = [3 * k + 5 for k in range(n)]
        arr = arr.as_dataframe(arr.data.reset_index(drop=True))
    m = arr._get_gene_map()
    return [[str(k), [int(x) for x in v]] for k, v in m.items()]


def judge_dis(out, impl):
    if out != impl and out and len(out[0]) == 3:
        return [f"squash labels differ: model {out} impl {impl}"]
    if out != impl:
        k = next((j for j, (a, b) in enumerate(zip(out, impl)) if a != b), min(len(out), len(impl)))
        return [f"gene map differs at item {k}: model {out[k:k + 2]} impl {impl[k:k + 2]}"]
    return []


def nontrivial(case):
    return any(g is not None and "," in g for g in case["in"]["genes"]) and not case["in"].get("absent")


def shrink(case):
    genes = case["in"]["genes"]
    for k in range(len(genes)):
        c = {"op": case["op"], "tag": "shrunk", "in": dict(case["in"])}
        c["in"]["genes"] = genes[:k] + genes[k + 1:]
        yield c


# ---------------------------------------------------------------------------------------------
# op `squash_cols`: which value of a squashed row lands under which column name, for any order of the optional columns

SQ_VALUES = {"depth": (100.0, 200.0), "gc": (0.25, 0.75), "rmask": (0.1, 0.3), "spread": (1.0, 3.0), "weight": (0.5, 0.7),
             "probes": (3, 5), "baf": (0.4, 0.42)}
SQ_KNOWN = ["depth", "gc", "rmask", "spread", "weight", "probes"]


def sq_corpus():
    mk = lambda rest, tag: {"op": "squash_cols", "tag": tag, "in": {"rest": rest}}
    return [mk(["depth", "weight"], "corpus-squash-cols-plain"), mk(["weight", "depth"], "corpus-squash-cols-swapped"),
            mk(["depth", "probes", "weight"], "corpus-squash-cols-reader-order"), mk([], "corpus-squash-cols-none")]


def sq_gen(rng, tier):
    cases = []
    for _ in range({"quick": 60, "thorough": 400, "search": 60}[tier]):
        rest = rng.sample(SQ_KNOWN, rng.randint(0, 6))
        r = rng.random()
        if r < 0.35:
            rest = [x for x in SQ_KNOWN if x in rest]  # the order the code appends
        cases.append({"op": "squash_cols", "tag": "squash_cols-random", "in": {"rest": rest}})
    return cases


def sq_run(case):
    import numpy as np
    import pandas as pd

    from cnvlib.cnary import CopyNumArray as CNA

    rest = case["in"]["rest"]
    data = {"chromosome": ["chr1"] * 3, "start": [0, 10, 30], "end": [10, 20, 40], "gene": ["A", "A", "-"],
            "log2": [1.0, 2.0, -3.0]}
    for x in rest:
        a, b = SQ_VALUES[x]
        data[x] = [a, b, a]
    arr = CNA(pd.DataFrame(data), {"sample_id": "S"})
    out = arr.squash_genes(summary_func=np.mean).data
    if list(out.columns) != list(data) or len(out) != 2:
        raise AssertionError(f"squash_genes: columns {list(out.columns)}, {len(out)} rows")
    known = {"chr1": ("chromosome", "unique"), "A": ("gene", "name")}
    nums = [(0.0, ("start", "first")), (20.0, ("end", "last")), (1.5, ("log2", "summary"))]
    for x in rest:
        a, b = SQ_VALUES[x]
        nums.append(((a + b) / 2, (x, "summary")))
        nums.append((float(a + b), (x, "total")))
    labels = []
    for c in out.columns:
        v = out[c].iat[0]
        if isinstance(v, str):
            d = known.get(v)
        else:
            hits = [dd for val, dd in nums if abs(float(v) - val) < 1e-9]
            d = hits[0] if len(hits) == 1 else None
        if d is None:
            raise AssertionError(f"squash_genes: value {v!r} under {c!r} is none of the group's summaries")
        labels.append([str(c), d[0], d[1]])
    return labels
