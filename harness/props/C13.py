"""C13 -- access lists exactly the non-N runs of the genome, joined and excluded as asked."""
from __future__ import annotations

import os
import shutil
import tempfile

LEVEL = "proof"
RULE = ("random FASTA texts: 1..4 sequences (empty ones included), each a concatenation of 0..9 runs of "
        "N / n / ACGT / acgt / IUPAC codes of length 0..200 whose lengths are biased to multiples of the line "
        "width +-1 (runs start, end and straddle line breaks), 15 % 'dense' sequences of 6..30 runs of length "
        "1..4 (lines holding 3+ runs, long join chains); rendered with a fixed width 1..80, ragged widths, "
        "two-line records, CRLF, trailing blanks, blank lines (empty or blanks only; inside, at the end, right "
        "after a header), missing final newline; 0..3 exclude BEDs whose coordinates are biased to run edges "
        "+-1 and to the edges left by the earlier exclude files (touching, abutting, overlapping, nested, "
        "duplicated, unsorted, unknown chromosome, 2..4 separate exclusions inside or overhanging one run, "
        "the same file twice), written as bare 3 columns / BED4 / BED6 / with comment lines / track and "
        "browser lines / CRLF; min-gap 0..300 biased to the lengths +-1 of the N runs and of the gaps the "
        "exclusions open; both skip_noncanonical; names from canonical and non-canonical pools; do_access "
        "called with 4 positional arguments (50 %), by keyword, with a tuple of files, with min_gap_size and/or "
        "skip_noncanonical (and an empty exclude list) left to their defaults; plus get_regions alone; ~12 % "
        "of the access cases through `cnvkit.py access` in-process (-s/--min-gap-size[=], -x/--exclude[=] "
        "repeated, -o/--output, -s left out, options before or after the FASTA) and 3 (quick) / 12 (thorough) "
        "as a subprocess `python -m cnvlib.cnvkit access FASTA -s N -x BED` with the regions read from "
        "standard output; 40 (quick) / 600 (thorough) 'symbols' files whose sequences also hold '>' (never first on a "
        "physical line: such a line IS a header), '*', '-', '.', digits -- ordinary non-N characters to the scanner "
        "(Props/C13Text.lean) --, one or two long physical lines per record; "
        "the contig-name rule on assembled names, and a small malformed stream.  "
        "non-trivial = some sequence has both N and non-N characters; distinct = distinct case by hash")
EXHAUSTIVE = {"quick": False, "thorough": False}
ASSUMPTIONS = [
    "sequence names within one FASTA file are distinct (duplicates: join_regions' assertion fires; malformed stream, model mirrors it)",
    "exclude regions have positive length (a zero-width region makes subtract return abutting pieces and join_regions assert; malformed stream)",
    "line ends are \\n or \\r\\n; no lone \\r inside a line; ASCII sequence characters",
    "lowercase n is not a mask character: the code tests for 'N' only, as the property's wording does",
]
TRUSTED_EXTRA = [
    "Python text-mode line iteration, str.rstrip/split, numpy where/diff as modelled in Model/Access.lean",
    "tabio.read(bed3) sorting and GenomicArray.subtract plumbing (by_ranges/groupby) as modelled in Model/Ranges.lean, Model/Interval.lean",
    "Python `re` semantics of the contig-name pattern (anchors, literals, \\d) as interpreted by ruleMatches",
]

CANON = ["chr1", "chr2", "chr10", "chr22", "chrX", "chrY", "1", "2", "X", "Y", "chr3", "7",
         # look like non-canonical names but are not matched by the rule
         "chrEBV2", "xchrEBV", "aNC", "chr1_alt2", "chrUn", "HLA", "haplo", "chr_randomx", "chap1x"]
NONCANON = ["chr1_KI270706v1_random", "chrUn_KI270302v1", "chrUn_GL000195v1", "chr6_GL000250v2_alt",
            "HLA-A*01:01:01:01", "HLA-DRB1*15:01:01:01", "chrEBV", "chrM", "MT", "chrMT", "NC_007605",
            "chr6_cox_hap2", "chr17_ctg5_hap1", "NC1", "AMT1", "hap3", "GL000207.1_random", "xUn_y"]
FRAGS = ["chr", "EBV", "NC", "_random", "Un_", "Un", "HLA-", "HLA", "_alt", "hap", "1", "2", "9", "M", "MT", "T",
         "X", "_", "-", "chrM", "chrE", "BV", "alt", "random", "c", "h", "r", "x", "N", "C", "_al", "t", "ha", "p"]


# ---------------------------------------------------------------------------------------------
# generation


def _render(headers, seqs, style):
    """style: {"kind": fixed|ragged|twoline, "width": w, "widths": [...], "eol": "\\n"|"\\r\\n",
               "trail": str (appended to some lines), "final_nl": bool, "blank_end": int, "blank_mid": bool}"""
    eol = style.get("eol", "\n")
    blank = style.get("blank_ws", "") + eol       # a "blank" line may hold blanks only
    out = []
    for hi, (hdr, seq) in enumerate(zip(headers, seqs)):
        out.append(">" + hdr + eol)
        if style.get("blank_hdr") and hi % 2 == 0:
            out.append(blank)                     # blank line between the header and the sequence
        lines = []
        if style["kind"] == "twoline":
            lines.append(seq)  # an empty sequence gives a blank line, as Bio's "fasta-2line" writes it
        else:
            ws = [style["width"]] if style["kind"] == "fixed" else style["widths"]
            i = k = 0
            while i < len(seq):
                w = ws[k % len(ws)]
                lines.append(seq[i:i + w])
                i += w
                k += 1
        for li, l in enumerate(lines):
            t = style.get("trail", "") if (li + hi) % 3 == 0 else ""
            out.append(l + t + eol)
            if style.get("blank_mid") and (li + hi) % 4 == 1:
                out.append(blank)
    text = "".join(out) + eol * style.get("blank_end", 0)
    if not style.get("final_nl", True) and text.endswith(eol) and not style.get("blank_end", 0):
        text = text[: -len(eol)]
    return text


def _gen_seq(rng, width):
    dense = rng.random() < 0.15   # many very short runs: lines holding 3+ runs (first / inner / tail pieces at once)
    nruns = rng.choice([6, 9, 14, 20, 30]) if dense else rng.choice([0, 1, 1, 2, 3, 4, 5, 6, 9])
    pieces = []
    kind = rng.choice(["N", "A"])
    for _ in range(nruns):
        if dense:
            L = rng.choice([1, 1, 1, 2, 2, 3, 4, width])
        else:
            L = rng.choice([0, 1, 1, 2, 3, max(0, width - 1), width, width + 1, 2 * width, 2 * width + 1,
                            rng.randint(0, 200), rng.randint(0, 30), rng.randint(0, 12)])
        L = min(L, 200)
        if kind == "N":
            pieces.append("N" * L)
        else:
            # IUPAC ambiguity codes other than N are ordinary (non-N) characters
            alpha = rng.choice(["ACGT", "acgt", "n", "ACGTn", "ACGTacgtn", "A", "ACGTRYKMSWBDHVn"])
            pieces.append("".join(rng.choice(alpha) for _ in range(L)))
        # mostly alternate, sometimes repeat the kind (adjacent runs of the same kind merge)
        if rng.random() < 0.85:
            kind = "A" if kind == "N" else "N"
    return "".join(pieces)


def _runs(seq):
    """maximal non-N runs (harness-side helper for biasing coordinates only, never used as oracle)"""
    out, s = [], None
    for i, c in enumerate(seq):
        if c == "N":
            if s is not None:
                out.append((s, i))
                s = None
        elif s is None:
            s = i
    if s is not None:
        out.append((s, len(seq)))
    return out


def _gen_style(rng):
    kind = rng.choice(["fixed"] * 6 + ["ragged"] * 3 + ["twoline"])
    width = rng.choice([1, 2, 3, 4, 5, 7, 10, 13, 20, 50, 60, 70, 80, rng.randint(1, 80)])
    st = {"kind": kind, "width": width, "widths": [rng.randint(1, 80) if rng.random() < 0.5 else rng.randint(1, 6)
                                                    for _ in range(rng.randint(2, 7))],
          "eol": "\r\n" if rng.random() < 0.1 else "\n",
          "trail": rng.choice(["", "", "", "", " ", "\t", "  "]),
          "final_nl": rng.random() < 0.85,
          "blank_end": rng.choice([0, 0, 0, 0, 1, 2]),
          "blank_mid": rng.random() < 0.06,
          "blank_hdr": rng.random() < 0.05,
          "blank_ws": rng.choice(["", "", "", " ", "\t", " \t "])}
    return st


def _gen_file(rng):
    style = _gen_style(rng)
    nseq = rng.randint(1, 4)
    pool = CANON[:12] if rng.random() < 0.5 else (CANON + NONCANON if rng.random() < 0.5 else CANON[:6] + NONCANON)
    names = rng.sample(pool, nseq)
    headers = [n + rng.choice(["", "", " desc", "\tAC:CM000663.2 LN:248956422", "  x y"]) for n in names]
    w = style["width"] if style["kind"] != "twoline" else rng.choice([5, 60])
    seqs = [_gen_seq(rng, w) if rng.random() > 0.08 else "" for _ in names]
    return names, headers, seqs, style


def _gen_beds(rng, names, seqs):
    beds = []
    for _ in range(rng.choice([0, 1, 1, 2, 2, 3])):
        rows = []
        earlier = [r for b in beds for r in b]       # rows of the exclude files generated so far
        for _ in range(rng.choice([0, 1, 2, 3, 4, 6])):
            k = rng.randrange(len(names))
            c = names[k] if rng.random() < 0.92 else rng.choice(["chrZ", "chr1", "other"])
            seq = seqs[k]
            edges = sorted({x for r in _runs(seq) for x in r} | {0, len(seq)})
            # edges left by the earlier files on this sequence: the later subtraction meets pieces cut by the earlier
            edges2 = sorted({x for r in earlier if r[0] == c for x in r[1:]})
            pick = lambda: max(0, rng.choice(edges2 if edges2 and rng.random() < 0.35 else edges)
                               + rng.choice([-2, -1, 0, 0, 0, 1, 2])) if rng.random() < 0.7 \
                else rng.randint(0, len(seq) + 5)
            r = rng.random()
            if (rows or earlier) and r < 0.3:
                b = rng.choice(rows + earlier)  # duplicate / nested / overlapping an earlier row (this or another file)
                c = b[0]
                s = b[1] + rng.choice([0, 0, 1, -1, 3])
                e = b[2] + rng.choice([0, 0, -1, 1, 5])
            elif (rows or earlier) and r < 0.42:
                b = rng.choice(rows + earlier)  # abutting an earlier row, left or right
                c = b[0]
                w = rng.choice([1, 1, 2, 5, 20])
                s, e = (b[2], b[2] + w) if rng.random() < 0.5 else (b[1] - w, b[1])
            else:
                s, e = pick(), pick()
            s, e = max(0, min(s, e)), max(s, e)
            if e <= s:
                e = s + rng.choice([1, 1, 2, 10])
            rows.append([c, s, e])
        if rng.random() < 0.4:
            # several separate exclusions inside (or hanging over the ends of) ONE run: the only way to reach
            # the multi-row arms of `_subtraction` (keep both edges / left / right / neither, 2..4 rows)
            k = rng.randrange(len(names))
            long_runs = [r for r in _runs(seqs[k]) if r[1] - r[0] >= 6]
            if long_runs:
                rs, re_ = rng.choice(long_runs)
                lo, hi = max(0, rs - rng.choice([0, 0, 2])), re_ + rng.choice([0, 0, 2])
                n = min(rng.choice([2, 2, 3, 4]), (hi - lo + 1) // 2)
                pts = sorted(rng.sample(range(lo, hi + 1), 2 * n))
                rows += [[names[k], pts[2 * j], pts[2 * j + 1]] for j in range(n)]
        if rng.random() < 0.6:
            rows.sort(key=lambda r: (r[0], r[1], r[2]))
        beds.append(rows)
    if beds and any(beds) and len(beds) < 3 and rng.random() < 0.08:
        beds.insert(rng.randrange(len(beds) + 1), [list(r) for r in rng.choice([b for b in beds if b])])  # one file twice
    return beds


BEDFMTS = ["bed3"] * 5 + ["bed4", "bed6", "bed6", "comment", "track", "browser", "crlf"]


def _bed_text(rows, fmt):
    """the exclude file as written to disk; the regions are the same in every format"""
    eol = "\r\n" if fmt == "crlf" else "\n"
    out = []
    if fmt == "browser":
        out.append("browser position chr1:1-1000" + eol)
    if fmt in ("track", "browser"):
        out.append('track name="excl" description="regions to exclude"' + eol)
    if fmt == "comment":
        out.append("#chrom\tstart\tend" + eol)
    for k, (c, s, e) in enumerate(rows):
        if fmt == "bed4":
            out.append(f"{c}\t{s}\t{e}\tblk{k}" + eol)
        elif fmt == "bed6":
            out.append(f"{c}\t{s}\t{e}\tLow_Mappability_{k}\t{1000 - k}\t{'+-.'[k % 3]}" + eol)
        else:
            out.append(f"{c}\t{s}\t{e}" + eol)
        if fmt == "comment" and k % 2 == 0:
            out.append(f"# {c}\t0\t999999 is not a region" + eol)
    return "".join(out)


def _acc_gaps(seqs, names, beds):
    """lengths of the stretches between accessible runs once the exclude rows are taken out as well
    (harness-side helper for biasing the min-gap only, never used as oracle)"""
    out = set()
    for name, seq in zip(names, seqs):
        ok = [ch != "N" for ch in seq]
        for b in beds:
            for c, s, e in b:
                if c == name:
                    for p in range(max(0, s), min(len(seq), e)):
                        ok[p] = False
        last = None          # end of the previous accessible run
        for p, v in enumerate(ok):
            if v:
                if last is not None and p > last:
                    out.add(p - last)
                last = p + 1
    return sorted(out)


def _gen_gap(rng, seqs, names=None, beds=None):
    nlens = sorted({e2 - e1 for seq in seqs for (_, e1), (e2, _) in zip(_runs(seq), _runs(seq)[1:])})
    if beds and any(beds) and rng.random() < 0.5:
        # gaps opened or widened by the exclusions count as gaps too
        nlens = [g for g in _acc_gaps(seqs, names, beds) if g not in nlens] or nlens
    r = rng.random()
    if nlens and r < 0.55:
        return max(0, rng.choice(nlens) + rng.choice([-1, 0, 0, 1, 1, 2]))
    if r < 0.75:
        return rng.choice([0, 1, 2, 3, 5, 300])
    if r < 0.78:
        return None
    return rng.randint(0, 300)


def _mk(op, tag, names, headers, seqs, style, **extra):
    i = {"text": _render(headers, seqs, style), "seqs": [[n, s] for n, s in zip(names, seqs)],
         "headers": headers, "style": style}
    i.update(extra)
    return {"op": op, "tag": tag, "in": i}


def _name_cases(rng, n):
    out = [{"op": "canonical_name", "tag": "name-pool", "in": {"name": x}} for x in CANON + NONCANON]
    for _ in range(n):
        nm = "".join(rng.choice(FRAGS) for _ in range(rng.randint(1, 4)))
        out.append({"op": "canonical_name", "tag": "name-assembled", "in": {"name": nm}})
    return out


def corpus():
    fixed = lambda w: {"kind": "fixed", "width": w, "widths": [w], "eol": "\n", "trail": "", "final_nl": True,
                       "blank_end": 0, "blank_mid": False}
    two = dict(fixed(60), kind="twoline")
    cs = [
        # finding T: blank line while no run is open -> zero-length region
        _mk("get_regions", "corpus-T", ["c"], ["c"], ["ACGTNNNN"], dict(fixed(4), blank_end=1)),
        _mk("access", "corpus-T", ["c"], ["c"], ["ACGTNNNN"], dict(fixed(4), blank_end=1), beds=[], gap=0, skip=False),
        _mk("access", "corpus-T", ["c"], ["c"], ["ACGTNNNN"], dict(fixed(4), blank_end=1), beds=[], gap=10, skip=False),
        _mk("get_regions", "corpus-T", ["a", "b"], ["a", "b"], ["", "AC"], two),
        _mk("access", "corpus-T", ["a", "b"], ["a", "b"], ["", "AC"], two, beds=[], gap=5, skip=True),
        # scanner line-boundary classes, by coordinate
        _mk("get_regions", "corpus", ["c"], ["c"], ["ACGTNNNNACGT"], fixed(4)),       # runs end exactly at line ends
        _mk("get_regions", "corpus", ["c"], ["c"], ["NACGTNNACNNNA"], fixed(5)),      # mixed lines, leading N, tail
        _mk("get_regions", "corpus", ["c"], ["c"], ["ACNNGTTNA"], fixed(5)),
        _mk("get_regions", "corpus", ["c"], ["c"], ["nnnnNNNNacgtN"], fixed(3)),      # lowercase n is not a mask
        _mk("get_regions", "corpus", ["c", "d"], ["c x", "d"], ["NNNN", ""], fixed(2)),
        # '>' that is not the first character of a line, '*', '-' are ordinary characters (Props/C13Text.lean)
        _mk("get_regions", "corpus", ["c"], ["c"], ["AC>GNN*-N>A"], two),
        _mk("get_regions", "corpus", ["c"], ["c"], ["AC>GNN*-N>A"], fixed(4)),
        # subtract: nested / overlapping exclusions (finding F, fixed), touching edges; join boundary gap == min_gap
        _mk("access", "corpus-F", ["chr1"], ["chr1"], ["A" * 100], fixed(60),
            beds=[[["chr1", 10, 50], ["chr1", 20, 30]]], gap=0, skip=True),
        _mk("access", "corpus", ["chr1"], ["chr1"], ["AAAANNNNAAAANNNAAAA"], fixed(7), beds=[], gap=4, skip=True),
        _mk("access", "corpus", ["chr1"], ["chr1"], ["AAAANNNNAAAANNNAAAA"], fixed(7), beds=[], gap=None, skip=True),
        _mk("access", "corpus", ["chr1", "chrM", "chrUn_x"], ["chr1", "chrM", "chrUn_x"], ["ACGT", "ACGT", "ANA"],
            fixed(3), beds=[[["chrM", 1, 2]], [["chr1", 0, 1], ["chr1", 3, 9]]], gap=1, skip=False),
        _mk("access_cli", "corpus-cli", ["chr1", "chrM"], ["chr1", "chrM"], ["ACGTNNACGT", "ACGT"], fixed(4),
            beds=[[["chr1", 1, 2]]]),
        _mk("access_cli", "corpus-cli", ["chr1"], ["chr1"], ["ACGTNNACGTNNNNNA"], fixed(4),
            beds=[[["chr1", 1, 2]], [["chr1", 8, 9]]], gap=3),
        # every -x file counts (long option spellings, FASTA argument last, annotated BED with a track line)
        _mk("access_cli", "corpus-cli", ["chr1", "2"], ["chr1", "2"], ["ACGT" * 5, "ACGTNACGT"], fixed(6),
            beds=[[["chr1", 2, 4]], [["chr1", 10, 15], ["2", 1, 2]]], bedfmt=["bed6", "track"], gap=1,
            cliopts={"s": "--min-gap-size=", "x": "--exclude", "o": "--output", "fa_first": False}),
        # do_access with its trailing arguments left to their defaults / given by keyword
        _mk("access", "corpus", ["chr1", "chrM"], ["chr1", "chrM"], ["ACGTNNACGT", "ACGT"], fixed(4),
            beds=[], call="defaults"),
        _mk("access", "corpus", ["chr1", "chrM"], ["chr1", "chrM"], ["ACGTNNACGT", "ACGT"], fixed(4),
            beds=[[["chr1", 0, 1]]], bedfmt=["comment"], skip=False, call="nogap"),
        _mk("access", "corpus", ["chr1", "chrM"], ["chr1", "chrM"], ["ACGTNNACGT", "ACGT"], fixed(4),
            beds=[[["chr1", 0, 1]], [["chr1", 1, 2]]], bedfmt=["crlf", "bed4"], gap=2, call="noskip"),
        # a gap that only the exclusion opens, exactly min-gap wide (kept) and one narrower (bridged)
        _mk("access", "corpus", ["chr1"], ["chr1"], ["A" * 30], fixed(7), beds=[[["chr1", 10, 13]]], gap=3, skip=True,
            call="kw"),
        _mk("access", "corpus", ["chr1"], ["chr1"], ["A" * 30], fixed(7), beds=[[["chr1", 10, 13]]], gap=4, skip=True,
            call="tuple"),
    ]
    return cs


CALLS = ["pos"] * 6 + ["kw", "kw", "tuple", "nogap", "noskip", "defaults"]


def _gen_access(rng, tag=None):
    names, headers, seqs, style = _gen_file(rng)
    if not any(_runs(q) for q in seqs) and rng.random() < 0.75:
        names, headers, seqs, style = _gen_file(rng)     # fewer files without any region at all
    beds = _gen_beds(rng, names, seqs)
    extra = {"beds": beds, "bedfmt": [rng.choice(BEDFMTS) for _ in beds],
             "gap": _gen_gap(rng, seqs, names, beds), "skip": rng.random() < 0.5}
    # how do_access is called: all four arguments by position (the CLI's way), by keyword, the exclude files
    # as a tuple, or with trailing arguments left to their defaults (the key is then absent from the case
    # and the driver takes the default read from the source)
    call = rng.choice(CALLS)
    if call in ("nogap", "defaults"):
        del extra["gap"]
    if call in ("noskip", "defaults"):
        del extra["skip"]
    extra["call"] = call
    return _mk("access", (tag or "access-") + style["kind"], names, headers, seqs, style, **extra)


def _gen_cli(rng, sub=False):
    names, headers, seqs, style = _gen_file(rng)
    beds = _gen_beds(rng, names, seqs)
    while sub and not any(_runs(s) for n, s in zip(names, seqs) if n in CANON[:12]):
        names, headers, seqs, style = _gen_file(rng)
        beds = _gen_beds(rng, names, seqs)
    extra = {"beds": beds, "bedfmt": [rng.choice(BEDFMTS) for _ in beds]}
    if rng.random() < 0.8:      # otherwise -s is left out: the parser's default reaches do_access
        extra["gap"] = _gen_gap(rng, seqs, names, beds) or 0
    # option spellings: short / long / long with '='; options before or after the FASTA argument
    extra["cliopts"] = {"s": rng.choice(["-s", "-s", "--min-gap-size", "--min-gap-size="]),
                        "x": rng.choice(["-x", "-x", "--exclude", "--exclude="]),
                        "o": rng.choice(["-o", "--output"]),
                        "fa_first": rng.random() < 0.6}
    if sub:
        # the command as a user types it: `cnvkit.py access FASTA -s N -x BED`, regions on standard output
        extra["cliopts"]["subprocess"] = True
    return _mk("access_cli", "cli-stdout" if sub else "cli", names, headers, seqs, style, **extra)


def _gen_symbols(rng):
    """sequences over an alphabet with '>' / '*' / '-' / '.' / digits, written so that no physical line starts with '>'
    (a line that starts with '>' IS a header line); everything but the capital N is an ordinary character"""
    names = rng.sample(CANON[:12], rng.randint(1, 3))
    seqs = []
    for _ in names:
        alpha = rng.choice(["ACGT>", "ACGTN>*-.", "acgtn>N", "AC>N", "ACGTN*-.0123456789"])
        q = "".join(rng.choice(alpha + "NN") for _ in range(rng.choice([1, 2, 5, 12, 40, 120])))
        seqs.append(q)
    if rng.random() < 0.5:
        style = {"kind": "twoline", "width": 60, "widths": [60], "eol": rng.choice(["\n", "\r\n"]),
                 "trail": rng.choice(["", " ", "\t"]), "final_nl": rng.random() < 0.8, "blank_end": 0,
                 "blank_mid": False}
        seqs = [("A" + q[1:]) if q.startswith(">") else q for q in seqs]
    else:
        w = rng.choice([3, 5, 8, 60])
        style = {"kind": "fixed", "width": w, "widths": [w], "eol": "\n", "trail": "", "final_nl": True,
                 "blank_end": 0, "blank_mid": False}
        # no physical line may start with '>'
        seqs = ["".join(("A" if (ch == ">" and k % w == 0) else ch) for k, ch in enumerate(q)) for q in seqs]
    return names, list(names), seqs, style


def gen_cases(rng, tier):
    n_acc, n_scan, n_names, n_bad, n_cli, n_sub = {
        "quick": (800, 300, 300, 30, 110, 3), "thorough": (20000, 6000, 3000, 300, 3000, 12),
        "search": (1500, 500, 0, 0, 0, 0)}[tier]
    cases = []
    for _ in range(n_scan):
        names, headers, seqs, style = _gen_file(rng)
        cases.append(_mk("get_regions", "scan-" + style["kind"], names, headers, seqs, style))
    for _ in range(n_acc):
        cases.append(_gen_access(rng))
    for _ in range(n_cli):
        cases.append(_gen_cli(rng))
    for _ in range(n_sub):
        cases.append(_gen_cli(rng, sub=True))
    for k in range({"quick": 40, "thorough": 600, "search": 60}[tier]):
        names, headers, seqs, style = _gen_symbols(rng)
        if k % 2:
            cases.append(_mk("get_regions", "scan-symbols", names, headers, seqs, style))
        else:
            cases.append(_mk("access", "access-symbols", names, headers, seqs, style, beds=_gen_beds(rng, names, seqs),
                             gap=_gen_gap(rng, seqs), skip=True))
    cases += _name_cases(rng, n_names)
    # malformed stream: outside the property's quantifier; only model == code is checked
    for k in range(n_bad):
        names, headers, seqs, style = _gen_file(rng)
        style = dict(style, blank_mid=False, blank_hdr=False)
        kind = k % 3
        if kind == 0:      # sequence text before the first header
            c = _mk("get_regions" if k % 2 else "access", "malformed-noheader", names, headers, seqs, style,
                    beds=[], gap=0, skip=False)
            c["in"]["text"] = rng.choice(["ACGT\n", "N\n", "ANA\n", " \n", "\n"]) + c["in"]["text"]
        elif kind == 1:    # duplicated sequence name
            names = names + [names[0]]
            headers = headers + [names[0]]
            seqs = seqs + [_gen_seq(rng, 5)]
            c = _mk("access", "malformed-dupname", names, headers, seqs, style, beds=_gen_beds(rng, names, seqs),
                    gap=_gen_gap(rng, seqs), skip=False)
        else:              # zero-width exclude region
            beds = _gen_beds(rng, names, seqs) or [[]]
            k2 = rng.randrange(len(names))
            p = rng.randint(0, len(seqs[k2]) + 1)
            beds[0] = beds[0] + [[names[k2], p, p]]
            c = _mk("access", "malformed-zerowidth", names, headers, seqs, style, beds=beds,
                    gap=_gen_gap(rng, seqs), skip=False)
        cases.append(c)
    # round 5: do_access's body run as the program read from its source text (op access_prog), incl. several exclude
    # files, every call style, and the malformed stream (sequence text before the first header + exclude files)
    for k in range({"quick": 150, "thorough": 2500, "search": 200}[tier]):
        c = _gen_access(rng, tag="prog-")
        c["op"] = "access_prog"
        if k % 6 == 5:
            # 4..6 exclude files (the other generators stop at 3): every file of a long `-x` list must count
            names_k = [q[0] for q in c["in"]["seqs"]]
            seqs_k = [q[1] for q in c["in"]["seqs"]]
            beds_k = list(c["in"]["beds"])
            while len(beds_k) < 4:
                beds_k += _gen_beds(rng, names_k, seqs_k) or [[]]
            c["in"]["beds"] = beds_k[:6]
            c["in"]["bedfmt"] = [rng.choice(BEDFMTS) for _ in c["in"]["beds"]]
            c["tag"] = "prog-manyfiles"
            if "gap" in c["in"]:
                c["in"]["gap"] = _gen_gap(rng, seqs_k, names_k, c["in"]["beds"])
        if k % 25 == 24:
            c["tag"] = "malformed-noheader-prog"
            c["in"]["text"] = rng.choice(["ACGT\n", "N\n", "ANA\n"]) + c["in"]["text"]
        cases.append(c)
    # round 5b: get_regions run as the loop read from the source, from the source's own `None` initial state (op
    # get_regions_src): valid files, blank lines before the first header (skipped), every kind of sequence line before
    # the first header (TypeError: all-N, leading-N mixed, leading-base mixed, N-free, unterminated), header-less files
    for k in range({"quick": 120, "thorough": 2000, "search": 150}[tier]):
        names, headers, seqs, style = _gen_file(rng)
        kind = k % 4
        blanks = "".join(rng.choice(["\n", " \n", "\t\r\n", "\r\n"]) for _ in range(rng.randint(0, 3)))
        if kind == 0:
            c = _mk("get_regions_src", "src-scan", names, headers, seqs, style)
        elif kind == 1:
            c = _mk("get_regions_src", "src-leadblank", names, headers, seqs, style)
            c["in"]["text"] = (blanks or "\n") + c["in"]["text"]
        elif kind == 2:
            c = _mk("get_regions_src", "malformed-noheader-src", names, headers, seqs, style)
            junk = rng.choice(["ACGT\n", "N\n", "NNNN\n", "ANA\n", "NAC\n", "NNA\n", "ACNNGT\n", "acgt\n", "N \r\n",
                               "x\n"])
            c["in"]["text"] = blanks + junk + c["in"]["text"]
        else:
            c = _mk("get_regions_src", "malformed-noheader-src", [], [], [], style)
            c["in"]["text"] = rng.choice(["", blanks, blanks + "ACGT", blanks + "NN\n" + blanks, "NAN", blanks + "\n"])
        cases.append(c)
    return cases


# ---------------------------------------------------------------------------------------------
# real code


def _rows(garr):
    return [[str(c), int(s), int(e)] for c, s, e in zip(garr.chromosome, garr.start, garr.end)]


def run_impl(case):
    op, i = case["op"], case["in"]
    if op == "canonical_name":
        from cnvlib.antitarget import is_canonical_contig_name
        return bool(is_canonical_contig_name(i["name"]))
    from cnvlib import access
    d = tempfile.mkdtemp(dir="/var/tmp", prefix="verif-c13-")
    try:
        fa = os.path.join(d, "genome.fa")
        with open(fa, "w", newline="") as f:
            f.write(i["text"])
        if op in ("get_regions", "get_regions_src"):
            return [[str(c), int(s), int(e)] for c, s, e in access.get_regions(fa)]
        fns = []
        fmts = i.get("bedfmt") or []
        for k, rows in enumerate(i["beds"]):
            fn = os.path.join(d, f"excl{k}.bed")
            with open(fn, "w", newline="") as f:
                f.write(_bed_text(rows, fmts[k] if k < len(fmts) else "bed3"))
            fns.append(fn)
        if op in ("access", "access_prog"):
            call = i.get("call", "pos")
            if call == "pos":
                return _rows(access.do_access(fa, fns, i["gap"], i["skip"]))
            kw = {}
            if "gap" in i:
                kw["min_gap_size"] = i["gap"]
            if "skip" in i:
                kw["skip_noncanonical"] = i["skip"]
            if call == "tuple":
                return _rows(access.do_access(fa, tuple(fns), **kw))
            if call == "kw" or fns:
                return _rows(access.do_access(fa_fname=fa, exclude_fnames=fns, **kw))
            return _rows(access.do_access(fa, **kw))      # no exclude files: that argument left to its default too
        if op == "access_cli":
            co = i.get("cliopts") or {}

            def opt(flag, val):
                return [flag + val] if flag.endswith("=") else [flag, val]

            opts = []
            for fn in fns:
                opts += opt(co.get("x", "-x"), fn)
            if "gap" in i:
                opts += opt(co.get("s", "-s"), str(i["gap"]))
            if co.get("subprocess"):
                import subprocess
                import sys
                from harness import core
                env = dict(os.environ, PYTHONPATH=core.REPO)
                argv = [sys.executable, "-m", "cnvlib.cnvkit", "access", fa] + opts
                pr = subprocess.run(argv, cwd=d, env=env, capture_output=True, text=True, timeout=300)
                if pr.returncode != 0:
                    raise RuntimeError("cnvkit.py access failed: " + pr.stderr[-300:])
                lines = pr.stdout.splitlines()
            else:
                from cnvlib import commands
                outfn = os.path.join(d, "out.bed")
                opts += [co.get("o", "-o"), outfn]
                argv = ["access"] + ([fa] + opts if co.get("fa_first", True) else opts + [fa])
                args = commands.parse_args(argv)
                args.func(args)
                args.output.close()
                lines = open(outfn).read().splitlines()
            # read the written BED by hand (chrom, start, end as written)
            rows = []
            for line in lines:
                c, s, e = line.split("\t")[:3]
                rows.append([c, int(s), int(e)])
            return rows
        raise ValueError(op)
    finally:
        shutil.rmtree(d, ignore_errors=True)


def _malformed(case):
    return str(case.get("tag", "")).startswith("malformed")


def to_line(case, impl):
    i = case["in"]
    if case["op"] == "canonical_name":
        return {"op": "canonical_name", "in": {"name": i["name"]}}
    inp = {"text": i["text"], "seqs": i["seqs"]}
    op = case["op"]
    if op == "access_prog":
        # do_access as the program read from its source (Generated.DO_ACCESS_PROG); exclude files left to the default
        # of `exclude_fnames` when the call left them out
        if i["beds"] or i.get("call", "pos") in ("pos", "tuple", "kw"):
            inp["beds"] = i["beds"]
        for k in ("gap", "skip"):
            if k in i:
                inp[k] = i[k]
    if op in ("access", "access_cli"):
        inp["beds"] = i["beds"]
        for k in ("gap", "skip"):       # skip / gap left out: the driver takes the defaults read from the source
            if k in i:
                inp[k] = i[k]
        if op == "access_cli":
            inp["cli"] = True           # `-s` left out: the driver takes the command line's own default
        op = "access"
    line = {"op": op, "in": inp}
    if not (isinstance(impl, dict) and "__error__" in impl) and not _malformed(case):
        line["impl"] = impl
    return line


def _by_seq(rows):
    """observable: per sequence name, its regions in reported order (the order of the sequences
    themselves is not constrained by the property)"""
    if not isinstance(rows, list):
        return rows
    d = {}
    for c, s, e in rows:
        d.setdefault(c, []).append((s, e))
    return d


def judge(case, impl, resp):
    if "error" in resp:
        return [], ["model error: " + resp["error"]], None
    out = resp["out"]
    if resp.get("src_agrees") is False:
        return [], ["model: get_regions' loop as read from the source from `chrom = cursor = run_start = None` "
                    "(C13N.c13nRegions) != getRegions [theorem get_regions_is_the_source_from_none]"], None
    impl_err = impl["__error__"] if isinstance(impl, dict) and "__error__" in impl else None
    model_err = out["raises"] if isinstance(out, dict) and "raises" in out else None
    if impl_err or model_err:
        if impl_err == model_err:
            # both refuse the input; inside the property's quantifier that is a violation
            return ([] if _malformed(case) else ["raises_" + impl_err]), [], None
        if impl_err and not _malformed(case):
            return ["raises_" + impl_err], [], None
        return [], [f"{case['op']}: impl raises {impl_err}, model raises {model_err}"], None
    spec = list(resp.get("spec") or [])
    disagree = []
    if _by_seq(impl) != _by_seq(out):
        disagree.append(f"{case['op']}: impl != model")
    names = [s[0] for s in case["in"].get("seqs", [])]
    if len(set(names)) == len(names) and not _malformed(case):
        if resp.get("per_chrom_agrees") is False:
            disagree.append("model: per-sequence pipeline (accessChrom) != table-level model (doAccess)")
        if resp.get("prog_agrees") is False:
            disagree.append("model: do_access's body as read from the source (DO_ACCESS_PROG) != doAccess "
                            "[theorem do_access_is_the_source]")
        if resp.get("records_agree") is False:
            disagree.append("model: per-record scanSeq != file loop")
        if resp.get("specm"):
            disagree.append("model output violates the spec clauses: " + ",".join(resp["specm"]))
    return spec, disagree, None


def nontrivial(case, impl, resp):
    if case["op"] == "canonical_name":
        return True
    return any(("N" in s) and any(ch != "N" for ch in s) for _, s in case["in"]["seqs"])


def shrink(case):
    i = case["in"]
    if case["op"] == "canonical_name":
        return
    names = [s[0] for s in i["seqs"]]
    seqs = [s[1] for s in i["seqs"]]
    headers, style = i["headers"], i["style"]
    extra = {k: i[k] for k in ("beds", "bedfmt", "gap", "skip", "call", "cliopts") if k in i}

    def mk(nm, hd, sq, st, ex):
        return _mk(case["op"], "shrunk", nm, hd, sq, st, **ex)

    for k in range(len(names)):
        if len(names) > 1:
            yield mk(names[:k] + names[k + 1:], headers[:k] + headers[k + 1:], seqs[:k] + seqs[k + 1:], style, extra)
    if "beds" in extra:
        fm = extra.get("bedfmt") or ["bed3"] * len(extra["beds"])
        for b in range(len(extra["beds"])):
            yield mk(names, headers, seqs, style, dict(extra, beds=extra["beds"][:b] + extra["beds"][b + 1:],
                                                       bedfmt=fm[:b] + fm[b + 1:]))
            for r in range(len(extra["beds"][b])):
                nb = [list(x) for x in extra["beds"]]
                nb[b] = nb[b][:r] + nb[b][r + 1:]
                yield mk(names, headers, seqs, style, dict(extra, beds=nb))
    for k, s in enumerate(seqs):
        n = len(s)
        for a, b in ((0, n // 2), (n // 2, n), (n // 4, n // 2), (0, 1), (n - 1, n)):
            if a < b <= n:
                ns = seqs[:k] + [s[:a] + s[b:]] + seqs[k + 1:]
                yield mk(names, headers, ns, style, extra)
    simple = dict(style, trail="", eol="\n", final_nl=True, blank_mid=False, blank_hdr=False, blank_ws="")
    if simple != style:
        yield mk(names, [n for n in names], seqs, simple, extra)
    if style.get("blank_end", 0):
        yield mk(names, headers, seqs, dict(style, blank_end=0), extra)
    if any(f != "bed3" for f in extra.get("bedfmt") or []):
        yield mk(names, headers, seqs, style, dict(extra, bedfmt=["bed3"] * len(extra["beds"])))
    if extra.get("call", "pos") != "pos" and "gap" in extra and "skip" in extra:
        yield mk(names, headers, seqs, style, dict(extra, call="pos"))
