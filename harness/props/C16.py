"""C16 -- gene-level grouping yields each gene's own bins, each bin exactly once."""
from __future__ import annotations

import math
import os
from fractions import Fraction

from ..core import frac
from . import _c16ext

LEVEL = "proof"
RULE = ("bin tables of 1..5 chromosomes with 0..12 genes of 1..10 bins (names G1.., in 30% of the tables also realistic "
        "names and names that merely contain an ignored name: GCGH, G-, G.1, GAntitarget), other bins "
        "(Antitarget/Background/-/./CGH) before, between, inside and after genes incl. single trailing bins, "
        "default / offset / filtered (gapped) index labels.  About half of the well-formed tables are not the plain "
        "chromosome,start,end,gene,log2,depth,weight table: weight and/or depth column missing (direct calls of "
        "by_gene / genemetrics / breaks; the model then counts weight 1 / depth 1 per bin and the result must not "
        "report the missing column), further columns gc / rmask / spread (squash_genes: also probes), columns in "
        "file-reader order or (not squash_genes) any order.  ops by_gene (default and custom ignore as list or tuple), "
        "do_genemetrics (no segments, an EMPTY segment table, segments cutting genes; 60% of the segment tables with "
        "further columns depth/cn/baf(NaN)/cn1/cn2/ci_lo/ci_hi/stdev/p_ttest, which every reported row must carry from a "
        "segment it lies in, and/or filtered row labels; thresholds incl. exact dyadic ties, min_probes 0..5, skip_low "
        "with -20/-15/depth 0 bins, haploid-X x female/male/guessed, diploid_parx_genome grch37/grch38 in 15%), "
        "squash_genes (mean/median/default summary, squash_antitarget; further columns of a squashed row = summary of "
        "its bins, probes = their sum), do_breaks (same segment layouts).  Direct calls hand the arguments over "
        "positionally, by keyword, or by keyword with every argument that equals its default left out.  Corpus: "
        "finding L witnesses, empty bin tables, empty / single-row segment tables for genemetrics and breaks; plus a "
        "malformed stream (interleaved genes, comma-joined names, zero weights) and, for by_gene, EVERY layout of up to "
        "3 (thorough: 4) bins over the names A, B, 'A,B', 'B,A', '-' (the excluded points of the hypothesis, "
        "exhaustively: model = code row for row; Props/C16Excl.lean says what happens there). About 35% of the well-formed "
        "genemetrics / breaks cases (15-20% of all cases) run through the command line: the 6-digit bin table is "
        "written as .cnr (+ .cns, incl. the further columns and column order) and "
        "`cnvkit.py genemetrics|gainloss [-s] [-t] [-m] [--drop-low-coverage] [-y] [-x SEX] [--diploid-parx-genome G] "
        "[statistics options] -o` or `cnvkit.py breaks [-m] -o` is run in-process (short and long option "
        "spellings, all sex synonyms, -t/-m left implicit when they equal the parser defaults 0.2 / 3 / 1), the "
        "model gets the tables as re-read from the files, the result is the table handed to write_dataframe and the "
        "written file must read back equal to it within 1e-5. non-trivial = hypothesis holds and "
        "the table has >= 1 named gene; distinct by hash")
EXHAUSTIVE = {"quick": False, "thorough": False}
ASSUMPTIONS = ["bins sorted, non-overlapping, positive length inside each chromosome, rows of a chromosome adjacent; "
               "index labels unique and increasing (what reading a file and boolean filtering produce)",
               "the sex used by shift_xx is given, or taken from the real guess_xx and handed to the model (C15)",
               "bins of a segment = outer selection (C07.outer_exact) on sorted disjoint bins",
               "spec clauses are evaluated only when every named gene's bins are consecutive (the property's hypothesis)",
               "a bin table without weight column is modelled as weight 1 per bin (summed weight = bin count, plain means), "
               "one without depth column as depth 1; the harness checks that the result does not report the missing column",
               "squash_genes: optional columns in file-reader order (it fills rows by position; "
               "proposed_fixes/C16-squash-column-order.md); further columns are checked in Python, not by the model"]
TRUSTED_EXTRA = ["pandas groupby(sort=False), DataFrame.iloc/loc slicing, np.average, Series.mean/median",
                 "harness/exprtrans.py, typed reading (class TFn; rules at the top of the file): one iteration of the loops of "
                 "by_gene / get_breakpoints / group_by_genes, segment_mean, the drop_low_coverage mask and the selection tests of "
                 "genemetrics are re-read from cnvlib into Generated/ExprsByGene.lean, ExprsGeneMetrics.lean "
                 "(Props/C16SrcByGene.lean, C16SrcReports.lean: the model equals them)",
                 "biweight_location (default squash summary, C19): only coordinates / row count compared"]
ONLY_OP = os.environ.get("C16_ONLY_OP")  # development: restrict the generated and corpus cases to one op
PREFIX = bool(os.environ.get("C16_PREFIX_MODEL"))  # development: compare with the model of the code before fix L
OTHER = ["Antitarget", "Antitarget", "-", ".", "CGH", "Background"]
ODD_GENES = ["GNAS", "G6PD", "GATA3-AS1", "G.1", "GCGH", "GAntitarget", "G-", "GBackground", "Gcgh", "G_Antitarget"]
# optional columns a bin table may carry besides depth / weight (reference .cnn: gc, rmask, spread)
BIN_EXTRA = ["gc", "rmask", "spread"]
# optional columns of a segment table: `call` (cn, baf, cn1, cn2), `segmetrics` (ci_lo .. p_ttest), `segment` (depth)
SEG_EXTRA = ["depth", "cn", "baf", "cn1", "cn2", "ci_lo", "ci_hi", "stdev", "p_ttest"]
PARX = ["grch37", "grch38"]


# ---------------------------------------------------------------------------------------------
# generators


def _num(rng, kind):
    if kind == "log2":
        k = rng.random()
        if k < 0.35:
            return rng.randint(-24, 24) / 8.0
        if k < 0.42:
            return rng.choice([-20.0, -16.0, -15.0, -14.99, -15.000001, -25.5])
        return rng.uniform(-3, 3)
    if kind == "depth":
        k = rng.random()
        if k < 0.08:
            return 0.0
        if k < 0.4:
            return float(rng.randint(1, 400)) / 4
        return rng.uniform(0.01, 500)
    if kind == "weight":
        k = rng.random()
        if k < 0.4:
            return rng.choice([0.25, 0.5, 1.0, 0.125, 0.75])
        return rng.uniform(0.0001, 1)
    raise ValueError(kind)


def _chrom_names(rng, n):
    style = rng.choice(["chr", ""])
    pool = [str(i) for i in range(1, 23)]
    names = sorted(rng.sample(pool, min(n, len(pool))), key=int)
    if rng.random() < 0.5:
        names = names[: max(0, n - 1)] + ["X"]
        if rng.random() < 0.3 and n >= 2:
            names = names[: n - 2] + ["X", "Y"]
    names = [style + c for c in names][:n]
    if rng.random() < 0.15:
        rng.shuffle(names)
    return names


def _gene_layout(rng, ngenes, malformed):
    """list of gene labels (one per bin) for one chromosome"""
    seq = []

    def other(lo, hi):
        return [rng.choice(OTHER) for _ in range(rng.randint(lo, hi))]

    seq += other(0, 3) if rng.random() < 0.6 else []
    for g in ngenes:
        nb = rng.randint(1, 10) if rng.random() < 0.8 else rng.randint(1, 2)
        bins = [g] * nb
        # other bins inside the gene
        if nb >= 2 and rng.random() < 0.4:
            for _ in range(rng.randint(1, 2)):
                p = rng.randint(1, len(bins) - 1)
                bins[p:p] = other(1, 2)
        seq += bins
        k = rng.random()
        if k < 0.45:
            seq += other(1, 3)
        elif k < 0.6:
            seq += other(1, 1)
    if rng.random() < 0.35:
        seq += other(1, 1)  # single trailing bin
    elif rng.random() < 0.3:
        seq += other(2, 4)
    if malformed and len(ngenes) >= 2 and seq:
        k = rng.random()
        named = [i for i, g in enumerate(seq) if g in ngenes]
        if k < 0.4 and named:
            i = rng.choice(named)
            seq[i] = seq[i] + "," + rng.choice(ngenes)  # comma-joined multi-gene bin
        elif k < 0.8 and named:
            i = rng.choice(named)
            seq.insert(i, rng.choice(ngenes))  # a bin of another gene in the middle
        elif named:
            i = rng.choice(named)
            seq[i] = rng.choice([seq[i] + ",-", seq[i] + "," + seq[i], ""])
    return seq


def _table(rng, malformed=False, small=False):
    nchrom = rng.randint(1, 2 if small else 5)
    chroms = _chrom_names(rng, nchrom)
    ngenes = rng.randint(0, 3 if small else 12)
    gnames = [f"G{i + 1}" for i in range(ngenes)]
    if ngenes and rng.random() < 0.3:
        # realistic names, and names that merely CONTAIN an ignored name (a gene is ignored only on equality)
        for k, nm in zip(rng.sample(range(ngenes), min(ngenes, rng.randint(1, 4))), rng.sample(ODD_GENES, 4)):
            gnames[k] = nm
    rng.shuffle(gnames)
    # distribute genes over chromosomes
    per = {c: [] for c in chroms}
    for g in gnames:
        per[rng.choice(chroms)].append(g)
    if ngenes and rng.random() < 0.15:
        # the same gene name on a second chromosome (grouping is per chromosome)
        per[rng.choice(chroms)].append(rng.choice(gnames))
        for c in per:
            per[c] = list(dict.fromkeys(per[c]))
    rows = []
    for c in chroms:
        layout = _gene_layout(rng, per[c], malformed)
        if not layout:
            layout = [rng.choice(OTHER)] if rng.random() < 0.7 else []
        pos = rng.choice([0, 0, rng.randint(1, 10 ** 6)])
        for g in layout:
            pos += rng.choice([0, 0, 0, rng.randint(1, 5000)])
            ln = rng.randint(1, 800)
            rows.append([c, pos, pos + ln, g, _num(rng, "log2"), _num(rng, "depth"), _num(rng, "weight")])
            pos += ln
    if not rows:
        rows.append([chroms[0], 0, 100, "-", 0.5, 1.0, 1.0])
    # index labels
    k = rng.random()
    if k < 0.4:
        labels = list(range(len(rows)))
    elif k < 0.55:
        off = rng.randint(1, 300)
        labels = [off + i for i in range(len(rows))]
    else:
        # a filtered array: labels increasing with gaps
        labels, cur = [], rng.choice([0, 0, rng.randint(1, 20)])
        for _ in rows:
            labels.append(cur)
            cur += rng.choice([1, 1, 1, 2, 3, rng.randint(1, 40)])
    if rng.random() < 0.08:
        rng.shuffle(labels)  # any unique labelling: the repaired code works by position
    if malformed and rng.random() < 0.2:
        for r in rows:
            if rng.random() < 0.5:
                r[6] = 0.0
    return [[lab, r[0], r[1], r[2], r[3], frac(r[4]), frac(r[5]), frac(r[6])] for lab, r in zip(labels, rows)]


def _segments(rng, rows, thr):
    """segments tiling (most of) each chromosome, boundaries at bin edges or inside bins"""
    by = {}
    for r in rows:
        by.setdefault(r[1], []).append(r)
    segs = []
    chroms = list(by)
    has_probes = rng.random() < 0.75
    has_weight = rng.random() < 0.6
    for c in chroms:
        if len(chroms) > 1 and rng.random() < 0.1:
            continue  # a chromosome without segments
        bins = by[c]
        lo, hi = bins[0][2], bins[-1][3]
        ncut = rng.randint(0, min(4, max(0, len(bins) - 1)))
        cuts = set()
        for _ in range(ncut):
            b = rng.choice(bins)
            cuts.add(rng.choice([b[2], b[3], rng.randint(b[2], b[3])]))
        pts = sorted({p for p in cuts if lo < p < hi})
        edges = [lo - rng.choice([0, 0, 5])] + pts + [hi + rng.choice([0, 0, 7])]
        edges[0] = max(0, edges[0])
        for a, b in zip(edges[:-1], edges[1:]):
            k = rng.random()
            if k < 0.25:
                lg = rng.choice([thr, -thr, thr + 0.25, -thr - 0.5, 0.0])
            elif k < 0.5:
                lg = rng.randint(-16, 16) / 8.0
            else:
                lg = rng.uniform(-2, 2)
            start = a if rng.random() < 0.85 else a + rng.randint(0, 3)  # small gaps between segments
            if start >= b:
                start = a
            segs.append([c, start, b, rng.choice(["-", "G1", "G1,G2"]), frac(lg),
                         rng.randint(0, 12) if has_probes else None,
                         frac(rng.choice([0.5, 1.0, 3.25, rng.uniform(0.1, 30)])) if has_weight else None])
    if rng.random() < 0.05 and segs:
        segs.append(["chrUn_zz", 0, 1000, "-", frac(1.5), 3 if has_probes else None, frac(1.0) if has_weight else None])
    return segs


def _bin_cols(rng, op):
    """how the bin table is laid out: optional columns dropped / added, column order.  None = the plain
    chromosome,start,end,gene,log2,depth,weight table.  (_to_cli puts depth / weight back: the commands read fix output)"""
    if rng.random() < 0.45:
        return None
    spec = {"drop": [], "extra": [], "perm": None}
    if op == "squash_genes":
        # squash_genes builds its rows BY POSITION (depth, gc, rmask, spread, weight, then probes): only the column
        # order a file reader produces (required columns, the others sorted by name) is generated, and a table with
        # a `probes` column has nothing sorting after it (see proposed_fixes/C16-squash-column-order.md)
        spec["perm"] = "sorted"
        if rng.random() < 0.3:
            spec["drop"], spec["extra"] = ["weight"], rng.choice([["probes"], ["gc", "probes"]])
        else:
            spec["extra"] = rng.sample(BIN_EXTRA, rng.randint(1, 3))
        return spec
    if rng.random() < 0.45:
        # a coverage / reference table (.cnn) has no weights; a bare table may have no depth either
        spec["drop"] = rng.choice([["weight"], ["weight"], ["depth"], ["weight", "depth"]])
    if rng.random() < 0.6:
        spec["extra"] = rng.sample(BIN_EXTRA, rng.randint(1, 3))
    if rng.random() < 0.6:
        # any column order (these functions address columns by name), or the one a file reader produces
        spec["perm"] = rng.choice(["sorted", rng.randint(0, 10 ** 6), rng.randint(0, 10 ** 6)])
    if not (spec["drop"] or spec["extra"] or spec["perm"] is not None):
        return None
    return spec


def _seg_repr(rng, segs):
    """how the segment table is laid out: further columns as `segment` / `call` / `segmetrics` write them, and
    row labels of a filtered array (_to_cli drops the labels: a file has none)"""
    if not segs or rng.random() < 0.4:
        return None
    spec = {"cols": [], "vals": [], "index": None}
    if rng.random() < 0.8:
        spec["cols"] = [c for c in SEG_EXTRA if rng.random() < 0.35] or ["cn"]
        for _ in segs:
            row = []
            for c in spec["cols"]:
                if c in ("cn", "cn1", "cn2"):
                    row.append(rng.randint(0, 6))
                elif c == "baf" and rng.random() < 0.3:
                    row.append(None)  # NaN: no heterozygous SNP in the segment
                elif c == "depth":
                    row.append(round(rng.uniform(0, 300), 3))
                else:
                    row.append(round(rng.uniform(-2, 2), 4))
            spec["vals"].append(row)
    if rng.random() < 0.5:
        cur, lab = rng.randint(0, 50), []
        for _ in segs:
            lab.append(cur)
            cur += rng.choice([1, 1, 2, 5, rng.randint(1, 30)])
        spec["index"] = lab
    if not spec["cols"] and spec["index"] is None:
        return None
    return spec


THRS = [0.2, 0.2, 0.2, 0.0, 0.5, 0.25, 1.0, 0.125]
CALLS = ["pos", "pos", "kw", "kw-omit", "kw-omit"]  # how the arguments are handed over (kw-omit: defaults left implicit)
CLI_SHARE = 0.35  # of the well-formed genemetrics / breaks cases
SEX_WORDS = {True: ["f", "x", "female", "Female"], False: ["m", "y", "male", "Male"]}
STAT_OPTS = ["--mean", "--median", "--mode", "--ttest", "--stdev", "--sem", "--mad", "--mse", "--iqr", "--bivar",
             "--ci", "--pi"]


def _r6(q):
    """the number a file written with %.6g carries (tabio.write / write_dataframe)"""
    return frac(float("%.6g" % float(Fraction(q))))


def _to_cli(rng, op, inp):
    """turn a generated genemetrics / breaks case into a command-line case: what a .cnr / .cns can carry
    (default row labels, 6 significant digits) and the spelling of the options"""
    rows = inp["rows"]
    for k, r in enumerate(rows):
        r[0] = k
        r[5], r[6], r[7] = _r6(r[5]), _r6(r[6]), _r6(r[7])
    for s in inp.get("segs") or []:
        s[4] = _r6(s[4])
        if s[6] is not None:
            s[6] = _r6(s[6])
    inp.pop("call", None)
    if inp.get("segs") == []:
        inp["segs"] = None  # no file to hand over
    if inp.get("cols") and inp["cols"].get("drop"):
        inp["cols"] = None  # the command-line cases read fix output: depth and weight present
    if inp.get("seg_repr"):
        inp["seg_repr"]["index"] = None
        if not inp["seg_repr"]["cols"]:
            inp["seg_repr"] = None
    opts = {"long": rng.random() < 0.5, "omit_defaults": rng.random() < 0.7}
    if op == "genemetrics":
        if rng.random() < 0.25:
            inp["min_probes"] = 3  # the parser's default, left implicit when omit_defaults
        opts["cmd"] = "gainloss" if rng.random() < 0.1 else "genemetrics"
        opts["sex"] = None if inp["female"] is None else rng.choice(SEX_WORDS[inp["female"]])
        opts["hapx_opt"] = rng.choice(["-y", "--male-reference", "--haploid-x-reference"])
        # the statistics options are parsed but not used by genemetrics: they must not change the table
        opts["stats"] = rng.sample(STAT_OPTS, rng.randint(1, 4)) if rng.random() < 0.3 else []
        if opts["stats"] and rng.random() < 0.5:
            opts["stats"] += rng.choice([["-a", "0.1"], ["--alpha", "0.01"], ["-b", "50"], ["--bootstrap", "10"]])
    inp["cli"] = True
    inp["cli_opts"] = opts


def _case(rng, op, malformed=False, small=False):
    rows = _table(rng, malformed, small)
    inp = {"rows": rows}
    tag = op + ("-malformed" if malformed else "")
    if not malformed:
        inp["cols"] = _bin_cols(rng, op)
        for r in rows:  # the model's table: a missing weight column counts as weight 1, a missing depth as depth 1
            if inp["cols"] and "weight" in inp["cols"]["drop"]:
                r[7] = frac(1.0)
            if inp["cols"] and "depth" in inp["cols"]["drop"]:
                r[6] = frac(1.0)
    if op == "by_gene":
        k = rng.random()
        inp["ignore_tuple"] = rng.random() < 0.4
        if k < 0.7:
            inp["ignore"] = None
        else:
            genes = sorted({r[4] for r in rows if r[4].startswith("G") and "," not in r[4]})
            inp["ignore"] = rng.choice([[], ["-"], [".", "CGH"], ["-", ".", "CGH"] + (genes[:1] if genes else []),
                                        genes[:2]])
            tag += "-ignore"
    elif op == "genemetrics":
        thr = rng.choice(THRS)
        segs = _segments(rng, rows, thr) if rng.random() < 0.55 else None
        if segs is not None and not segs:
            segs = None
        if segs is None and not malformed and rng.random() < 0.08:
            segs = []  # an EMPTY segment table is handed over: falsy, the genes are reported from the bins
        if thr in (0.0, 0.5, 0.25, 1.0, 0.125) and rng.random() < 0.6:
            # exact ties: every bin of some genes sits at +-thr with dyadic weights, so the weighted mean is
            # exactly the threshold in float arithmetic as well
            genes = sorted({r[4] for r in rows if r[4].startswith("G") and "," not in r[4]})
            for g in rng.sample(genes, min(len(genes), 2)):
                sgn = rng.choice([1, -1])
                for r in rows:
                    if r[4] == g:
                        r[5] = frac(sgn * thr)
                        if not (inp.get("cols") and inp["cols"]["drop"]):
                            r[6], r[7] = frac(float(rng.randint(1, 40))), frac(rng.choice([0.25, 0.5, 1.0]))
        inp.update(segs=segs, thr=frac(thr), thr_f=thr, min_probes=rng.choice([0, 1, 2, 3, 3, 5]),
                   skip_low=rng.random() < 0.5, hapx=rng.random() < 0.5, female=rng.choice([True, False, None]))
        if not malformed:
            inp.update(call=rng.choice(CALLS), parx=rng.choice(PARX) if rng.random() < 0.15 else None,
                       seg_repr=_seg_repr(rng, segs))
        tag += "-segments" if segs else ("-emptysegs" if segs is not None else "-genes")
    elif op == "squash_genes":
        inp.update(summary=rng.choice(["mean", "median", "default"]), squash_antitarget=rng.random() < 0.4,
                   ignore=None if rng.random() < 0.8 else ["-"])
        if not malformed:
            inp["call"] = rng.choice(CALLS)
        tag += "-" + inp["summary"]
    elif op == "breaks":
        inp.update(segs=_segments(rng, rows, 0.2), min_probes=rng.choice([1, 1, 2, 3, 4]))
        if not malformed:
            inp.update(call=rng.choice(CALLS), seg_repr=_seg_repr(rng, inp["segs"]))
    if (op in ("genemetrics", "breaks") and not malformed and not PREFIX and rng.random() < CLI_SHARE
            and (op == "genemetrics" or inp["segs"])):
        _to_cli(rng, op, inp)
        tag = "cli-" + tag
    c = inp.get("cols")
    if c:
        tag += "-cols"
    if inp.get("seg_repr"):
        tag += "-segrepr"
    if PREFIX:
        inp["prefix"] = True
    return {"op": op, "tag": tag, "in": inp}


def _b(label, chrom, s, e, gene, log2=0.5, depth=1.0, weight=1.0):
    return [label, chrom, s, e, gene, frac(log2), frac(depth), frac(weight)]


def corpus():
    a3 = [_b(0, "chr1", 0, 10, "A", 1.0), _b(1, "chr1", 10, 20, "A", 1.0), _b(2, "chr1", 20, 30, "-", -3.0)]
    two = [_b(0, "chr1", 0, 10, "A"), _b(1, "chr1", 10, 20, "A"), _b(2, "chr1", 20, 30, "A"),
           _b(3, "chr2", 0, 10, "B"), _b(4, "chr2", 10, 20, "B"), _b(5, "chr2", 20, 30, "-"),
           _b(6, "chr2", 30, 40, "-"), _b(7, "chr2", 40, 50, "-")]
    filt = [_b(1, "chr1", 10, 20, "A"), _b(2, "chr1", 20, 30, "Antitarget"), _b(4, "chr1", 40, 50, "B"),
            _b(5, "chr1", 50, 60, "-"), _b(6, "chr1", 60, 70, "-"), _b(7, "chr1", 70, 80, "C")]
    gm = [_b(0, "chr1", 0, 10, "A", 1.0), _b(1, "chr1", 10, 20, "A", 1.0), _b(2, "chr1", 20, 30, "A", 1.0),
          _b(3, "chr1", 30, 40, "B", -1.0), _b(4, "chr1", 40, 50, "B", -1.0), _b(5, "chr1", 50, 60, "B", -1.0)]
    cs = [
        # finding L: `.loc[a:b]` is label based and end inclusive
        {"op": "by_gene", "tag": "corpus-L", "in": {"rows": a3, "ignore": None}},
        {"op": "by_gene", "tag": "corpus-L-second-chromosome", "in": {"rows": two, "ignore": None}},
        {"op": "by_gene", "tag": "corpus-L-filtered-index", "in": {"rows": filt, "ignore": None}},
        {"op": "genemetrics", "tag": "corpus-L-genemetrics",
         "in": {"rows": gm, "segs": None, "thr": frac(0.2), "thr_f": 0.2, "min_probes": 3, "skip_low": False,
                "hapx": False, "female": True}},
        {"op": "genemetrics", "tag": "corpus-L-by-segment",
         "in": {"rows": gm, "segs": [["chr1", 0, 20, "-", frac(0.5), 2, frac(1.0)], ["chr1", 20, 60, "-", frac(-0.5), 4, frac(1.0)]],
                "thr": frac(0.2), "thr_f": 0.2, "min_probes": 1, "skip_low": False, "hapx": False, "female": True}},
        {"op": "squash_genes", "tag": "corpus-L-squash",
         "in": {"rows": a3, "summary": "mean", "squash_antitarget": False, "ignore": None}},
        {"op": "breaks", "tag": "corpus-breaks",
         "in": {"rows": gm, "segs": [["chr1", 0, 20, "-", frac(0.5), 2, None], ["chr1", 20, 60, "-", frac(-0.5), 4, None]],
                "min_probes": 1}},
    ]
    zw = [_b(0, "chr1", 0, 10, "A", 1.0, 1.0, 0.0), _b(1, "chr1", 10, 20, "A", 1.0, 1.0, 0.0), _b(2, "chr1", 20, 30, "B", 1.0, 2.0, 0.5)]
    # excluded point: a gene whose weights sum to zero has no weight-averaged depth; np.average raises
    cs.append({"op": "genemetrics", "tag": "corpus-zero-weights",
               "in": {"rows": zw, "segs": None, "thr": frac(0.2), "thr_f": 0.2, "min_probes": 1, "skip_low": False,
                      "hapx": False, "female": True}})
    cs.append({"op": "by_gene", "tag": "corpus-empty", "in": {"rows": [], "ignore": None}})
    cs.append({"op": "squash_genes", "tag": "corpus-empty",
               "in": {"rows": [], "summary": "mean", "squash_antitarget": False, "ignore": None}})
    from .. import c16_squashloop  # round 5b: every branch of the outer loop of squash_genes
    cs.extend(c16_squashloop.corpus(_b))
    # empty tables and empty / single segment tables (an empty segment table is falsy: genes come from the bins)
    gmk = {"thr": frac(0.2), "thr_f": 0.2, "min_probes": 3, "skip_low": False, "hapx": False}
    cs.append({"op": "genemetrics", "tag": "corpus-empty", "in": dict(gmk, rows=[], segs=None, female=True)})
    cs.append({"op": "genemetrics", "tag": "corpus-empty-guess", "in": dict(gmk, rows=[], segs=None, female=None, call="kw-omit")})
    cs.append({"op": "genemetrics", "tag": "corpus-empty-segments", "in": dict(gmk, rows=gm, segs=[], female=True)})
    one = [["chr1", 0, 60, "-", frac(0.5), 6, None]]
    cs.append({"op": "genemetrics", "tag": "corpus-empty-bins-segments", "in": dict(gmk, rows=[], segs=one, female=True)})
    cs.append({"op": "breaks", "tag": "corpus-empty", "in": {"rows": [], "segs": one + [["chr1", 60, 90, "-", frac(1.5), 3, None]], "min_probes": 1}})
    cs.append({"op": "breaks", "tag": "corpus-empty-segments", "in": {"rows": gm, "segs": [], "min_probes": 1}})
    cs.append({"op": "breaks", "tag": "corpus-one-segment", "in": {"rows": gm, "segs": one, "min_probes": 1, "call": "kw-omit"}})
    if PREFIX:
        for c in cs:
            c["in"]["prefix"] = True
    else:
        cs += _c16ext.corpus() + _c16ext.sq_corpus()
    if ONLY_OP:
        cs = [c for c in cs if c["op"] == ONLY_OP]
    return cs


EXCL_NAMES = ["A", "B", "A,B", "B,A", "-"]


def _excluded_cases(maxlen):
    """EXHAUSTIVE small scope at the excluded point of the hypothesis: every layout of up to `maxlen` bins on one
    chromosome over the names A, B, `A,B`, `B,A`, `-` (interleaved genes A B A, nested A B B A, bins listing two genes
    at / inside / outside a gene).  The property is silent there; the model is compared with the code row for row, which
    ties Props/C16Excl.lean (no bin lost, a bin in the group of each gene it lists, a bin twice iff the hypothesis fails)"""
    import itertools
    cs = []
    for n in range(1, maxlen + 1):
        for lay in itertools.product(EXCL_NAMES, repeat=n):
            rows = [_b(k, "chr1", 10 * k, 10 * k + 10, g) for k, g in enumerate(lay)]
            cs.append({"op": "by_gene", "tag": "by_gene-excluded-exhaustive", "in": {"rows": rows, "ignore": None}})
    return cs


def gen_cases(rng, tier):
    n = {"quick": 400, "thorough": 4000, "search": 800}[tier]
    cases = _excluded_cases({"quick": 3, "thorough": 4, "search": 3}[tier])
    if PREFIX:
        cases = []
    for k in range(n):
        small = k % 4 == 0
        for op in ("by_gene", "genemetrics", "squash_genes", "breaks"):
            cases.append(_case(rng, op, False, small))
        if k % 8 == 0:
            op = ("by_gene", "genemetrics", "squash_genes", "breaks")[(k // 8) % 4]
            cases.append(_case(rng, op, True, small))
    if not PREFIX:
        cases += _c16ext.gen(rng, tier) + _c16ext.sq_gen(rng, tier)
    if ONLY_OP:  # development (mutation self-tests): one op only
        cases = [c for c in cases if c["op"] == ONLY_OP]
    return cases


# ---------------------------------------------------------------------------------------------
# the real code


def _xval(name, label):
    """the value of an optional column (gc, rmask, spread, probes) in the bin with this row label"""
    if name == "probes":
        return int(label * 7 % 5) + 1
    return round(((label * 37 + sum(map(ord, name))) % 101) / 101.0, 4)


def _cna(rows, cols=None):
    """the bin table as a CopyNumArray; `cols` = optional columns dropped / added and the column order"""
    import random

    from cnvlib.cnary import CopyNumArray as CNA

    cols = cols or {}
    names = ["chromosome", "start", "end", "gene", "log2", "depth", "weight"]
    keep = [n for n in names if n not in (cols.get("drop") or [])] + list(cols.get("extra") or [])
    data = []
    for r in rows:
        full = dict(zip(names, (r[1], r[2], r[3], r[4], float(Fraction(r[5])), float(Fraction(r[6])), float(Fraction(r[7])))))
        for x in cols.get("extra") or []:
            full[x] = _xval(x, r[0])
        data.append(tuple(full[n] for n in keep))
    arr = CNA.from_rows(data, columns=keep, meta_dict={"sample_id": "S"})
    if cols.get("perm") is not None:
        order = list(keep)
        if cols["perm"] == "sorted":
            order = order[:5] + sorted(order[5:])
        else:
            random.Random(cols["perm"]).shuffle(order)
        arr = CNA(arr.data[order], {"sample_id": "S"})
    arr.data.index = [r[0] for r in rows]
    return arr


def _segarr(segs, repr_=None):
    from cnvlib.cnary import CopyNumArray as CNA

    repr_ = repr_ or {}
    cols = ["chromosome", "start", "end", "gene", "log2"]
    has_p = bool(segs) and segs[0][5] is not None
    has_w = bool(segs) and segs[0][6] is not None
    if has_p:
        cols.append("probes")
    if has_w:
        cols.append("weight")
    data = []
    for s in segs:
        row = [s[0], s[1], s[2], s[3], float(Fraction(s[4]))]
        if has_p:
            row.append(int(s[5]))
        if has_w:
            row.append(float(Fraction(s[6])))
        data.append(tuple(row))
    arr = CNA.from_rows(data, columns=cols, meta_dict={"sample_id": "S"})
    for j, c in enumerate(repr_.get("cols") or []):
        vals = [float("nan") if v[j] is None else v[j] for v in repr_["vals"]]
        if c == "depth":
            arr.data.insert(5, c, vals)  # where `segment` puts it
        else:
            arr.data[c] = vals
    if repr_.get("index"):
        arr.data.index = list(repr_["index"])
    return arr


def _opt(v):
    if v is None:
        return None
    v = float(v)
    return None if math.isnan(v) else frac(v)


def _gm_rows(tab, cols=None):
    rows = []
    drop = (cols or {}).get("drop") or []
    if len(tab) and any(d in tab.columns for d in drop):
        raise AssertionError(f"the table reports a column the bins do not have: {drop}")
    for k in range(len(tab)):
        r = tab.iloc[k]
        # a table without weights: every bin counts once (summed weight = bin count); without depth: depth 1
        rows.append([str(r["gene"]), str(r["chromosome"]), int(r["start"]), int(r["end"]), _opt(r["log2"]),
                     frac(1.0) if "depth" in drop else frac(float(r["depth"])),
                     frac(float(r["probes"])) if "weight" in drop else frac(float(r["weight"])), int(r["probes"]),
                     _opt(r["segment_weight"]) if "segment_weight" in tab.columns else None,
                     int(r["segment_probes"]) if "segment_probes" in tab.columns else None])
    return rows


def _same_num(a, b):
    if a is None or (isinstance(a, float) and math.isnan(a)):
        return b is None or (isinstance(b, float) and math.isnan(b))
    if b is None or (isinstance(b, float) and math.isnan(b)):
        return False
    return abs(float(a) - float(b)) <= 1e-5 * max(1.0, abs(float(b)))


def _check_seg_extras(tab, segdata, bin_columns):
    """given segments with further columns (cn, baf, ci_lo ...), every reported part of a gene carries the values
    of a segment it lies in.  `segdata` = the segment table handed to the code (a copy taken before the call)"""
    extra = [c for c in segdata.columns if c not in bin_columns and c not in ("depth", "probes", "weight")]
    if not extra or not len(tab):
        return
    for c in extra:
        if c not in tab.columns:
            raise AssertionError(f"the segments' column {c} is not reported")
    for k in range(len(tab)):
        r = tab.iloc[k]
        ok = False
        for j in range(len(segdata)):
            if (str(segdata["chromosome"].iat[j]) != str(r["chromosome"])
                    or not (int(segdata["start"].iat[j]) < int(r["end"]) and int(segdata["end"].iat[j]) > int(r["start"]))):
                continue
            if "segment_probes" in tab.columns and int(segdata["probes"].iat[j]) != int(r["segment_probes"]):
                continue
            if all(_same_num(r[c], segdata[c].iat[j]) for c in extra):
                ok = True
                break
        if not ok:
            raise AssertionError(f"row {k} ({r['gene']}) does not carry the further columns of a segment it lies in")


def _check_squash_extras(out, rows, cols, summary):
    """squash_genes on a table with further columns: a squashed row summarises them like log2 (probes: summed),
    a single bin keeps its own"""
    import numpy as np

    extra = list((cols or {}).get("extra") or [])
    if not extra:
        return
    d = out.data
    if [str(c) for c in d.columns] != [str(c) for c in _cna(rows[:1], cols).data.columns]:
        raise AssertionError(f"squash_genes changed the columns: {list(d.columns)}")
    for k in range(len(d)):
        c, s, e = str(d["chromosome"].iat[k]), int(d["start"].iat[k]), int(d["end"].iat[k])
        grp = [r for r in rows if r[1] == c and r[2] >= s and r[3] <= e]
        if not grp or (len(grp) > 1 and summary == "default"):
            continue
        for x in extra:
            vals = [_xval(x, r[0]) for r in grp]
            if len(grp) == 1:
                want = vals[0]
            elif x == "probes":
                want = sum(vals)
            else:
                want = float(np.mean(vals) if summary == "mean" else np.median(vals))
            if not _same_num(float(d[x].iat[k]), want):
                raise AssertionError(f"squashed row {k} ({c}:{s}-{e}) column {x}: {d[x].iat[k]!r}, its bins give {want!r}")


def _break_rows(tab):
    return [[str(r.gene), str(r.chromosome), int(r.location), frac(float(r.change)), int(r.probes_left),
             int(r.probes_right)] for r in tab.itertuples(index=False)]


def _reread(path, intended, kind):
    """the table the command will read from `path` (read_cna sorts and renumbers), as model input rows; it must
    be the intended table up to the order of chromosomes and the last bit of a parsed decimal"""
    from cnvlib.cmdutil import read_cna

    arr = read_cna(path)
    d = arr.data
    out = []
    for k in range(len(d)):
        base = [str(d["chromosome"].iat[k]), int(d["start"].iat[k]), int(d["end"].iat[k]), str(d["gene"].iat[k]),
                frac(float(d["log2"].iat[k]))]
        if kind == "bins":
            out.append([int(d.index[k])] + base + [frac(float(d["depth"].iat[k])), frac(float(d["weight"].iat[k]))])
        else:
            out.append(base + [int(d["probes"].iat[k]) if "probes" in d.columns else None,
                               frac(float(d["weight"].iat[k])) if "weight" in d.columns else None])
    off = 1 if kind == "bins" else 0
    want = {tuple(r[off:off + 3]): r[off + 3:] for r in intended}
    got = {tuple(r[off:off + 3]): r[off + 3:] for r in out}

    def same(a, b):  # position 0 is the gene name; the others are numbers (exact rational strings, ints) or None
        if a is None or b is None:
            return a is None and b is None
        a, b = Fraction(a), Fraction(b)
        return abs(a - b) <= Fraction(1, 10 ** 12) * max(abs(a), abs(b))
    if len(out) != len(intended) or set(want) != set(got) or any(
            len(want[k]) != len(got[k]) or want[k][0] != got[k][0]
            or not all(same(a, b) for a, b in zip(want[k][1:], got[k][1:])) for k in want):
        raise AssertionError(f"the written {kind} table does not read back as written")
    return arr, out


def _check_written(path, table):
    """the file the command wrote reads back as the table it handed to the writer (6 significant digits)"""
    import pandas as pd

    back = pd.read_csv(path, sep="\t", converters={"gene": str, "chromosome": str})
    if [str(c) for c in back.columns] != [str(c) for c in table.columns] or len(back) != len(table):
        raise AssertionError("the written table has other columns / rows than the table computed")
    for col in table.columns:
        for a, b in zip(back[col].tolist(), table[col].tolist()):
            if isinstance(b, str):
                ok = str(a) == b
            else:
                a, b = float(a), float(b)
                ok = (math.isnan(a) and math.isnan(b)) or abs(a - b) <= 1e-5 * abs(b)
            if not ok:
                raise AssertionError(f"the written table does not read back as computed (column {col}: {a!r} vs {b!r})")


def _run_cli(case):
    """the same computation through `cnvkit.py genemetrics` / `cnvkit.py breaks` (argument parser, file readers,
    _cmd_* glue, writer), in-process"""
    import logging
    import shutil
    import tempfile
    from cnvlib import commands
    from skgenome import tabio

    i, op = case["in"], case["op"]
    o = i.get("cli_opts") or {}
    lng = bool(o.get("long"))
    omit = bool(o.get("omit_defaults"))
    quiet = logging.root.manager.disable  # the harness workers run with logging disabled: restore, do not enable
    d = tempfile.mkdtemp(dir="/var/tmp", prefix="c16cli")
    try:
        fr, fs, fo = (os.path.join(d, n) for n in ("S.cnr", "S.cns", "S.out.tsv"))
        logging.disable(logging.CRITICAL)
        try:
            tabio.write(_cna(i["rows"], i.get("cols")), fr)
            if i.get("segs"):
                tabio.write(_segarr(i["segs"], i.get("seg_repr")), fs)
        finally:
            logging.disable(quiet)
        arr, rows = _reread(fr, i["rows"], "bins")
        segarr, segs = _reread(fs, i["segs"], "segments") if i.get("segs") else (None, None)
        if op == "genemetrics":
            argv = [o.get("cmd") or "genemetrics", fr]
            if segs is not None:
                argv += ["--segment" if lng else "-s", fs]
            if not (omit and i["thr_f"] == 0.2):
                argv += ["--threshold" if lng else "-t", repr(float(i["thr_f"]))]
            if not (omit and i["min_probes"] == 3):
                argv += ["--min-probes" if lng else "-m", str(i["min_probes"])]
            if i["skip_low"]:
                argv += ["--drop-low-coverage"]
            if i["hapx"]:
                argv += [o.get("hapx_opt") or "-y"]
            if i["female"] is not None:
                argv += ["--sample-sex" if lng else "-x", o.get("sex") or ("female" if i["female"] else "male")]
            if i.get("parx"):
                argv += ["--diploid-parx-genome", i["parx"]]
            argv += list(o.get("stats") or [])
        else:
            argv = ["breaks", fr, fs]
            if not (omit and i["min_probes"] == 1):
                argv += ["--min-probes" if lng else "-m", str(i["min_probes"])]
        argv += ["--output" if lng else "-o", fo]
        captured = []
        real = commands.write_dataframe

        def proxy(outfname, dframe, *a, **k):
            captured.append((outfname, dframe))
            return real(outfname, dframe, *a, **k)
        commands.write_dataframe = proxy
        logging.disable(logging.CRITICAL)
        try:
            args = commands.parse_args(argv)
            args.func(args)
        finally:
            logging.disable(quiet)
            commands.write_dataframe = real
        if len(captured) != 1 or captured[0][0] != fo or not os.path.exists(fo):
            raise AssertionError(f"cnvkit.py {argv[0]} did not write exactly one table to the requested output")
        tab = captured[0][1]
        _check_written(fo, tab)
        reread = {"rows": rows, "segs": segs}
        if op == "genemetrics":
            if i["female"] is None:
                g = arr.guess_xx(is_haploid_x_reference=i["hapx"], diploid_parx_genome=i.get("parx"))
                used = None if g is None else bool(g)
            else:
                used = i["female"]
            if segarr is not None:
                _check_seg_extras(tab, segarr.data, list(arr.data.columns))
            return {"rows": _gm_rows(tab), "female": used, "reread": reread}
        return {"breaks": _break_rows(tab), "reread": reread}
    finally:
        shutil.rmtree(d, ignore_errors=True)


def run_impl(case):
    from cnvlib import reports

    if case["op"] == "gene_map":
        return _c16ext.run_impl(case)
    if case["op"] == "squash_cols":
        return _c16ext.sq_run(case)
    i = case["in"]
    if i.get("cli"):
        return _run_cli(case)
    arr = _cna(i["rows"], i.get("cols"))
    op = case["op"]
    call = i.get("call") or "pos"
    if op == "by_gene":
        if i.get("ignore") is None:
            it = arr.by_gene()
        else:
            it = arr.by_gene(tuple(i["ignore"]) if i.get("ignore_tuple") else list(i["ignore"]))
        return [[str(g), [int(x) for x in sub.data.index]] for g, sub in it]
    if op == "genemetrics":
        segs = _segarr(i["segs"], i.get("seg_repr")) if i.get("segs") is not None else None
        segdata = segs.data.copy() if segs is not None else None
        female = i["female"]
        if female is None:
            g = arr.guess_xx(is_haploid_x_reference=i["hapx"], diploid_parx_genome=i.get("parx"))
            used = None if g is None else bool(g)
        else:
            used = female
        if call == "pos":
            args = [arr, segs, i["thr_f"], i["min_probes"], i["skip_low"], i["hapx"], female]
            tab = reports.do_genemetrics(*(args + ([i["parx"]] if i.get("parx") else [])))
        else:
            kw = dict(segments=segs, threshold=i["thr_f"], min_probes=i["min_probes"], skip_low=i["skip_low"],
                      is_haploid_x_reference=i["hapx"], is_sample_female=female, diploid_parx_genome=i.get("parx"))
            if call == "kw-omit":
                dflt = dict(segments=None, threshold=0.2, min_probes=3, skip_low=False, is_haploid_x_reference=False,
                            is_sample_female=None, diploid_parx_genome=None)
                kw = {k: v for k, v in kw.items() if not (v is dflt[k] or (k in ("threshold", "min_probes") and v == dflt[k]))}
            tab = reports.do_genemetrics(arr, **kw)
        if segdata is not None and len(segdata):
            _check_seg_extras(tab, segdata, list(arr.data.columns))
        return {"rows": _gm_rows(tab, i.get("cols")), "female": used}
    if op == "squash_genes":
        import numpy as np

        kw = {}
        if i["summary"] == "mean":
            kw["summary_func"] = np.mean
        elif i["summary"] == "median":
            kw["summary_func"] = np.median
        if i.get("ignore") is not None:
            kw["ignore"] = list(i["ignore"])
        if call != "kw-omit" or i["squash_antitarget"]:
            kw["squash_antitarget"] = i["squash_antitarget"]
        if call == "pos" and i["summary"] != "default" and i.get("ignore") is not None:
            out = arr.squash_genes(kw["summary_func"], i["squash_antitarget"], tuple(i["ignore"]))
        else:
            out = arr.squash_genes(**kw)
        d = out.data
        if "malformed" not in case.get("tag", ""):
            _check_squash_extras(out, i["rows"], i.get("cols"), i["summary"])
            from .. import c16_squashloop  # round 5b: the loop's clauses (Props/C16SquashLoop.lean) on the real objects
            c16_squashloop.check_loop(out, arr, i.get("ignore"), i["squash_antitarget"])
        return [[str(d["chromosome"].iat[k]), int(d["start"].iat[k]), int(d["end"].iat[k]), str(d["gene"].iat[k]),
                 _opt(d["log2"].iat[k]), _opt(d["depth"].iat[k]),
                 _opt(d["weight"].iat[k]) if "weight" in d.columns else None] for k in range(len(d))]
    if op == "breaks":
        segs = _segarr(i["segs"], i.get("seg_repr"))
        if call == "kw-omit" and i["min_probes"] == 1:
            return _break_rows(reports.do_breaks(arr, segs))
        if call == "pos":
            return _break_rows(reports.do_breaks(arr, segs, i["min_probes"]))
        return _break_rows(reports.do_breaks(probes=arr, segments=segs, min_probes=i["min_probes"]))
    raise ValueError(op)


# ---------------------------------------------------------------------------------------------
# model side


def _is_err(impl):
    return isinstance(impl, dict) and "__error__" in impl


def to_line(case, impl):
    inp = {k: v for k, v in case["in"].items() if not k.endswith("_f") and k not in (
        "cli", "cli_opts", "cols", "seg_repr", "call", "parx", "ignore_tuple", "null", "how")}
    line = {"op": case["op"], "in": inp}
    if isinstance(impl, dict) and impl.get("reread"):
        # a command-line case: the model gets the tables the command read from the files
        inp["rows"] = impl["reread"]["rows"]
        if impl["reread"].get("segs") is not None:
            inp["segs"] = impl["reread"]["segs"]
    if _is_err(impl):
        if case["op"] == "genemetrics":
            line["impl"] = {"error": impl["__error__"]}
        return line
    if case["op"] == "genemetrics":
        inp["female"] = impl["female"]
        line["impl"] = impl["rows"]
    elif isinstance(impl, dict) and "breaks" in impl:
        line["impl"] = impl["breaks"]
    else:
        line["impl"] = impl
    return line


def _close(a, b):
    if a is None or b is None:
        return a is None and b is None
    a, b = Fraction(a), Fraction(b)
    return abs(a - b) <= Fraction(1, 10 ** 9) * max(1, abs(b))


def _cmp_rows(kind, out, impl, exact, approx):
    if len(out) != len(impl):
        return [f"{kind}: row count model {len(out)} impl {len(impl)}"]
    for k, (m, im) in enumerate(zip(out, impl)):
        if any(m[j] != im[j] for j in exact) or not all(_close(im[j], m[j]) for j in approx):
            return [f"{kind} row {k}: model {m} impl {im}"]
    return []


def judge(case, impl, resp):
    op = case["op"]
    if "error" in resp:
        return [], ["model error: " + resp["error"]], None
    out = resp["out"]
    if _is_err(impl):
        if isinstance(out, dict) and out.get("error") == impl["__error__"]:
            return [], [], None  # the excluded point (a gene whose weights sum to zero): both refuse
        return ["raises_" + impl["__error__"]], [], None
    if isinstance(out, dict) and "error" in out:
        return [], [f"model refuses ({out['error']}) but the code answered"], None
    spec = list(resp.get("spec") or [])
    dis = []
    if op == "by_gene":
        if out != impl:
            k = next((j for j, (a, b) in enumerate(zip(out, impl)) if a != b), min(len(out), len(impl)))
            dis.append(f"groups differ at {k}: model {out[k:k + 2]} impl {impl[k:k + 2]}")
    elif op == "genemetrics":
        dis = _cmp_rows("genemetrics", out, impl["rows"], (0, 1, 2, 3, 7, 9), (4, 5, 6, 8))
    elif op == "squash_genes":
        if case["in"]["summary"] == "default":
            dis = _cmp_rows("squash", out, impl, (0, 1, 2, 3), ())
        elif "weight" in ((case["in"].get("cols") or {}).get("drop") or []):
            dis = _cmp_rows("squash", out, impl, (0, 1, 2, 3), (4, 5))  # a table without weights
        else:
            dis = _cmp_rows("squash", out, impl, (0, 1, 2, 3), (4, 5, 6))
    elif op in ("gene_map", "squash_cols"):
        dis = _c16ext.judge_dis(out, impl)
    elif op == "breaks":
        key = lambda r: (r[1], r[2], r[0], r[4], r[5])
        got = impl["breaks"] if isinstance(impl, dict) else impl  # a command-line case carries the re-read input too
        dis = _cmp_rows("breaks", sorted(out, key=key), sorted(got, key=key), (0, 1, 2, 4, 5), (3,))
    if (spec or dis) and "slack" in resp and 0 < Fraction(resp["slack"]) < Fraction(1, 10 ** 9):
        # an inexact float sits within 1e-9 of the threshold (an exact tie, slack 0, is compared exactly:
        # the generator only produces ties from dyadic numbers, on which the float arithmetic is exact)
        return [], [], "a |log2| >= threshold comparison within 1e-9 of its boundary"
    return spec, dis, None


def nontrivial(case, impl, resp):
    if _is_err(impl) or not resp.get("wf", True):
        return False
    if case["op"] == "squash_cols":
        return len(case["in"]["rest"]) >= 2
    if case["op"] == "gene_map":
        return _c16ext.nontrivial(case)
    return any(r[4].startswith("G") for r in case["in"]["rows"])


def shrink(case):
    if case["op"] == "squash_cols":
        return
    if case["op"] == "gene_map":
        yield from _c16ext.shrink(case)
        return
    rows = case["in"]["rows"]
    for k in range(len(rows)):
        c = {"op": case["op"], "tag": "shrunk", "in": dict(case["in"])}
        c["in"]["rows"] = rows[:k] + rows[k + 1:]
        if c["in"]["rows"]:
            yield c
    segs = case["in"].get("segs")
    if segs and len(segs) > 1:
        for k in range(len(segs)):
            c = {"op": case["op"], "tag": "shrunk", "in": dict(case["in"])}
            c["in"]["segs"] = segs[:k] + segs[k + 1:]
            sr = case["in"].get("seg_repr")
            if sr:
                c["in"]["seg_repr"] = {"cols": sr["cols"], "vals": sr["vals"][:k] + sr["vals"][k + 1:] if sr["cols"] else [],
                                       "index": (sr["index"][:k] + sr["index"][k + 1:]) if sr["index"] else None}
            yield c
