"""C09, op "covglue": the glue `cnvlib.coverage.do_coverage` / `interval_coverages` -- which external calls happen, in which
order, with which option values.

Real code: `coverage.do_coverage(bed, bam, ..)` itself, with the things it calls replaced (for the duration of the call, in
the module's namespace only) by recording stand-ins: `samutil` (ensure_bam_sorted answers what the case says,
ensure_bam_index, get_read_length, bam_total_reads), `open` (records the regions file being opened, then really opens it),
`interval_coverages_count` / `interval_coverages_pileup` (record the `min_mapq` and `procs` they receive and return a
two-bin result of the real shape, so that the real table construction runs).  The regions file is a real file (blank
variants: empty, newlines only, white space only; non-blank: a record first / after blank lines / a comment line).
Model: lean/CnvVerif/Model/CoverageExt5Glue.lean; theorems Props/C09SrcGlue.lean; the statements of the call are also
produced from the plans re-read from the source (Generated/ExprsCovGlue.lean) and must be the model's.
Observables: the trace of calls [["sorted"], ["index"], ["bed"], ["run", algo, min_mapq, workers]], and the result:
RuntimeError / empty table / a table of the rows the selected algorithm's stand-in returned (its marker gene names).
What the two algorithms really compute for given options is op "cov" (real BAM files).
"""
from __future__ import annotations

import builtins
import os
import shutil
import tempfile
import time
import types

BLANK = ["", "\n", "\n\n\n", "  \n\t\n", " "]
FILLED = ["chr1\t0\t10\n", "\n\nchr1\t0\t10\tg\n", "chr1\t0\t10", "#c\n", " \nchr2\t5\t9\tx\nchr2\t9\t12\ty\n"]
PROCS = [None, -3, -1, 0, 0, 1, 1, 2, 4, 16]
MAPQ = [0, 0, 1, 10, 30, 60, 255]
STYLES = ["kw", "pos", "implicit", "mixed"]


def _one(rng, **fix):
    blank = fix.get("blank", rng.random() < 0.2)
    i = {"sorted": fix.get("sorted", rng.random() < 0.8), "blank": blank,
         "bed_text": rng.choice(BLANK if blank else FILLED),
         "by_count": fix.get("by_count", rng.random() < 0.5), "min_mapq": fix.get("min_mapq", rng.choice(MAPQ)),
         "processes": fix.get("processes", rng.choice(PROCS)), "style": rng.choice(STYLES),
         "mapped": rng.choice([0, 1000]), "fasta": rng.random() < 0.2}
    return {"op": "covglue", "tag": "glue", "in": i}


def corpus():
    out = []
    for bc in (False, True):
        for p in (None, 0, 1, 3):
            out.append({"op": "covglue", "tag": "corpus-glue", "in": {
                "sorted": True, "blank": False, "bed_text": FILLED[0], "by_count": bc, "min_mapq": 20, "processes": p,
                "style": "kw", "mapped": 1000, "fasta": False}})
    out.append({"op": "covglue", "tag": "corpus-glue", "in": {
        "sorted": False, "blank": False, "bed_text": FILLED[0], "by_count": True, "min_mapq": 0, "processes": 0,
        "style": "pos", "mapped": 0, "fasta": False}})
    out.append({"op": "covglue", "tag": "corpus-glue", "in": {
        "sorted": True, "blank": True, "bed_text": "\n \n", "by_count": False, "min_mapq": 5, "processes": 2,
        "style": "implicit", "mapped": 0, "fasta": True}})
    return out


def gen_cases(rng, tier):
    n = {"quick": 160, "thorough": 1200, "search": 40}[tier]
    cases = []
    # every combination of the decision atoms once
    for so in (True, False):
        for bl in (True, False):
            for bc in (True, False):
                for p in (None, 0, 1, 5):
                    cases.append(_one(rng, sorted=so, blank=bl, by_count=bc, processes=p))
    cases += [_one(rng) for _ in range(n)]
    return cases


def run_impl(case):
    from cnvlib import coverage
    import pandas as pd
    i = case["in"]
    trace = []
    d = tempfile.mkdtemp(dir="/var/tmp", prefix="c09g-")
    bed = os.path.join(d, "regions.bed")
    bam = os.path.join(d, "sample.bam")
    with builtins.open(bed, "w") as f:
        f.write(i["bed_text"])
    fasta = os.path.join(d, "ref.fa") if i["fasta"] else None
    seen_fasta = []

    def ensure_bam_sorted(fname, *a, **kw):
        trace.append(["sorted"])
        seen_fasta.append(kw.get("fasta", a[1] if len(a) > 1 else None))
        return i["sorted"]

    def ensure_bam_index(fname):
        trace.append(["index"])
        return fname + ".bai"

    def rec_open(path, *a, **kw):
        if path == bed:
            trace.append(["bed"])
        return builtins.open(path, *a, **kw)

    def fake_count(bed_fname, bam_fname, min_mapq, procs=1, fasta=None):
        trace.append(["run", "count", min_mapq, procs])
        seen_fasta.append(fasta)
        time.sleep(0.001)
        return [[3, ("chr1", 0, 10, "by-count-a", 1.5, 3.0)], [0, ("chr1", 10, 30, "by-count-b", -20.0, 0.0)]]

    def fake_pileup(bed_fname, bam_fname, min_mapq, procs=1, fasta=None):
        trace.append(["run", "pileup", min_mapq, procs])
        seen_fasta.append(fasta)
        time.sleep(0.001)
        return pd.DataFrame({"chromosome": ["chr1", "chr1"], "start": [0, 10], "end": [10, 30],
                             "gene": ["by-pileup-a", "by-pileup-b"], "log2": [1.5, -20.0], "depth": [3.0, 0.0],
                             "basecount": [30, 0]})
    real = (coverage.samutil, coverage.interval_coverages_count, coverage.interval_coverages_pileup)
    coverage.samutil = types.SimpleNamespace(
        ensure_bam_sorted=ensure_bam_sorted, ensure_bam_index=ensure_bam_index,
        get_read_length=lambda *a, **k: 100, bam_total_reads=lambda *a, **k: i["mapped"])
    coverage.interval_coverages_count = fake_count
    coverage.interval_coverages_pileup = fake_pileup
    coverage.open = rec_open
    try:
        opts = {"by_count": i["by_count"], "min_mapq": i["min_mapq"], "processes": i["processes"]}
        style = i["style"]
        try:
            if style == "pos":
                t = coverage.do_coverage(bed, bam, opts["by_count"], opts["min_mapq"], opts["processes"], fasta)
            elif style == "mixed":
                t = coverage.do_coverage(bed, bam, opts["by_count"], processes=opts["processes"], fasta=fasta,
                                         min_mapq=opts["min_mapq"])
            else:
                if style == "implicit":
                    opts = {k: v for k, v in opts.items() if v != {"by_count": False, "min_mapq": 0, "processes": 1}[k]}
                t = coverage.do_coverage(bed, bam, fasta=fasta, **opts)
        except RuntimeError:
            return {"result": ["RuntimeError"], "trace": trace}
        genes = [str(g) for g in t["gene"]] if len(t) else []
        cols = [str(c) for c in t.data.columns]
        out = {"trace": trace, "genes": genes, "cols": cols, "sample_id": t.sample_id,
               "fasta_ok": all(f == fasta for f in seen_fasta)}
        runs = [c for c in trace if c[0] == "run"]
        if not len(t):
            out["result"] = ["empty"]
        elif len(runs) == 1 and genes == ["by-%s-a" % runs[0][1], "by-%s-b" % runs[0][1]]:
            out["result"] = ["table"] + runs[0][1:]
        else:
            out["result"] = ["other", genes]
        return out
    finally:
        coverage.samutil, coverage.interval_coverages_count, coverage.interval_coverages_pileup = real
        del coverage.open
        shutil.rmtree(d, ignore_errors=True)


def to_line(case, impl):
    i = case["in"]
    line = {"op": "covglue", "in": {k: i[k] for k in ("sorted", "blank", "by_count", "min_mapq", "processes")}}
    if isinstance(impl, dict) and "__error__" not in impl:
        line["impl"] = {"result": impl["result"], "trace": impl["trace"]}
    return line


def judge(case, impl, resp):
    if isinstance(impl, dict) and "__error__" in impl:
        return ["raises_" + impl["__error__"]], [], None
    if "error" in resp:
        return [], ["model error: " + resp["error"]], None
    spec = list(resp.get("spec") or [])
    dis = []
    if resp["steps"] != resp["steps_src"]:
        dis.append(f"glue: statements of the model {resp['steps']} are not those of the source's plan {resp['steps_src']}")
    if resp["trace"] != impl["trace"]:
        dis.append(f"glue: calls model {resp['trace']} impl {impl['trace']}")
    if resp["result"] != impl["result"]:
        dis.append(f"glue: result model {resp['result']} impl {impl['result']}")
    if impl["result"][0] != "RuntimeError":
        if not impl["fasta_ok"]:
            spec.append("fasta_reaches_every_reader")
        if impl["sample_id"] != "sample":
            dis.append(f"glue: sample_id {impl['sample_id']!r}")
        if impl["cols"][:6] != ["chromosome", "start", "end", "gene", "log2", "depth"][:len(impl["cols"][:6])] \
                or "basecount" in impl["cols"]:
            dis.append(f"glue: columns {impl['cols']}")
    return sorted(set(spec)), dis, None


def nontrivial(case, impl, resp):
    return isinstance(impl, dict) and (impl.get("result") or [""])[0] == "table"


def shrink(case):
    i = case["in"]
    for k, v in (("processes", 1), ("min_mapq", 0), ("style", "kw"), ("fasta", False), ("mapped", 1000)):
        if i[k] != v:
            yield {"op": "covglue", "tag": "shrunk", "in": dict(i, **{k: v})}
