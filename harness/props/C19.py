"""C19 -- robust estimators and smoothers obey their defining invariants
(cnvlib/descriptives.py, cnvlib/smoothing.py)."""
from __future__ import annotations

import math
import os
from fractions import Fraction

from ..core import frac
from .. import cwiter

LEVEL = "proof"
RULE = ("one call of one estimator / smoother per case, plus the same call on the shifted (a+c) and rescaled (k*a) "
        "vector for the invariance clauses. vectors of length 0..400: dyadic grids (float arithmetic exact), random "
        "floats, few distinct values (ties), one extreme outlier, all-equal, tiny spread (around the biweight floor "
        "epsilon = 0.001 on the scale), NaN-sprinkled (estimators only); Qn also at n = 10, 11, 399, 400. weights: "
        "equal (1, 0.1, 1/3, random), random, one dominant, with zeros, with NaN (all three weighted estimators; also "
        "together with NaN values); widths: dyadic and decimal fractions, integers below / at / above the length "
        "(Python or numpy scalars), invalid widths (error branch), the width chosen by the real guess_window_size "
        "(kaiser(x) without a width; savgol(x, guess_window_size(x, w), w) as smooth_log2 calls it). options: "
        "biweight location / midvariance from the default start and from an explicit `initial` (0, 0.0, a data value, "
        "mid-range, an end; for the midvariance also outside the data), MAD / weighted MAD with scale_to_sd=False "
        "(times 1.4826 by the harness), savgol with window_width / order / n_iter given or left to their defaults. "
        "every vector is handed over in one of 11 representations with the same values: fresh float64 ndarray (half "
        "of the cases), list, tuple, pandas Series (default index; filtered subset of a longer Series; permuted "
        "labels), read-only ndarray, strided view, int64 (integral values), float32 (when exact), object column "
        "with None for NaN; values and weights independently; the three calls of a case share one weights object "
        "in 30% of the weighted cases (incl. NaN weights in a read-only vector and integer-typed smoother weights, "
        "findings AU / AT, fixed); not generated: float32 / object weights for the weighted Savitzky-Golay. "
        "non-trivial = at least 3 distinct finite values (smoothers: non-constant signal of length >= 3); "
        "distinct by hash of the case")
EXHAUSTIVE = {"quick": False, "thorough": False}
ASSUMPTIONS = [
    "weights are >= 0 with a positive total (the cumulative weight is monotone, so searchsorted = first index)",
    "weighted_median: fewer than 2^26 values (the rounding allowance midpoint*n*eps stays below half a weight)",
    "smoothers: finite input without NaN; window_width odd; kaiser without weights and without do_fit_edges",
    "biweight estimators: c, epsilon, max_iter at their defaults (except op biloc_trace: the location with all its "
    "options on NaN-free vectors of 2..14 values, max_iter = 0..6); an explicit `initial` for the location lies "
    "within the data range; options are passed by keyword",
    "float results are compared with the exact model value at 1e-9 relative tolerance; a case whose model run passes "
    "within 1e-9 of a comparison (mask |u|=1, convergence test, cumulative weight = midpoint +- allowance, "
    "ceil(n*width/2)) is skipped as knife-edge unless all inputs are dyadic",
]
TRUSTED_EXTRA = [
    "numpy argsort (its permutation is an input of the model; checked to be a sorting permutation)",
    "scipy gaussian_kde densities (input of the model), np.kaiser and scipy savgol_coeffs window coefficients "
    "(inputs of the model; non-negativity / sum = 1 checked numerically per case)",
    "scipy savgol_filter(mode='interp') away from the edges = convolution with savgol_coeffs",
    "pandas rolling(center=True).median on a full odd window = middle order statistic; np.percentile linear method",
    "sqrt: the model returns the radicand, the harness compares with math.sqrt of it; sqrt(pi) of gapper_scale "
    "is divided out by the harness",
    "guess_window_size (float power, used when kaiser is called without a width) is outside the model: the harness "
    "asks the real function for the width (it must be an integer) and gives that width to the model",
    "scale_to_sd=False: the harness multiplies the raw MAD by 1.4826 and checks it like the default call",
    "input representations (list, Series, int64, float32, ...) are built by the harness from the float64 values "
    "the model is given",
    "harness/vectrans.py + lean/CnvVerif/Model/NpVec.lean: the typed reading of the numpy vector subset in which the "
    "estimators of descriptives.py are written (Generated/ExprsDesc.lean; rules listed at the top of vectrans.py)",
    "harness/breakloop.py: the reading of a bounded `for _ in range(N)` loop with one early `break` as a recursion with "
    "fuel (Generated/ExprsDescLoop.lean: the outer loop of biweight_location; rules at the top of the file)",
    "harness/padslices.py + lean/CnvVerif/Model/PadExt5.lean: Python's rule for a step -1 slice (negative bounds count from "
    "the end, clipped to [-1, n-1]) in which smoothing._pad_array is written (Generated/ExprsPad.lean)",
    "harness/cwloop.py + lean/CnvVerif/Model/SmoothIterPrimExt5b.lean: the reading of the fixed-count loop over whole-array "
    "statements (np.convolve(.., mode='same'), element-wise * and /) in which smoothing.convolve_weighted is written "
    "(Generated/ExprsCwIter.lean; rules at the top of harness/cwloop.py)",
    "harness/wmadcall.py: the reading of descriptives.weighted_mad as two calls of the generated src_weighted_median, each with "
    "the permutation of its own argsort as a parameter (Generated/ExprsWmad.lean)",
]

PREFIX = os.environ.get("VERIF_C19_MODEL", "") == "prefix"   # model of the unrepaired functions

LOC = {"biweight_location", "modal_location", "weighted_median"}
SCALE = {"mad": "median_absolute_deviation", "iqr": "interquartile_range", "gapper": "gapper_scale", "qn": "q_n",
         "bivar": "biweight_midvariance", "wmad": "weighted_mad", "wstd": "weighted_std"}
SMOOTH = {"rolling_median", "kaiser", "savgol", "savgol_w"}
SQRT_PI = math.sqrt(math.pi)


# ---------------------------------------------------------------------------------------------
# generators


def _dy(rng, lo=-64, hi=64, bits=3):
    return rng.randint(lo * 2 ** bits, hi * 2 ** bits) / 2 ** bits


def gen_len(rng, cap=400):
    r = rng.random()
    if r < 0.25:
        return rng.choice([1, 2, 2, 3, 3, 4, 5, 6, 7, 8])
    if r < 0.75:
        return rng.randint(2, min(cap, 40))
    if r < 0.95:
        return rng.randint(2, min(cap, 150))
    return rng.randint(min(cap, 150), cap)


def gen_vec(rng, n, kind=None):
    """(values, exact) -- exact = all values on a coarse dyadic grid"""
    kind = kind or rng.choice(["dyadic", "dyadic", "float", "float", "ties", "outlier", "const", "small", "dyadic-outlier", "tiny"])
    if kind == "dyadic":
        return [_dy(rng) for _ in range(n)], True
    if kind == "tiny":
        # spread of the order of the biweight estimators' floor on the scale (epsilon = 0.001): c * MAD falls on
        # either side of it while the deviations are not zero
        base, step, m = rng.choice([0.0, 1.0, -2.5, 0.375]), 2.0 ** -rng.randint(11, 16), rng.choice([2, 4, 8, 16])
        return [base + rng.randint(-m, m) * step for _ in range(n)], True
    if kind == "small":
        return [float(rng.randint(0, 6)) for _ in range(n)], True
    if kind == "float":
        mu, sd = rng.uniform(-3, 3), rng.choice([0.01, 0.1, 0.3, 1.0, 20.0])
        return [rng.gauss(mu, sd) for _ in range(n)], False
    if kind == "ties":
        pool = [(_dy(rng) if rng.random() < 0.5 else round(rng.gauss(0, 1), 1)) for _ in range(rng.randint(1, 4))]
        return [rng.choice(pool) for _ in range(n)], False
    if kind == "outlier":
        v = [rng.gauss(0, 0.3) for _ in range(n)]
        v[rng.randrange(n)] = rng.choice([-1, 1]) * rng.choice([5.0, 50.0, 1e3, 1e6])
        return v, False
    if kind == "dyadic-outlier":
        v = [_dy(rng, -4, 4) for _ in range(n)]
        v[rng.randrange(n)] = float(rng.choice([-1, 1]) * rng.choice([16, 100, 1024, 2 ** 20]))
        return v, True
    if kind == "const":
        c = rng.choice([0.0, 1.0, -2.5, 0.1, rng.gauss(0, 3)])
        return [c] * n, c in (0.0, 1.0, -2.5)
    raise ValueError(kind)


def add_nans(rng, v):
    if not v:
        return v
    r = rng.random()
    if r < 0.6:
        k = rng.randint(1, max(1, len(v) // 4))
    elif r < 0.8:
        k = len(v) - 1
    else:
        k = len(v)
    v = list(v)
    for i in rng.sample(range(len(v)), min(k, len(v))):
        v[i] = None
    return v


def gen_weights(rng, n, kind=None):
    kind = kind or rng.choice(["equal1", "equal", "equal", "random", "random", "dominant", "zeros", "dyadic", "dyadic", "dyadic-zeros"])
    if kind == "equal1":
        return [1.0] * n, True
    if kind == "equal":
        c = rng.choice([0.1, 1 / 3, 0.7, 2.5, 1e-3, rng.uniform(0.01, 10)])
        return [c] * n, False
    if kind == "random":
        return [rng.uniform(0.01, 1.0) for _ in range(n)], False
    if kind == "dominant":
        w = [rng.uniform(0.01, 1.0) for _ in range(n)]
        w[rng.randrange(n)] = rng.choice([1.0, 3.0]) * n
        return w, False
    if kind == "zeros":
        w = [rng.uniform(0.01, 1.0) if rng.random() < 0.6 else 0.0 for _ in range(n)]
        if not any(w):
            w[rng.randrange(n)] = 1.0
        return w, False
    if kind == "dyadic":
        return [rng.randint(1, 8) / 4 for _ in range(n)], True
    if kind == "dyadic-zeros":
        w = [rng.randint(0, 4) / 2 for _ in range(n)]
        if not any(w):
            w[rng.randrange(n)] = 1.0
        return w, True
    raise ValueError(kind)


def gen_shift(rng, exact):
    if exact or rng.random() < 0.5:
        return rng.choice([1.0, -3.0, 0.5, 16.0, -100.25, 1024.0])
    return rng.choice([0.1, -7.3, rng.uniform(-50, 50)])


def gen_scale(rng, exact):
    if exact or rng.random() < 0.5:
        return rng.choice([2.0, 0.5, 4.0, 0.125, 8.0])
    return rng.choice([3.0, 0.1, rng.uniform(0.05, 20)])


# input representations (audit): the callers in /repo hand these functions pandas Series (fix.py: df["log2"];
# segfilters.py: cnarr["cn"], cnarr["weight"] of a FILTERED table, i.e. index labels != positions), `.values` of a
# Series (read-only under pandas 3 copy-on-write), lists, integer columns (autobin: rc_table.length)
REPS = ["list", "tuple", "series", "series-sub", "series-perm", "readonly", "strided", "int", "float32", "object"]
# np.asarray(...) of these is a read-only view of the caller's data
READONLY_REPS = ("series", "series-sub", "series-perm", "readonly")


def _integral(v):
    return all(x is not None and float(x).is_integer() for x in v)


def gen_rep(rng, p_plain=0.5):
    return "ndarray" if rng.random() < p_plain else rng.choice(REPS)


def add_reps(rng, i, weights_key="w", smoother=False):
    """choose how the vectors of the case are handed to the real code (values unchanged)"""
    i["rep"] = gen_rep(rng)
    i["rseed"] = rng.randrange(1 << 30)
    vkey = "x" if smoother else "a"
    if i["rep"] == "int" and not _integral(i[vkey]):
        # an integer column needs integral values: round them (keeps ties and the outlier) or take another container
        if None not in i[vkey] and "initial" not in i and rng.random() < 0.7:
            i[vkey] = [float(round(v)) for v in i[vkey]]
        else:
            i["rep"] = rng.choice([r for r in REPS if r != "int"])
    if weights_key in i:
        i["wrep"] = i["rep"] if rng.random() < 0.4 else gen_rep(rng, 0.3)
        if i["wrep"] == "int" and not smoother and not _integral(i[weights_key]):
            if None not in i[weights_key] and rng.random() < 0.7:
                i[weights_key] = [float(math.ceil(v)) for v in i[weights_key]]   # zeros stay, the total stays positive
            else:
                i["wrep"] = rng.choice([r for r in REPS if r != "int"])
        if smoother and i["wrep"] in ("float32", "object"):
            # (integer-typed smoother weights: finding AT, fixed in /repo acb9790, are generated.)  float32 weights are
            # rolled off in double precision now but were single precision inputs (2e-9 off the exact model), an
            # object column turns the NaN of open finding P (window weight sum 0) into a ZeroDivisionError
            i["wrep"] = "list"
        # (NaN weights in a read-only vector: finding AU, fixed in /repo b1a8990, are generated)
        # the three calls of a case (plain, shifted, rescaled) get the same weights OBJECT
        i["reuse_w"] = rng.random() < 0.3
    return i


def gen_initial(rng, a, name):
    """explicit starting point for the biweight estimators, as reference.py (`initial=i`), hmm.py (`initial=0`)
    and cnary.py pass it.  For the location it is taken inside the data range (the range clause is about the
    default start, the median; from a start outside the data the estimator returns that start)."""
    clean = [v for v in a if v is not None]
    if len(clean) < 2:
        return None
    lo, hi = min(clean), max(clean)
    if lo == hi:
        return lo   # constant data: "zero for constant data" is about the spread around the data's own centre
    kind = rng.choice(["zero", "zero", "izero", "value", "value", "mid", "edge", "off"])
    if kind in ("zero", "izero") and (name == "bivar" or lo <= 0 <= hi):
        return 0 if kind == "izero" else 0.0
    if kind == "mid":
        m = round((lo + hi) / 2 * 16) / 16
        return m if lo <= m <= hi else lo
    if kind == "edge":
        return rng.choice([lo, hi])
    if kind == "off" and name == "bivar":
        return round((hi + (hi - lo) * rng.choice([0.25, 1.0, -1.5])) * 16) / 16
    return rng.choice(clean)


def coarse(rng, a, n_full=16):
    """exact arithmetic on the biweight iteration multiplies the digits of the input about tenfold per step:
    most vectors are put on a dyadic grid of 2..8 fractional bits, full doubles are kept for short vectors"""
    if len(a) <= n_full and rng.random() < 0.4:
        return a
    k = 2 ** rng.randint(2, 8)
    return [None if v is None else round(v * k) / k for v in a]


def nan_weights(rng, w):
    w = [None if rng.random() < 0.2 else x for x in w]
    if not any(x for x in w if x):
        w[0] = 1.0
    return w


def loc_case(rng, name, nmax=400, n=None):
    n = gen_len(rng, nmax) if n is None else n
    a, ex = gen_vec(rng, n) if n else ([], True)
    if name == "biweight_location" and rng.random() < 0.12:
        a, ex = gen_vec(rng, rng.randint(3, 24), "tiny")
    elif name == "biweight_location":
        a = coarse(rng, a)
    tag = "plain"
    if rng.random() < 0.15:
        a, tag = add_nans(rng, a), "nan"
    i = {"name": name, "a": a, "c": gen_shift(rng, ex), "exact": ex}
    if name == "weighted_median":
        w, exw = gen_weights(rng, n) if n else ([], True)
        if n and rng.random() < 0.06:
            w = nan_weights(rng, w)
            tag = "nan"
        i["w"] = w
        i["exact"] = ex and exw
    if name == "biweight_location":
        i["exact"] = False
        if rng.random() < 0.25:
            init = gen_initial(rng, a, name)
            if init is not None:
                i["initial"] = init
                tag += "-initial"
    add_reps(rng, i)
    return {"op": "loc", "tag": f"{name}-{tag}", "in": i}


def trace_case(rng, n=None):
    """round 5: biweight_location with ALL its options; the real function is called with max_iter = 0..K, so every
    value the outer loop holds in `result` is compared with the model's trace (ops "biloc_trace")"""
    n = rng.randint(2, 14) if n is None else n
    kind = rng.choice(["outlier", "spread", "cluster", "constant", "two-level"])
    if kind == "constant":
        a = [float(rng.randint(-8, 8)) / 4] * n
    elif kind == "two-level":
        a = [rng.choice([0.0, 1.0]) * rng.choice([1, 4]) + rng.randint(-2, 2) / 16 for _ in range(n)]
    elif kind == "cluster":
        a = [rng.randint(-3, 3) / 16 for _ in range(n)]
    else:
        a = [rng.randint(-64, 64) / 16 for _ in range(n)]
        if kind == "outlier":
            a[rng.randrange(n)] = float(rng.choice([-1, 1]) * rng.randint(20, 400))
    i = {"name": "biweight_location", "a": a, "cut": rng.choice([6.0, 6.0, 9.0, 2.0, 1.5, 4.5, 1.0, 0.5]),
         "eps": rng.choice([1e-3, 1e-3, 0.125, 0.5, 1.0 / 1024, 2.0 ** -20, 0.03125]),
         "max_iter": rng.choice([1, 2, 3, 5, 5, 6]), "k": rng.choice([2.0, 0.5, 8.0, 0.125, 1024.0]), "exact": False}
    r = rng.random()
    if r < 0.45:
        lo, hi = min(a), max(a)
        i["initial"] = rng.choice([lo, hi, (lo + hi) / 2, a[0], float(round(sum(a) / n * 4)) / 4 if lo <= round(sum(a) / n * 4) / 4 <= hi else lo])
    return {"op": "biloc_trace", "tag": f"biloc-trace-{kind}" + ("-initial" if "initial" in i else ""), "in": i}


def scale_case(rng, name, nmax=400, n=None):
    n = gen_len(rng, nmax) if n is None else n
    a, ex = gen_vec(rng, n) if n else ([], True)
    if name == "bivar" and rng.random() < 0.25:
        a, ex = gen_vec(rng, rng.randint(3, 12), "tiny")
    elif name == "bivar":
        a = coarse(rng, a, 10)
    tag = "plain"
    if rng.random() < 0.15:
        a, tag = add_nans(rng, a), "nan"
    i = {"name": name, "a": a, "c": gen_shift(rng, ex), "k": gen_scale(rng, ex), "exact": ex and name not in ("bivar", "wstd")}
    if name in ("wmad", "wstd"):
        w, exw = gen_weights(rng, n) if n else ([], True)
        if n and rng.random() < 0.06:
            w = nan_weights(rng, w)
            tag = "nan"
        i["w"] = w
        i["exact"] = i["exact"] and exw
    if name == "bivar" and rng.random() < 0.4:
        init = gen_initial(rng, a, name)
        if init is not None:
            i["initial"] = init
            tag += "-initial"
    if name in ("mad", "wmad") and rng.random() < 0.15:
        # scale_to_sd=False: the raw MAD; the harness multiplies it by 1.4826 before it goes to the model / spec
        i["sd"] = False
        tag += "-raw"
    add_reps(rng, i)
    return {"op": "scale", "tag": f"{name}-{tag}", "in": i}


_REGISTERED = {}


def _finding_registered(classifier):
    """open finding P (weighted Savitzky-Golay with a vanishing window weight sum) is listed in known_findings.json:
    only then are its input shapes generated (they are VIOLATIONs otherwise, by design)"""
    global _REGISTERED
    if classifier in _REGISTERED:
        return _REGISTERED[classifier]
    import json
    path = os.path.join(os.path.dirname(os.path.dirname(os.path.dirname(os.path.abspath(__file__)))), "known_findings.json")
    try:
        fs = json.load(open(path)).get("findings", [])
    except Exception:
        fs = []
    _REGISTERED[classifier] = any(f.get("property") == "C19" and f.get("status") == "open"
                                  and f.get("classifier") == classifier for f in fs)
    return _REGISTERED[classifier]


def gen_width(rng, n):
    """(width, malformed, exact)"""
    r = rng.random()
    if r < 0.3:
        return rng.choice([0.25, 0.5, 0.125, 0.75, 0.0625, 0.03125]), False, True
    if r < 0.45:
        return rng.choice([0.1, 0.3, 0.05, 0.9, 0.999, rng.uniform(0.001, 0.999)]), False, False
    if r < 0.9:
        return float(rng.choice([2, 3, 4, 5, 7, 8, 11, 21, max(2, n - 1), max(2, n), n + 1, 2 * n + 1, 1000])) \
            if rng.random() < 0.5 else rng.choice([2, 3, 5, 7, 9, 15, max(2, n - 1), max(2, n), n + 2, 3 * n]), False, True
    return rng.choice([0, 1, 1.5, -3, 2.5, 1.0, 0.0, -0.5, 7.5]), True, True


def smooth_case(rng, name, nmax=400):
    r = rng.random()
    n = rng.choice([1, 2, 2, 3, 4, 5, 6, 7, 8]) if r < 0.3 else (rng.randint(2, 60) if r < 0.9 else rng.randint(60, nmax))
    x, ex = gen_vec(rng, n, rng.choice(["dyadic", "float", "ties", "outlier", "const", "small", "const"]))
    width, bad, exw = gen_width(rng, n)
    i = {"name": name, "x": x, "width": width, "malformed": bad, "exact": ex and exw and name == "rolling_median"}
    if name in ("savgol", "savgol_w"):
        if rng.random() < 0.3:
            i["width"], i["malformed"] = None, False
        if rng.random() < 0.25:
            # the call as cnary.py / fix.py write it: savgol(x, width[, weights]) with window_width, order and
            # n_iter left to their defaults (the model reads the defaults from the source, run_impl from the signature)
            i["implicit"] = True
        else:
            i["window_width"] = rng.choice([7, 7, 7, 3, 5, 9, 11])
            i["order"] = rng.choice([3, 3, 3, 1, 2, 4])
            i["n_iter"] = rng.choice([1, 1, 1, 2, 3]) if (n <= 30 and name == "savgol") or n <= 12 else 1
    if name == "savgol_w":
        kind = rng.choice(["equal1", "random", "random", "dominant", "dyadic", "zeros-sparse", "positive-wide"])
        if kind == "positive-wide" and not _finding_registered("savgol_zero_denominator"):
            kind = "random"   # weights 16:4:1 cancel against the window's negative lobes now and then (finding P)
        if kind == "zeros-sparse":
            w = [0.0 if rng.random() < 0.1 else rng.uniform(0.1, 1) for _ in range(n)]
            if not any(w):
                w[rng.randrange(n)] = 1.0
        elif kind == "positive-wide":
            w = [rng.choice([4.0, 1.0, 0.25, 0.25, 0.25]) for _ in range(n)]
        else:
            w, _ = gen_weights(rng, n, kind)
        i["w"] = w
    if name != "rolling_median" and n >= 2 and rng.random() < (0.2 if name == "kaiser" else 0.1):
        # width chosen by the real guess_window_size: kaiser(x) without a width; savgol(x, guess_window_size(x, w), w)
        # as CopyNumArray.smooth_log2 calls it.  run_impl reports the width, which is what the model is given.
        i["guess"], i["width"], i["malformed"] = True, None, False
    elif not i["malformed"] and i["width"] is not None and rng.random() < 0.15:
        i["wtype"] = "np"   # width as a numpy scalar (np.int64 / np.float64)
    add_reps(rng, i, smoother=True)
    tag = "malformed" if i["malformed"] else ("short" if n < 3 else "plain")
    return {"op": "smooth", "tag": f"{name}-{tag}{'-guess' if i.get('guess') else ''}", "in": i}


def corpus():
    c = [
        # N: the weighted median of three equally weighted values is the middle one
        {"op": "loc", "tag": "corpus-N", "in": {"name": "weighted_median", "a": [1.0, 2.0, 3.0], "w": [1.0, 1.0, 1.0], "c": 1.0, "exact": True}},
        {"op": "loc", "tag": "corpus-N", "in": {"name": "weighted_median", "a": [1.0, 2.0, 3.0, 4.0], "w": [1.0, 1.0, 1.0, 1.0], "c": 1.0, "exact": True}},
        {"op": "loc", "tag": "corpus-N", "in": {"name": "weighted_median", "a": [1.0, 2.0, 2.0, 3.0], "w": [0.25, 1.0, 0.125, 1.0], "c": 1.0, "exact": True}},
        {"op": "loc", "tag": "corpus-N", "in": {"name": "weighted_median", "a": [3.0, 1.0, 4.0, 2.0], "w": [0.0, 1.0, 2.0, 1.0], "c": 1.0, "exact": True}},
        {"op": "loc", "tag": "corpus-N", "in": {"name": "weighted_median", "a": [0.3, -1.2, 2.2, 0.9, 1.4, -0.1], "w": [0.1] * 6, "c": 1.0, "exact": False}},
        {"op": "scale", "tag": "corpus-N", "in": {"name": "wmad", "a": [1.0, 2.0, 4.0, 8.0, 16.0], "w": [1.0] * 5, "c": 1.0, "k": 2.0, "exact": True}},
        # O: an outlier beyond the cut-off keeps a large weight, exact zeros are dropped
        {"op": "loc", "tag": "corpus-O", "in": {"name": "biweight_location", "a": [0.0, 1.0, 2.0, 3.0, 4.0, 5.0, 6.0, 7.0, 8.0, 9.0, 100.0], "c": 1.0, "exact": False}},
        {"op": "loc", "tag": "corpus-O", "in": {"name": "biweight_location", "a": [0.0, 0.0, 0.0, 1.0, 1.0, -2.0, 8.0], "c": 1.0, "exact": False}},
        {"op": "scale", "tag": "corpus-O", "in": {"name": "bivar", "a": [0.0, 1.0, 2.0, 3.0, 4.0, 5.0, 6.0, 7.0, 8.0, 9.0, 100.0], "c": 1.0, "k": 2.0, "exact": False}},
        # T: weighted scale estimators of a single value
        {"op": "scale", "tag": "corpus-T", "in": {"name": "wstd", "a": [5.0], "w": [1.0], "c": 1.0, "k": 2.0, "exact": True}},
        {"op": "scale", "tag": "corpus-T", "in": {"name": "wmad", "a": [-5.0, None], "w": [1.0, 1.0], "c": 1.0, "k": 2.0, "exact": True}},
        # U: mode of constant data
        {"op": "loc", "tag": "corpus-U", "in": {"name": "modal_location", "a": [1.0, 1.0, 1.0], "c": 1.0, "exact": True}},
        # V: rolling median of a single value
        {"op": "smooth", "tag": "corpus-V", "in": {"name": "rolling_median", "x": [5.0], "width": 3, "malformed": False, "exact": True}},
        # empty vectors (the decorators' first exit; length 0 is below the property's quantifier, the model covers it)
        {"op": "loc", "tag": "corpus-empty", "in": {"name": "weighted_median", "a": [], "w": [], "c": 1.0, "exact": True}},
        {"op": "loc", "tag": "corpus-empty", "in": {"name": "weighted_median", "a": [], "w": [], "c": 1.0, "exact": True, "rep": "list", "wrep": "series"}},
        {"op": "loc", "tag": "corpus-empty", "in": {"name": "biweight_location", "a": [], "c": 1.0, "exact": True, "rep": "list"}},
        {"op": "loc", "tag": "corpus-empty", "in": {"name": "modal_location", "a": [], "c": 1.0, "exact": True}},
        {"op": "scale", "tag": "corpus-empty", "in": {"name": "wmad", "a": [], "w": [], "c": 1.0, "k": 2.0, "exact": True}},
        {"op": "scale", "tag": "corpus-empty", "in": {"name": "wstd", "a": [], "w": [], "c": 1.0, "k": 2.0, "exact": True, "rep": "series", "wrep": "series"}},
        {"op": "scale", "tag": "corpus-empty", "in": {"name": "mad", "a": [], "c": 1.0, "k": 2.0, "exact": True}},
        {"op": "scale", "tag": "corpus-empty", "in": {"name": "qn", "a": [], "c": 1.0, "k": 2.0, "exact": True, "rep": "tuple"}},
        {"op": "smooth", "tag": "corpus-empty", "in": {"name": "rolling_median", "x": [], "width": 3, "malformed": False, "exact": True}},
        {"op": "smooth", "tag": "corpus-empty", "in": {"name": "kaiser", "x": [], "width": 0.5, "malformed": False, "exact": True}},
        {"op": "smooth", "tag": "corpus-empty", "in": {"name": "savgol", "x": [], "width": None, "malformed": False, "exact": True, "implicit": True}},
        # one value left after the NaN are dropped, the vector being a pandas Series whose labels are not 0..n-1
        # (the shortcut `a[0]` must be positional)
        {"op": "loc", "tag": "corpus-series-one", "in": {"name": "biweight_location", "a": [None, 5.0, None], "c": 1.0, "exact": True, "rep": "series-perm", "rseed": 1}},
        {"op": "loc", "tag": "corpus-series-one", "in": {"name": "modal_location", "a": [None, None, -2.5], "c": 1.0, "exact": True, "rep": "series-sub", "rseed": 2}},
        {"op": "loc", "tag": "corpus-series-one", "in": {"name": "weighted_median", "a": [None, 5.0, None], "w": [1.0, 2.0, 1.0], "c": 1.0, "exact": True, "rep": "series-perm", "wrep": "series-perm", "rseed": 3}},
        {"op": "loc", "tag": "corpus-series-one", "in": {"name": "weighted_median", "a": [7.0], "w": [2.0], "c": 1.0, "exact": True, "rep": "series-sub", "wrep": "series-sub", "rseed": 4}},
        {"op": "smooth", "tag": "corpus-series-one", "in": {"name": "rolling_median", "x": [5.0], "width": 3, "malformed": False, "exact": True, "rep": "series-sub", "rseed": 5}},
        # biweight midvariance about a given centre, as hmm.py (`initial=0`) calls it on data that are not centred
        {"op": "scale", "tag": "corpus-initial", "in": {"name": "bivar", "a": [1.0, 2.0, 4.0, 4.5, 7.0, 3.0], "c": 1.0, "k": 2.0, "exact": False, "initial": 0}},
        {"op": "loc", "tag": "corpus-initial", "in": {"name": "biweight_location", "a": [-1.0, 2.0, 4.0, 4.5, 7.0, 3.0, 3.5], "c": 1.0, "exact": False, "initial": 0.0}},
    ]
    return c


def finding_P_cases():
    x = [float(i) for i in range(30)]
    w = [1.0] * 30
    for i in range(5, 20):
        w[i] = 0.0
    return [{"op": "smooth", "tag": "finding-P", "in": {"name": "savgol_w", "x": x, "w": w, "width": 7, "malformed": False,
                                                        "exact": False, "window_width": 7, "order": 3, "n_iter": 1}}]


def zero_denominator_cases(rng, k):
    """weights whose window sum vanishes: a run of >= 7 zeros, or the positive pattern (4, 1, 1/4 x5) against the
    7-point cubic window (-2, 3, 6, 7, 6, 3, -2)/21"""
    out = []
    for _ in range(k):
        n = rng.randint(24, 60)
        x, _ex = gen_vec(rng, n, rng.choice(["dyadic", "float", "const"]))
        w = [rng.choice([1.0, 0.5, 2.0]) for _ in range(n)]
        s = rng.randint(8, n - 16)
        if rng.random() < 0.5:
            for j in range(s, s + rng.randint(7, 9)):
                w[j] = 0.0
        else:
            pat = [4.0, 1.0, 0.25, 0.25, 0.25, 0.25, 0.25]
            w[s:s + 7] = pat if rng.random() < 0.5 else pat[::-1]
        out.append({"op": "smooth", "tag": "savgol_w-zero-denominator",
                    "in": {"name": "savgol_w", "x": x, "w": w, "width": 7, "malformed": False, "exact": False,
                           "window_width": 7, "order": 3, "n_iter": 1}})
    return out


def gen_cases(rng, tier):
    mult = {"quick": 1, "thorough": 8, "search": 2}[tier]
    plan = [("loc", "biweight_location", 220, 60), ("loc", "modal_location", 120, 120), ("loc", "weighted_median", 800, 400),
            ("scale", "mad", 200, 400), ("scale", "iqr", 200, 400), ("scale", "gapper", 200, 400), ("scale", "qn", 100, 40),
            ("scale", "bivar", 45, 16), ("scale", "wmad", 350, 400), ("scale", "wstd", 200, 400),
            ("smooth", "rolling_median", 300, 400), ("smooth", "kaiser", 200, 400), ("smooth", "savgol", 160, 300),
            ("smooth", "savgol_w", 150, 200)]
    cases = []
    for op, name, cnt, nmax in plan:
        for _ in range(cnt * mult):
            if op == "loc":
                cases.append(loc_case(rng, name, nmax))
            elif op == "scale":
                cases.append(scale_case(rng, name, nmax))
            else:
                cases.append(smooth_case(rng, name, nmax))
    # a few full-size vectors for the expensive estimators (exact biweight iterations on 400 doubles take minutes:
    # the long vectors are put on a coarse dyadic grid)
    big = [("biweight_location", 400), ("qn", 150)] + ([("qn", 400), ("bivar", 120)] if tier == "thorough" else [])
    for name, nn in big:
        a, _ex = gen_vec(rng, nn, "float")
        if name in ("biweight_location", "bivar"):
            a = [round(v * 16) / 16 for v in a]
        if name == "biweight_location":
            cases.append({"op": "loc", "tag": name + "-big", "in": {"name": name, "a": a, "c": 1.0, "exact": False}})
        else:
            cases.append({"op": "scale", "tag": name + "-big", "in": {"name": name, "a": a, "c": 1.0, "k": 2.0, "exact": False}})
    # round 5: the trace of the outer loop of biweight_location, all options given
    for _ in range(60 * mult):
        cases.append(trace_case(rng))
    # Qn: the finite-sample factor changes at n = 10 | 11 and n = 399 | 400
    for nn in (10, 11, 399, 400):
        a, ex = gen_vec(rng, nn, rng.choice(["float", "dyadic", "small"]))
        cases.append({"op": "scale", "tag": "qn-boundary",
                      "in": add_reps(rng, {"name": "qn", "a": a, "c": gen_shift(rng, ex), "k": gen_scale(rng, ex), "exact": ex})})
    if _finding_registered("savgol_zero_denominator"):
        cases += zero_denominator_cases(rng, 6 * mult)
    # malformed stream: unequal lengths, zero total weight
    for _ in range(20 * mult):
        n = rng.randint(1, 6)
        a, _ex = gen_vec(rng, n, "dyadic")
        nm = rng.choice(["weighted_median", "wmad", "wstd"])
        if rng.random() < 0.5:
            w = [1.0] * (n + rng.choice([1, 2]))
        else:
            w = [0.0] * n
            if nm != "wstd" or n < 2:
                continue
        i = {"name": nm, "a": a, "w": w, "c": 1.0, "k": 2.0, "exact": True, "malformed": True}
        cases.append({"op": "loc" if nm == "weighted_median" else "scale", "tag": nm + "-malformed", "in": i})
    # round 5b: convolve_weighted called directly, n_iter = 0..4 (harness/cwiter.py); drawn last, so the cases above
    # are the same as before for a given seed
    cases.extend(cwiter.gen_cases(rng, tier))
    if os.environ.get("VERIF_C19_ONLY"):   # development / mutation tests: a restricted run
        cases = [c for c in cases if c["op"] == os.environ["VERIF_C19_ONLY"]]
    return cases


# ---------------------------------------------------------------------------------------------
# real code


def _arr(l):
    import numpy as np
    return np.array([np.nan if v is None else v for v in l], dtype=float)


def _num(v):
    v = float(v)
    return v if math.isfinite(v) else None


MAD_TO_SD = 1.4826


def _rep(arr, rep, seed=0):
    """the float64 vector `arr` in another input representation, values unchanged; a plain (writable, contiguous)
    ndarray when the representation cannot hold the values (NaN as integers, doubles that are no float32)"""
    import random
    import numpy as np
    import pandas as pd

    n = len(arr)
    if rep in (None, "ndarray"):
        return arr.copy()
    if rep == "list":
        return [float(v) for v in arr]
    if rep == "tuple":
        return tuple(float(v) for v in arr)
    if rep == "object":   # missing values as None in an object column
        return np.array([None if v != v else float(v) for v in arr], dtype=object)
    if rep == "int":
        if n and np.all(np.isfinite(arr)) and np.all(arr == np.round(arr)) and np.all(np.abs(arr) < 2.0 ** 53):
            return arr.astype(np.int64)
        return arr.copy()
    if rep == "float32":
        a32 = arr.astype(np.float32)
        return a32 if np.array_equal(a32.astype(float), arr, equal_nan=True) else arr.copy()
    if rep == "readonly":
        b = arr.copy()
        b.flags.writeable = False
        return b
    if rep == "strided":   # every second cell of a larger buffer
        big = np.full(2 * n + 1, 7.25)
        big[1::2] = arr
        return big[1::2]
    if rep == "series":
        return pd.Series(arr.copy())
    rng = random.Random(seed)
    if rep == "series-perm":   # labels are a permutation of the positions (a table sorted by another column)
        idx = list(range(n))
        rng.shuffle(idx)
        if n >= 2 and idx == sorted(idx):
            idx = idx[1:] + idx[:1]
        return pd.Series(arr.copy(), index=idx)
    if rep == "series-sub":   # a filtered subset of a longer Series: labels increasing, not 0..n-1
        big, mask = [123.5], [False]
        for v in arr:
            for _ in range(rng.choice([0, 1, 1, 2])):
                big.append(-77.0)
                mask.append(False)
            big.append(v)
            mask.append(True)
        return pd.Series(np.array(big, dtype=float))[np.array(mask)]
    raise ValueError(rep)


def run_impl(case):
    import inspect
    import numpy as np
    from cnvlib import descriptives as D, smoothing as S

    if case["op"] == "cw_iter":
        return cwiter.run_impl(case)
    op, i = case["op"], case["in"]
    name = i["name"]
    rep, wrep, rseed = i.get("rep"), i.get("wrep"), i.get("rseed", 0)

    def A(arr):
        return _rep(arr, rep, rseed)

    wobj = []

    def W(w):
        if i.get("reuse_w"):
            if not wobj:
                wobj.append(_rep(w, wrep, rseed + 1))
            return wobj[0]
        return _rep(w, wrep, rseed + 1)

    if op == "biloc_trace":
        a = _arr(i["a"])
        kw = {"c": i["cut"], "epsilon": i["eps"]}
        init = i.get("initial")
        vs = []
        for m in range(0, i["max_iter"] + 1):
            try:
                vs.append(_num(D.biweight_location(A(a), initial=init, max_iter=m, **kw)))
            except UnboundLocalError:
                vs.append("UnboundLocalError")
        k = i["k"]
        return {"vs": vs, "v_scale": _num(D.biweight_location(A(a * k), initial=None if init is None else init * k,
                                                                c=i["cut"], epsilon=i["eps"] * k, max_iter=i["max_iter"]))}
    if op == "loc":
        a = _arr(i["a"])
        c = i["c"]
        out = {}
        if name == "weighted_median":
            w = _arr(i["w"])
            out["v"] = _num(D.weighted_median(A(a), W(w)))
            out["v_shift"] = _num(D.weighted_median(A(a + c), W(w)))
            if len(a) == len(w):
                out["order"] = [int(k) for k in a[~np.isnan(a)].argsort()]
        elif name == "modal_location":
            clean = a[~np.isnan(a)]
            if len(clean) >= 2 and clean.min() != clean.max():
                from scipy import stats
                sarr = np.sort(clean)
                out["dens"] = [float(y) for y in stats.gaussian_kde(sarr).evaluate(sarr)]
            out["v"] = _num(D.modal_location(A(a)))
            out["v_shift"] = _num(D.modal_location(A(a + c)))
        elif "initial" in i:
            # keyword only: the decorator's wrapper takes no positional options (cnary._guess_average_depth, dead
            # code, passes one: /verif/proposed_fixes/C19-decorator-positional-options.md)
            out["v"] = _num(D.biweight_location(A(a), initial=i["initial"]))
            out["v_shift"] = _num(D.biweight_location(A(a + c), initial=i["initial"] + c))
        else:
            out["v"] = _num(D.biweight_location(A(a)))
            out["v_shift"] = _num(D.biweight_location(A(a + c)))
        return out
    if op == "scale":
        f = getattr(D, SCALE[name])
        a = _arr(i["a"])
        c, k = i["c"], i["k"]
        div = SQRT_PI if name == "gapper" else 1.0
        kw, kw_c, kw_k = {}, {}, {}
        if "initial" in i:
            kw, kw_c, kw_k = {"initial": i["initial"]}, {"initial": i["initial"] + c}, {"initial": i["initial"] * k}
        if i.get("sd") is False:
            # the raw MAD, brought to the scale of the default call by the harness
            kw = kw_c = kw_k = {"scale_to_sd": False}
            div = 1.0 / MAD_TO_SD
        out = {}
        if name in ("wmad", "wstd"):
            w = _arr(i["w"])
            out["v"] = _num(f(A(a), W(w), **kw) / div)
            out["v_shift"] = _num(f(A(a + c), W(w), **kw_c) / div)
            out["v_scale"] = _num(f(A(a * k), W(w), **kw_k) / div)
            if name == "wmad" and len(a) == len(w):
                keep = ~np.isnan(a)
                ac, wc = a[keep], np.nan_to_num(w[keep], nan=0.0)
                out["order"] = [int(x) for x in ac.argsort()]
                if len(ac) >= 2:
                    med = D.weighted_median(ac.copy(), wc.copy())
                    out["v_med"] = _num(med)
                    out["order2"] = [int(x) for x in np.abs(ac - med).argsort()]
        else:
            out["v"] = _num(f(A(a), **kw) / div)
            out["v_shift"] = _num(f(A(a + c), **kw_c) / div)
            out["v_scale"] = _num(f(A(a * k), **kw_k) / div)
        return out
    if op == "smooth":
        x = np.array(i["x"], dtype=float)
        width = i["width"]
        w = np.array(i["w"], dtype=float) if "w" in i else None
        out = {}
        if i.get("guess"):
            # the width the real code would choose (kaiser does so itself; smooth_log2 hands it to savgol)
            width = S.guess_window_size(A(x), None if w is None else W(w))
            out["width_used"] = int(width)
            if width != int(width):
                raise TypeError(f"guess_window_size returned {width!r}")
        elif i.get("wtype") == "np" and width is not None:
            width = np.int64(width) if int(width) == width and not isinstance(width, float) else np.float64(width)
        if name == "rolling_median":
            y = S.rolling_median(A(x), width)
        elif name == "kaiser":
            if len(x) >= 2 and not i.get("malformed"):
                wing = S._width2wing(width, x)
                out["window"] = [float(v) for v in np.kaiser(2 * wing + 1, 14)]
            y = S.kaiser(A(x)) if i.get("guess") else S.kaiser(A(x), width)
        else:
            if i.get("implicit"):
                dflt = {k: p.default for k, p in inspect.signature(S.savgol).parameters.items()}
                ww, od, nit = dflt["window_width"], dflt["order"], dflt["n_iter"]
            else:
                ww, od, nit = i["window_width"], i["order"], i["n_iter"]
            if len(x) >= 2 and not i.get("malformed"):
                from scipy.signal import savgol_coeffs
                tw = width if width is not None else nit * ww
                wing = S._width2wing(tw, x)
                ww2 = min(ww, 2 * wing + 1)
                od2 = min(od, ww2 // 2)
                out["window"] = [float(v) for v in savgol_coeffs(ww2, od2)]
                out["geom"] = [int(wing), int(ww2), int(od2)]
            if i.get("implicit"):
                if name == "savgol":
                    y = S.savgol(A(x)) if width is None else S.savgol(A(x), width)
                else:
                    y = S.savgol(A(x), weights=W(w)) if width is None else S.savgol(A(x), width, weights=W(w))
            elif name == "savgol":
                y = S.savgol(A(x), width, None, ww, od, nit)
            else:
                y = S.savgol(A(x), width, W(w), ww, od, nit)
        out["y"] = [_num(v) for v in y]
        return out
    raise ValueError(op)


# ---------------------------------------------------------------------------------------------
# line protocol


def _fr(v):
    return None if v is None else frac(v)


def to_line(case, impl):
    if case["op"] == "cw_iter":
        return cwiter.to_line(case, impl)
    op, i = case["op"], case["in"]
    err = isinstance(impl, dict) and "__error__" in impl
    inp = {"name": i["name"], "prefix": PREFIX}
    if op == "biloc_trace":
        inp.update({"a": [frac(v) for v in i["a"]], "cut": frac(i["cut"]), "eps": frac(i["eps"]),
                    "max_iter": i["max_iter"], "k": frac(i["k"])})
        if "initial" in i:
            inp["initial"] = frac(i["initial"])
        line = {"op": op, "in": inp}
        if not err:
            line["impl"] = {"vs": [_fr(v) for v in impl["vs"][1:]], "v_scale": _fr(impl["v_scale"])}
        return line
    if op in ("loc", "scale"):
        inp["a"] = [_fr(v) for v in i["a"]]
        inp["c"] = frac(i["c"])
        if "initial" in i:
            inp["initial"] = frac(i["initial"])
        if "k" in i:
            inp["k"] = frac(i["k"])
        if "w" in i:
            inp["w"] = [_fr(v) for v in i["w"]]
        if not err:
            for key in ("order", "order2"):
                if key in impl:
                    inp[key] = impl[key]
            if "dens" in impl:
                inp["dens"] = [frac(v) for v in impl["dens"]]
    else:
        inp["x"] = [frac(v) for v in i["x"]]
        inp["width"] = _fr(impl["width_used"] if i.get("guess") and not err else i["width"])
        for key in ("window_width", "order", "n_iter"):
            if key in i:
                inp[key] = i[key]
        if "w" in i:
            inp["w"] = [frac(v) for v in i["w"]]
        if not err and "window" in impl:
            inp["window"] = [frac(v) for v in impl["window"]]
    line = {"op": op, "in": inp}
    if not err:
        if op == "smooth":
            line["impl"] = [_fr(v) for v in impl["y"]]
        else:
            line["impl"] = {k: _fr(impl[k]) for k in ("v", "v_shift", "v_scale", "v_med") if k in impl}
    return line


def _close(x, q, tol=1e-9):
    if x is None or q is None:
        return x is None and q is None
    qf = float(Fraction(q))
    return abs(x - qf) <= tol * max(1.0, abs(qf))


def judge(case, impl, resp):
    if case["op"] == "cw_iter":
        return cwiter.judge(case, impl, resp)
    op, i = case["op"], case["in"]
    out = resp.get("out")
    model_err = out.get("error") if isinstance(out, dict) else None
    if isinstance(impl, dict) and "__error__" in impl:
        e = impl["__error__"]
        if not i.get("malformed") and i.get("w") is not None and i.get("a") is not None and len(i["w"]) == len(i["a"]) \
                and sum(w for a, w in zip(i["a"], i["w"]) if a is not None and w is not None) == 0:
            # the weights that are left once NaN values / NaN weights are set aside add up to zero (e.g. the only
            # positive weight sits on a NaN value): the same "zero total weight" input as the malformed stream
            return [], ([] if model_err == e else [f"impl raises {e}, model gives {str(out)[:80]}"]), None
        if i.get("malformed"):
            # the input is outside the property's quantifier: the error only has to be the modelled one
            return [], ([] if model_err == e else [f"impl raises {e}, model gives {str(out)[:80]}"]), None
        return ["raises_" + e], [], None
    if "error" in resp:
        return [], ["model error: " + resp["error"]], None
    spec = list(resp.get("spec") or [])
    disagree, skipped = [], None
    if "argsort_contract" in spec:
        spec.remove("argsort_contract")
        disagree.append("numpy argsort did not return a sorting permutation")
    order2_bad = "argsort2_mismatch" in spec
    if order2_bad:
        spec.remove("argsort2_mismatch")
    if model_err == "geometry":
        disagree.append("window half-width: harness (real _width2wing) != model")
    elif model_err is not None:
        disagree.append(f"model raises {model_err}, impl returns a value")
    elif op == "biloc_trace":
        mv, iv = out["vs"], impl["vs"]
        if len(mv) != len(iv):
            disagree.append("biloc_trace: number of answers")
        for m, (x, q) in enumerate(zip(iv, mv)):
            if isinstance(x, str) or q == "UnboundLocalError":
                if x != q:
                    disagree.append(f"biweight_location(max_iter={m}): impl {x} != model {q}")
            elif not _close(x, q):
                disagree.append(f"biweight_location(max_iter={m}): impl {x} != model {float(Fraction(q))}")
    elif op == "loc":
        if not _close(impl["v"], out):
            disagree.append(f"{i['name']}: impl {impl['v']} != model {None if out is None else float(Fraction(out))}")
    elif op == "scale":
        kind = out["kind"]
        v = impl["v"]
        if kind == "nan":
            ok = v is None
        elif kind == "undefined":
            ok = v is None
        elif kind == "direct":
            ok = _close(v, out["v"])
        else:
            q = Fraction(out["v"])
            ok = v is not None and q >= 0 and abs(v - math.sqrt(q)) <= 1e-9 * max(1.0, math.sqrt(q))
        if not ok:
            disagree.append(f"{i['name']}: impl {v} != model {kind} {float(Fraction(out['v'])) if 'v' in out else ''}")
    else:
        y = impl["y"]
        if len(y) != len(out) or not all(_close(a, b) for a, b in zip(y, out)):
            disagree.append(f"{i['name']}: impl != model")
        if "geom" in impl and resp.get("geom") and list(resp["geom"][:3]) != list(impl["geom"]):
            disagree.append(f"window geometry: harness {impl['geom']} != model {resp['geom']}")
    slack = float(Fraction(resp.get("slack", "1")))
    if disagree and not i.get("exact") and (slack < 1e-9 or order2_bad):
        skipped, disagree = f"knife-edge (slack {slack:.2e})", []
    elif order2_bad:
        disagree.append("argsort of the float deviations is not an order of the exact deviations")
    return spec, disagree, skipped


def nontrivial(case, impl, resp):
    i = case["in"]
    vals = i.get("a", i.get("x"))
    return len({v for v in vals if v is not None}) >= 3 and not i.get("malformed")


def classify_savgol_zero_denominator(case, impl, resp):
    """finding P: weighted Savitzky-Golay where the weights of some window cancel against the window's negative
    lobes or are all zero (N_i = 0 up to rounding): the quotient D_i/N_i is NaN or noise"""
    i = case["in"]
    if case["op"] != "smooth" or i["name"] != "savgol_w":
        return False
    out = resp.get("out")
    if isinstance(out, list) and any(v is None for v in out):
        return True
    try:
        return float(Fraction(resp.get("slack", "1"))) < 1e-9
    except Exception:
        return False


def shrink(case):
    if case["op"] == "cw_iter" and not case.get("_cw"):
        # np.convolve(mode="same") swaps its arguments when the signal is shorter than the window: outside the model
        for c in shrink(dict(case, _cw=True)):
            if len(c["in"]["x"]) >= len(c["in"]["window"]) and len(c["in"]["w"]) >= len(c["in"]["window"]):
                yield c
        return
    i = case["in"]
    keys = [k for k in ("a", "w", "x") if k in i and isinstance(i[k], list)]
    main = "a" if "a" in i else "x"
    n = len(i[main])
    par = [k for k in keys if len(i[k]) == n]

    def cut(idx):
        c = {"op": case["op"], "tag": "shrunk", "in": dict(i)}
        for k in par:
            c["in"][k] = [v for j, v in enumerate(i[k]) if j not in idx]
        return c

    if n > 1:
        h = n // 2
        yield cut(set(range(h)))
        yield cut(set(range(h, n)))
        q = max(1, n // 4)
        for s in range(0, n, q):
            yield cut(set(range(s, min(n, s + q))))
        if n <= 24:
            for j in range(n):
                yield cut({j})
    for k in par:
        vals = [v for v in i[k] if v is not None]
        if vals and any(v != round(v) for v in vals):
            c = {"op": case["op"], "tag": "shrunk", "in": dict(i)}
            c["in"][k] = [None if v is None else float(round(v)) for v in i[k]]
            c["in"]["exact"] = False
            yield c
