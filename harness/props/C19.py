"""C19 -- robust estimators and smoothers obey their defining invariants
(cnvlib/descriptives.py, cnvlib/smoothing.py)."""
from __future__ import annotations

import math
import os
from fractions import Fraction

from ..core import frac

LEVEL = "proof"
RULE = ("one call of one estimator / smoother per case, plus the same call on the shifted (a+c) and rescaled (k*a) "
        "vector for the invariance clauses. vectors of length 0..400: dyadic grids (float arithmetic exact), random "
        "floats, few distinct values (ties), one extreme outlier, all-equal, NaN-sprinkled (estimators only); weights: "
        "equal (1, 0.1, 1/3, random), random, one dominant, with zeros, with NaN; widths: dyadic and decimal fractions, "
        "integers below / at / above the length, invalid widths (error branch). non-trivial = at least 3 distinct "
        "finite values (smoothers: non-constant signal of length >= 3); distinct by hash of the case")
EXHAUSTIVE = {"quick": False, "thorough": False}
ASSUMPTIONS = [
    "weights are >= 0 with a positive total (the cumulative weight is monotone, so searchsorted = first index)",
    "weighted_median: fewer than 2^26 values (the rounding allowance midpoint*n*eps stays below half a weight)",
    "smoothers: finite input without NaN; window_width odd",
    "float results are compared with the exact model value at 1e-9 relative tolerance; a case whose model run passes "
    "within 1e-9 of a comparison (mask |u|=1, convergence test, cumulative weight = midpoint +- allowance, "
    "ceil(n*width/2)) is skipped as knife-edge unless all inputs are dyadic",
]
TRUSTED_EXTRA = [
    "numpy argsort (its permutation is an input of the model; checked to be a sorting permutation)",
    "scipy gaussian_kde densities (input of the model), np.kaiser and scipy savgol_coeffs window coefficients "
    "(inputs of the model; non-negativity / sum = 1 checked numerically per case)",
    "scipy savgol_filter(mode='interp') away from the edges = convolution with savgol_coeffs",
    "pandas rolling(center=True).median on a full odd window = middle order statistic; np.percentile linear method",
    "sqrt: the model returns the radicand, the harness compares with math.sqrt of it; sqrt(pi) of gapper_scale "
    "is divided out by the harness",
    "guess_window_size (float power, used when kaiser is called without a width) is outside the model",
]

PREFIX = os.environ.get("VERIF_C19_MODEL", "") == "prefix"   # model of the unrepaired functions

LOC = {"biweight_location", "modal_location", "weighted_median"}
SCALE = {"mad": "median_absolute_deviation", "iqr": "interquartile_range", "gapper": "gapper_scale", "qn": "q_n",
         "bivar": "biweight_midvariance", "wmad": "weighted_mad", "wstd": "weighted_std"}
SMOOTH = {"rolling_median", "kaiser", "savgol", "savgol_w"}
SQRT_PI = math.sqrt(math.pi)


# ---------------------------------------------------------------------------------------------
# generators


def _dy(rng, lo=-64, hi=64, bits=3):
    return rng.randint(lo * 2 ** bits, hi * 2 ** bits) / 2 ** bits


def gen_len(rng, cap=400):
    r = rng.random()
    if r < 0.25:
        return rng.choice([1, 2, 2, 3, 3, 4, 5, 6, 7, 8])
    if r < 0.75:
        return rng.randint(2, min(cap, 40))
    if r < 0.95:
        return rng.randint(2, min(cap, 150))
    return rng.randint(min(cap, 150), cap)


def gen_vec(rng, n, kind=None):
    """(values, exact) -- exact = all values on a coarse dyadic grid"""
    kind = kind or rng.choice(["dyadic", "dyadic", "float", "float", "ties", "outlier", "const", "small", "dyadic-outlier"])
    if kind == "dyadic":
        return [_dy(rng) for _ in range(n)], True
    if kind == "small":
        return [float(rng.randint(0, 6)) for _ in range(n)], True
    if kind == "float":
        mu, sd = rng.uniform(-3, 3), rng.choice([0.01, 0.1, 0.3, 1.0, 20.0])
        return [rng.gauss(mu, sd) for _ in range(n)], False
    if kind == "ties":
        pool = [(_dy(rng) if rng.random() < 0.5 else round(rng.gauss(0, 1), 1)) for _ in range(rng.randint(1, 4))]
        return [rng.choice(pool) for _ in range(n)], False
    if kind == "outlier":
        v = [rng.gauss(0, 0.3) for _ in range(n)]
        v[rng.randrange(n)] = rng.choice([-1, 1]) * rng.choice([5.0, 50.0, 1e3, 1e6])
        return v, False
    if kind == "dyadic-outlier":
        v = [_dy(rng, -4, 4) for _ in range(n)]
        v[rng.randrange(n)] = float(rng.choice([-1, 1]) * rng.choice([16, 100, 1024, 2 ** 20]))
        return v, True
    if kind == "const":
        c = rng.choice([0.0, 1.0, -2.5, 0.1, rng.gauss(0, 3)])
        return [c] * n, c in (0.0, 1.0, -2.5)
    raise ValueError(kind)


def add_nans(rng, v):
    if not v:
        return v
    r = rng.random()
    if r < 0.6:
        k = rng.randint(1, max(1, len(v) // 4))
    elif r < 0.8:
        k = len(v) - 1
    else:
        k = len(v)
    v = list(v)
    for i in rng.sample(range(len(v)), min(k, len(v))):
        v[i] = None
    return v


def gen_weights(rng, n, kind=None):
    kind = kind or rng.choice(["equal1", "equal", "equal", "random", "random", "dominant", "zeros", "dyadic", "dyadic", "dyadic-zeros"])
    if kind == "equal1":
        return [1.0] * n, True
    if kind == "equal":
        c = rng.choice([0.1, 1 / 3, 0.7, 2.5, 1e-3, rng.uniform(0.01, 10)])
        return [c] * n, False
    if kind == "random":
        return [rng.uniform(0.01, 1.0) for _ in range(n)], False
    if kind == "dominant":
        w = [rng.uniform(0.01, 1.0) for _ in range(n)]
        w[rng.randrange(n)] = rng.choice([1.0, 3.0]) * n
        return w, False
    if kind == "zeros":
        w = [rng.uniform(0.01, 1.0) if rng.random() < 0.6 else 0.0 for _ in range(n)]
        if not any(w):
            w[rng.randrange(n)] = 1.0
        return w, False
    if kind == "dyadic":
        return [rng.randint(1, 8) / 4 for _ in range(n)], True
    if kind == "dyadic-zeros":
        w = [rng.randint(0, 4) / 2 for _ in range(n)]
        if not any(w):
            w[rng.randrange(n)] = 1.0
        return w, True
    raise ValueError(kind)


def gen_shift(rng, exact):
    if exact or rng.random() < 0.5:
        return rng.choice([1.0, -3.0, 0.5, 16.0, -100.25, 1024.0])
    return rng.choice([0.1, -7.3, rng.uniform(-50, 50)])


def gen_scale(rng, exact):
    if exact or rng.random() < 0.5:
        return rng.choice([2.0, 0.5, 4.0, 0.125, 8.0])
    return rng.choice([3.0, 0.1, rng.uniform(0.05, 20)])


def coarse(rng, a, n_full=16):
    """exact arithmetic on the biweight iteration multiplies the digits of the input about tenfold per step:
    most vectors are put on a dyadic grid of 2..8 fractional bits, full doubles are kept for short vectors"""
    if len(a) <= n_full and rng.random() < 0.4:
        return a
    k = 2 ** rng.randint(2, 8)
    return [None if v is None else round(v * k) / k for v in a]


def loc_case(rng, name, nmax=400):
    n = gen_len(rng, nmax)
    a, ex = gen_vec(rng, n)
    if name == "biweight_location":
        a = coarse(rng, a)
    tag = "plain"
    if rng.random() < 0.15:
        a, tag = add_nans(rng, a), "nan"
    i = {"name": name, "a": a, "c": gen_shift(rng, ex), "exact": ex}
    if name == "weighted_median":
        w, exw = gen_weights(rng, n)
        if rng.random() < 0.05:
            w = [None if rng.random() < 0.2 else x for x in w]
            if not any(x for x in w if x):
                w[0] = 1.0
            tag = "nan"
        i["w"] = w
        i["exact"] = ex and exw
    if name == "biweight_location":
        i["exact"] = False
    return {"op": "loc", "tag": f"{name}-{tag}", "in": i}


def scale_case(rng, name, nmax=400):
    n = gen_len(rng, nmax)
    a, ex = gen_vec(rng, n)
    if name == "bivar":
        a = coarse(rng, a, 10)
    tag = "plain"
    if rng.random() < 0.15:
        a, tag = add_nans(rng, a), "nan"
    i = {"name": name, "a": a, "c": gen_shift(rng, ex), "k": gen_scale(rng, ex), "exact": ex and name not in ("bivar", "wstd")}
    if name in ("wmad", "wstd"):
        w, exw = gen_weights(rng, n)
        i["w"] = w
        i["exact"] = i["exact"] and exw
    return {"op": "scale", "tag": f"{name}-{tag}", "in": i}


_REGISTERED = {}


def _finding_registered(classifier):
    """open finding P (weighted Savitzky-Golay with a vanishing window weight sum) is listed in known_findings.json:
    only then are its input shapes generated (they are VIOLATIONs otherwise, by design)"""
    global _REGISTERED
    if classifier in _REGISTERED:
        return _REGISTERED[classifier]
    import json
    path = os.path.join(os.path.dirname(os.path.dirname(os.path.dirname(os.path.abspath(__file__)))), "known_findings.json")
    try:
        fs = json.load(open(path)).get("findings", [])
    except Exception:
        fs = []
    _REGISTERED[classifier] = any(f.get("property") == "C19" and f.get("status") == "open"
                                  and f.get("classifier") == classifier for f in fs)
    return _REGISTERED[classifier]


def gen_width(rng, n):
    """(width, malformed, exact)"""
    r = rng.random()
    if r < 0.3:
        return rng.choice([0.25, 0.5, 0.125, 0.75, 0.0625, 0.03125]), False, True
    if r < 0.45:
        return rng.choice([0.1, 0.3, 0.05, 0.9, 0.999, rng.uniform(0.001, 0.999)]), False, False
    if r < 0.9:
        return float(rng.choice([2, 3, 4, 5, 7, 8, 11, 21, max(2, n - 1), max(2, n), n + 1, 2 * n + 1, 1000])) \
            if rng.random() < 0.5 else rng.choice([2, 3, 5, 7, 9, 15, max(2, n - 1), max(2, n), n + 2, 3 * n]), False, True
    return rng.choice([0, 1, 1.5, -3, 2.5, 1.0, 0.0, -0.5, 7.5]), True, True


def smooth_case(rng, name, nmax=400):
    r = rng.random()
    n = rng.choice([1, 2, 2, 3, 4, 5, 6, 7, 8]) if r < 0.3 else (rng.randint(2, 60) if r < 0.9 else rng.randint(60, nmax))
    x, ex = gen_vec(rng, n, rng.choice(["dyadic", "float", "ties", "outlier", "const", "small", "const"]))
    width, bad, exw = gen_width(rng, n)
    i = {"name": name, "x": x, "width": width, "malformed": bad, "exact": ex and exw and name == "rolling_median"}
    if name in ("savgol", "savgol_w"):
        if rng.random() < 0.3:
            i["width"], i["malformed"] = None, False
        i["window_width"] = rng.choice([7, 7, 7, 3, 5, 9, 11])
        i["order"] = rng.choice([3, 3, 3, 1, 2, 4])
        i["n_iter"] = rng.choice([1, 1, 1, 2, 3]) if (n <= 30 and name == "savgol") or n <= 12 else 1
    if name == "savgol_w":
        kind = rng.choice(["equal1", "random", "random", "dominant", "dyadic", "zeros-sparse", "positive-wide"])
        if kind == "positive-wide" and not _finding_registered("savgol_zero_denominator"):
            kind = "random"   # weights 16:4:1 cancel against the window's negative lobes now and then (finding P)
        if kind == "zeros-sparse":
            w = [0.0 if rng.random() < 0.1 else rng.uniform(0.1, 1) for _ in range(n)]
            if not any(w):
                w[rng.randrange(n)] = 1.0
        elif kind == "positive-wide":
            w = [rng.choice([4.0, 1.0, 0.25, 0.25, 0.25]) for _ in range(n)]
        else:
            w, _ = gen_weights(rng, n, kind)
        i["w"] = w
    return {"op": "smooth", "tag": f"{name}-{'malformed' if i['malformed'] else ('short' if n < 3 else 'plain')}", "in": i}


def corpus():
    c = [
        # N: the weighted median of three equally weighted values is the middle one
        {"op": "loc", "tag": "corpus-N", "in": {"name": "weighted_median", "a": [1.0, 2.0, 3.0], "w": [1.0, 1.0, 1.0], "c": 1.0, "exact": True}},
        {"op": "loc", "tag": "corpus-N", "in": {"name": "weighted_median", "a": [1.0, 2.0, 3.0, 4.0], "w": [1.0, 1.0, 1.0, 1.0], "c": 1.0, "exact": True}},
        {"op": "loc", "tag": "corpus-N", "in": {"name": "weighted_median", "a": [1.0, 2.0, 2.0, 3.0], "w": [0.25, 1.0, 0.125, 1.0], "c": 1.0, "exact": True}},
        {"op": "loc", "tag": "corpus-N", "in": {"name": "weighted_median", "a": [3.0, 1.0, 4.0, 2.0], "w": [0.0, 1.0, 2.0, 1.0], "c": 1.0, "exact": True}},
        {"op": "loc", "tag": "corpus-N", "in": {"name": "weighted_median", "a": [0.3, -1.2, 2.2, 0.9, 1.4, -0.1], "w": [0.1] * 6, "c": 1.0, "exact": False}},
        {"op": "scale", "tag": "corpus-N", "in": {"name": "wmad", "a": [1.0, 2.0, 4.0, 8.0, 16.0], "w": [1.0] * 5, "c": 1.0, "k": 2.0, "exact": True}},
        # O: an outlier beyond the cut-off keeps a large weight, exact zeros are dropped
        {"op": "loc", "tag": "corpus-O", "in": {"name": "biweight_location", "a": [0.0, 1.0, 2.0, 3.0, 4.0, 5.0, 6.0, 7.0, 8.0, 9.0, 100.0], "c": 1.0, "exact": False}},
        {"op": "loc", "tag": "corpus-O", "in": {"name": "biweight_location", "a": [0.0, 0.0, 0.0, 1.0, 1.0, -2.0, 8.0], "c": 1.0, "exact": False}},
        {"op": "scale", "tag": "corpus-O", "in": {"name": "bivar", "a": [0.0, 1.0, 2.0, 3.0, 4.0, 5.0, 6.0, 7.0, 8.0, 9.0, 100.0], "c": 1.0, "k": 2.0, "exact": False}},
        # T: weighted scale estimators of a single value
        {"op": "scale", "tag": "corpus-T", "in": {"name": "wstd", "a": [5.0], "w": [1.0], "c": 1.0, "k": 2.0, "exact": True}},
        {"op": "scale", "tag": "corpus-T", "in": {"name": "wmad", "a": [-5.0, None], "w": [1.0, 1.0], "c": 1.0, "k": 2.0, "exact": True}},
        # U: mode of constant data
        {"op": "loc", "tag": "corpus-U", "in": {"name": "modal_location", "a": [1.0, 1.0, 1.0], "c": 1.0, "exact": True}},
        # V: rolling median of a single value
        {"op": "smooth", "tag": "corpus-V", "in": {"name": "rolling_median", "x": [5.0], "width": 3, "malformed": False, "exact": True}},
    ]
    return c


def finding_P_cases():
    x = [float(i) for i in range(30)]
    w = [1.0] * 30
    for i in range(5, 20):
        w[i] = 0.0
    return [{"op": "smooth", "tag": "finding-P", "in": {"name": "savgol_w", "x": x, "w": w, "width": 7, "malformed": False,
                                                        "exact": False, "window_width": 7, "order": 3, "n_iter": 1}}]


def zero_denominator_cases(rng, k):
    """weights whose window sum vanishes: a run of >= 7 zeros, or the positive pattern (4, 1, 1/4 x5) against the
    7-point cubic window (-2, 3, 6, 7, 6, 3, -2)/21"""
    out = []
    for _ in range(k):
        n = rng.randint(24, 60)
        x, _ex = gen_vec(rng, n, rng.choice(["dyadic", "float", "const"]))
        w = [rng.choice([1.0, 0.5, 2.0]) for _ in range(n)]
        s = rng.randint(8, n - 16)
        if rng.random() < 0.5:
            for j in range(s, s + rng.randint(7, 9)):
                w[j] = 0.0
        else:
            pat = [4.0, 1.0, 0.25, 0.25, 0.25, 0.25, 0.25]
            w[s:s + 7] = pat if rng.random() < 0.5 else pat[::-1]
        out.append({"op": "smooth", "tag": "savgol_w-zero-denominator",
                    "in": {"name": "savgol_w", "x": x, "w": w, "width": 7, "malformed": False, "exact": False,
                           "window_width": 7, "order": 3, "n_iter": 1}})
    return out


def gen_cases(rng, tier):
    mult = {"quick": 1, "thorough": 8, "search": 2}[tier]
    plan = [("loc", "biweight_location", 220, 60), ("loc", "modal_location", 120, 120), ("loc", "weighted_median", 800, 400),
            ("scale", "mad", 200, 400), ("scale", "iqr", 200, 400), ("scale", "gapper", 200, 400), ("scale", "qn", 100, 40),
            ("scale", "bivar", 45, 16), ("scale", "wmad", 350, 400), ("scale", "wstd", 200, 400),
            ("smooth", "rolling_median", 300, 400), ("smooth", "kaiser", 200, 400), ("smooth", "savgol", 160, 300),
            ("smooth", "savgol_w", 150, 200)]
    cases = []
    for op, name, cnt, nmax in plan:
        for _ in range(cnt * mult):
            if op == "loc":
                cases.append(loc_case(rng, name, nmax))
            elif op == "scale":
                cases.append(scale_case(rng, name, nmax))
            else:
                cases.append(smooth_case(rng, name, nmax))
    # a few full-size vectors for the expensive estimators (exact biweight iterations on 400 doubles take minutes:
    # the long vectors are put on a coarse dyadic grid)
    big = [("biweight_location", 400), ("qn", 150)] + ([("qn", 400), ("bivar", 120)] if tier == "thorough" else [])
    for name, nn in big:
        a, _ex = gen_vec(rng, nn, "float")
        if name in ("biweight_location", "bivar"):
            a = [round(v * 16) / 16 for v in a]
        if name == "biweight_location":
            cases.append({"op": "loc", "tag": name + "-big", "in": {"name": name, "a": a, "c": 1.0, "exact": False}})
        else:
            cases.append({"op": "scale", "tag": name + "-big", "in": {"name": name, "a": a, "c": 1.0, "k": 2.0, "exact": False}})
    if _finding_registered("savgol_zero_denominator"):
        cases += zero_denominator_cases(rng, 6 * mult)
    # malformed stream: unequal lengths, zero total weight
    for _ in range(20 * mult):
        n = rng.randint(1, 6)
        a, _ex = gen_vec(rng, n, "dyadic")
        nm = rng.choice(["weighted_median", "wmad", "wstd"])
        if rng.random() < 0.5:
            w = [1.0] * (n + rng.choice([1, 2]))
        else:
            w = [0.0] * n
            if nm != "wstd" or n < 2:
                continue
        i = {"name": nm, "a": a, "w": w, "c": 1.0, "k": 2.0, "exact": True, "malformed": True}
        cases.append({"op": "loc" if nm == "weighted_median" else "scale", "tag": nm + "-malformed", "in": i})
    return cases


# ---------------------------------------------------------------------------------------------
# real code


def _arr(l):
    import numpy as np
    return np.array([np.nan if v is None else v for v in l], dtype=float)


def _num(v):
    v = float(v)
    return v if math.isfinite(v) else None


def run_impl(case):
    import numpy as np
    from cnvlib import descriptives as D, smoothing as S

    op, i = case["op"], case["in"]
    name = i["name"]
    if op == "loc":
        a = _arr(i["a"])
        c = i["c"]
        out = {}
        if name == "weighted_median":
            w = _arr(i["w"])
            out["v"] = _num(D.weighted_median(a.copy(), w.copy()))
            out["v_shift"] = _num(D.weighted_median(a + c, w.copy()))
            if len(a) == len(w):
                out["order"] = [int(k) for k in a[~np.isnan(a)].argsort()]
        elif name == "modal_location":
            clean = a[~np.isnan(a)]
            if len(clean) >= 2 and clean.min() != clean.max():
                from scipy import stats
                sarr = np.sort(clean)
                out["dens"] = [float(y) for y in stats.gaussian_kde(sarr).evaluate(sarr)]
            out["v"] = _num(D.modal_location(a.copy()))
            out["v_shift"] = _num(D.modal_location(a + c))
        else:
            out["v"] = _num(D.biweight_location(a.copy()))
            out["v_shift"] = _num(D.biweight_location(a + c))
        return out
    if op == "scale":
        f = getattr(D, SCALE[name])
        a = _arr(i["a"])
        c, k = i["c"], i["k"]
        div = SQRT_PI if name == "gapper" else 1.0
        out = {}
        if name in ("wmad", "wstd"):
            w = _arr(i["w"])
            out["v"] = _num(f(a.copy(), w.copy()) / div)
            out["v_shift"] = _num(f(a + c, w.copy()))
            out["v_scale"] = _num(f(a * k, w.copy()))
            if name == "wmad" and len(a) == len(w):
                keep = ~np.isnan(a)
                ac, wc = a[keep], np.nan_to_num(w[keep], nan=0.0)
                out["order"] = [int(x) for x in ac.argsort()]
                if len(ac) >= 2:
                    med = D.weighted_median(ac.copy(), wc.copy())
                    out["v_med"] = _num(med)
                    out["order2"] = [int(x) for x in np.abs(ac - med).argsort()]
        else:
            out["v"] = _num(f(a.copy()) / div)
            out["v_shift"] = _num(f(a + c) / div)
            out["v_scale"] = _num(f(a * k) / div)
        return out
    if op == "smooth":
        x = np.array(i["x"], dtype=float)
        width = i["width"]
        out = {}
        if name == "rolling_median":
            y = S.rolling_median(x, width)
        elif name == "kaiser":
            if len(x) >= 2 and not i.get("malformed"):
                wing = S._width2wing(width, x)
                out["window"] = [float(v) for v in np.kaiser(2 * wing + 1, 14)]
            y = S.kaiser(x, width)
        else:
            ww, od, nit = i["window_width"], i["order"], i["n_iter"]
            if len(x) >= 2 and not i.get("malformed"):
                from scipy.signal import savgol_coeffs
                tw = width if width is not None else nit * ww
                wing = S._width2wing(tw, x)
                ww2 = min(ww, 2 * wing + 1)
                od2 = min(od, ww2 // 2)
                out["window"] = [float(v) for v in savgol_coeffs(ww2, od2)]
                out["geom"] = [int(wing), int(ww2), int(od2)]
            if name == "savgol":
                y = S.savgol(x, width, None, ww, od, nit)
            else:
                y = S.savgol(x, width, np.array(i["w"], dtype=float), ww, od, nit)
        out["y"] = [_num(v) for v in y]
        return out
    raise ValueError(op)


# ---------------------------------------------------------------------------------------------
# line protocol


def _fr(v):
    return None if v is None else frac(v)


def to_line(case, impl):
    op, i = case["op"], case["in"]
    err = isinstance(impl, dict) and "__error__" in impl
    inp = {"name": i["name"], "prefix": PREFIX}
    if op in ("loc", "scale"):
        inp["a"] = [_fr(v) for v in i["a"]]
        inp["c"] = frac(i["c"])
        if "k" in i:
            inp["k"] = frac(i["k"])
        if "w" in i:
            inp["w"] = [_fr(v) for v in i["w"]]
        if not err:
            for key in ("order", "order2"):
                if key in impl:
                    inp[key] = impl[key]
            if "dens" in impl:
                inp["dens"] = [frac(v) for v in impl["dens"]]
    else:
        inp["x"] = [frac(v) for v in i["x"]]
        inp["width"] = _fr(i["width"])
        for key in ("window_width", "order", "n_iter"):
            if key in i:
                inp[key] = i[key]
        if "w" in i:
            inp["w"] = [frac(v) for v in i["w"]]
        if not err and "window" in impl:
            inp["window"] = [frac(v) for v in impl["window"]]
    line = {"op": op, "in": inp}
    if not err:
        if op == "smooth":
            line["impl"] = [_fr(v) for v in impl["y"]]
        else:
            line["impl"] = {k: _fr(impl[k]) for k in ("v", "v_shift", "v_scale", "v_med") if k in impl}
    return line


def _close(x, q, tol=1e-9):
    if x is None or q is None:
        return x is None and q is None
    qf = float(Fraction(q))
    return abs(x - qf) <= tol * max(1.0, abs(qf))


def judge(case, impl, resp):
    op, i = case["op"], case["in"]
    out = resp.get("out")
    model_err = out.get("error") if isinstance(out, dict) else None
    if isinstance(impl, dict) and "__error__" in impl:
        e = impl["__error__"]
        if i.get("malformed"):
            # the input is outside the property's quantifier: the error only has to be the modelled one
            return [], ([] if model_err == e else [f"impl raises {e}, model gives {str(out)[:80]}"]), None
        return ["raises_" + e], [], None
    if "error" in resp:
        return [], ["model error: " + resp["error"]], None
    spec = list(resp.get("spec") or [])
    disagree, skipped = [], None
    if "argsort_contract" in spec:
        spec.remove("argsort_contract")
        disagree.append("numpy argsort did not return a sorting permutation")
    order2_bad = "argsort2_mismatch" in spec
    if order2_bad:
        spec.remove("argsort2_mismatch")
    if model_err == "geometry":
        disagree.append("window half-width: harness (real _width2wing) != model")
    elif model_err is not None:
        disagree.append(f"model raises {model_err}, impl returns a value")
    elif op == "loc":
        if not _close(impl["v"], out):
            disagree.append(f"{i['name']}: impl {impl['v']} != model {None if out is None else float(Fraction(out))}")
    elif op == "scale":
        kind = out["kind"]
        v = impl["v"]
        if kind == "nan":
            ok = v is None
        elif kind == "undefined":
            ok = v is None
        elif kind == "direct":
            ok = _close(v, out["v"])
        else:
            q = Fraction(out["v"])
            ok = v is not None and q >= 0 and abs(v - math.sqrt(q)) <= 1e-9 * max(1.0, math.sqrt(q))
        if not ok:
            disagree.append(f"{i['name']}: impl {v} != model {kind} {float(Fraction(out['v'])) if 'v' in out else ''}")
    else:
        y = impl["y"]
        if len(y) != len(out) or not all(_close(a, b) for a, b in zip(y, out)):
            disagree.append(f"{i['name']}: impl != model")
        if "geom" in impl and resp.get("geom") and list(resp["geom"][:3]) != list(impl["geom"]):
            disagree.append(f"window geometry: harness {impl['geom']} != model {resp['geom']}")
    slack = float(Fraction(resp.get("slack", "1")))
    if disagree and not i.get("exact") and (slack < 1e-9 or order2_bad):
        skipped, disagree = f"knife-edge (slack {slack:.2e})", []
    elif order2_bad:
        disagree.append("argsort of the float deviations is not an order of the exact deviations")
    return spec, disagree, skipped


def nontrivial(case, impl, resp):
    i = case["in"]
    vals = i.get("a", i.get("x"))
    return len({v for v in vals if v is not None}) >= 3 and not i.get("malformed")


def classify_savgol_zero_denominator(case, impl, resp):
    """finding P: weighted Savitzky-Golay where the weights of some window cancel against the window's negative
    lobes or are all zero (N_i = 0 up to rounding): the quotient D_i/N_i is NaN or noise"""
    i = case["in"]
    if case["op"] != "smooth" or i["name"] != "savgol_w":
        return False
    out = resp.get("out")
    if isinstance(out, list) and any(v is None for v in out):
        return True
    try:
        return float(Fraction(resp.get("slack", "1"))) < 1e-9
    except Exception:
        return False


def shrink(case):
    i = case["in"]
    keys = [k for k in ("a", "w", "x") if k in i and isinstance(i[k], list)]
    main = "a" if "a" in i else "x"
    n = len(i[main])
    par = [k for k in keys if len(i[k]) == n]

    def cut(idx):
        c = {"op": case["op"], "tag": "shrunk", "in": dict(i)}
        for k in par:
            c["in"][k] = [v for j, v in enumerate(i[k]) if j not in idx]
        return c

    if n > 1:
        h = n // 2
        yield cut(set(range(h)))
        yield cut(set(range(h, n)))
        q = max(1, n // 4)
        for s in range(0, n, q):
            yield cut(set(range(s, min(n, s + q))))
        if n <= 24:
            for j in range(n):
                yield cut({j})
    for k in par:
        vals = [v for v in i[k] if v is not None]
        if vals and any(v != round(v) for v in vals):
            c = {"op": case["op"], "tag": "shrunk", "in": dict(i)}
            c["in"][k] = [None if v is None else float(round(v)) for v in i[k]]
            c["in"]["exact"] = False
            yield c
