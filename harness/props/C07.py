"""C07 -- range queries return exactly the overlapping / contained / clipped rows."""
from __future__ import annotations

import copy
import functools
import json
import math
import os

from .. import tables as T

LEVEL = "proof"
RULE = ("exhaustive: every pair (table, queries) of sorted multisets of <=2 rows x <=2 queries over 0..4 "
        "(quick) / <=2 x <=2 over 0..5 plus a 5% sample of <=2 x 3 over 0..5 (thorough), 3 modes x keep_empty for "
        "intersection / by_ranges / iter_ranges_of / into_ranges; in_range on every table of <=3 rows with every one-sided "
        "query, (None, None) and a sample (quick) / all (thorough) of the two-sided ones; 1-2 chromosomes; random "
        "nested/duplicated/abutting tables <=40 rows.  On top of these, as modifiers that keep the expected answer: "
        "15% of the exhaustive and 40% of the random cases build their tables as filtered subsets of larger ones (index "
        "labels != positions); ~20% build them in another REPRESENTATION (1-3 extra columns, permuted column order incl. "
        "end before start, float64 coordinates, object-dtype names, query table without gene column, CopyNumArray, "
        "constructor / from_rows / from_columns); ~20% vary the CALL FORM (all positional, all keyword, defaults left "
        "implicit; in_range bounds as numpy ints / floats; in_range(chrom=None) on one-chromosome tables); ~25% of the "
        "multi-chromosome cases rename the chromosomes so that natural order != lexicographic order (chr2 < chr10; 2 < 10 < X); "
        "inputs are compared before/after the call on the modified cases.  Additional cells: query tables in "
        "unsorted / reversed row order and with the chromosome blocks in another order than the queried table; "
        "in_range / in_ranges for a chromosome absent from a non-empty table; in_ranges with 1-3 possibly unsorted / "
        "repeated queries given as list, tuple, ndarray (int, float) or Series with foreign labels, and with starts "
        "or ends or both None; into_ranges on a float column (default nanmedian, also with NaN values), with a "
        "supplied function (max, len, last, np.nanmean, and the combiners first_of / last_of / join_strings of skgenome.combiners), with a non-callable constant, with a string column + "
        "function, for a missing column, with NaN / numeric defaults, positional and keyword.  non-trivial = some "
        "query overlaps some row of the same chromosome; distinct by hash of (op, input).  Extension 5 (op in_ranges_raw): "
        "in_ranges with starts / ends of UNEQUAL length, with one or both arrays EMPTY, empty next to absent, as "
        "list / tuple / ndarray / Series, on 60 (quick) / all (thorough) tables of <=3 rows over 0..3 x 3 modes and on 60 / 600 "
        "random nested / abutting / sparse tables: the returned rows or the exception raised (ValueError, AssertionError) "
        "against the model c07InRangesRaw; an exception on documented arguments is a violation")
EXHAUSTIVE = {"quick": True, "thorough": True}
ASSUMPTIONS = ["queried table sorted by (chromosome key, start, end), start < end, coordinates >= 0; the rows of "
               "one chromosome are contiguous in the query table (their order within it is free)"]
TRUSTED_EXTRA = ["numpy searchsorted on a monotone column = counting (Basic.ssLeft/ssRight)",
                 "into_ranges with a supplied callable: the callables the generator passes (max, len, last, np.nanmean) are "
                 "re-implemented by name in Driver/RangesExt.lean (namedFunc; first_of / last_of / join_strings are the model's own combiners); everything else of into_ranges (default, "
                 "single hit, join_strings, nanmedian, first_of, constant, missing column) is the Lean model intoRangesGA"]
MODES = ("outer", "inner", "trim")
BIG = 10 ** 9

# into_ranges on an INTEGER (or bool) column with the default summary takes `first_of` = `elems[0]`, a LABEL lookup on
# the selected Series: KeyError unless the row labelled 0 is among the hits.  Open defect, see
# /verif/proposed_fixes/C07-into-ranges-int-first-of.md; the generator emits that cell only once this is True.
INT_FIRST_OF_REPAIRED = True   # finding BD fixed in /repo (c292c90): integer / bool columns with the default summary generated
# in_ranges(chrom, [], []) raises ValueError (pd.concat of nothing) instead of returning an empty table: observation in
# the same file; empty query arrays are not generated.

# chromosome renamings, monotone for skgenome.chromsort.sorter_chrom (the tables stay sorted) but NOT for string order
CHROM_MAPS = (
    {"chr1": "chr2", "chr2": "chr10", "chr3": "chr11", "chr7": "chr12", "chrX": "chrX"},
    {"chr1": "1", "chr2": "2", "chr3": "10", "chr7": "11", "chrX": "X"},
    {"chr1": "chr9", "chr2": "chr10", "chr3": "chr21", "chr7": "chr22", "chrX": "chrY"},
)


def corpus():
    nested = [["chr1", 0, 100, "a"], ["chr1", 10, 20, "b"], ["chr1", 30, 40, "c"]]
    return [
        {"op": "in_range", "tag": "corpus-H", "in": {"t": nested, "chrom": "chr1", "s": 25, "e": None, "mode": "outer"}},
        {"op": "in_range", "tag": "corpus-H", "in": {"t": nested, "chrom": "chr1", "s": None, "e": 25, "mode": "inner"}},
        {"op": "intersect", "tag": "corpus-Q", "in": {"a": nested, "b": [["chr2", 0, 5, "q"]], "mode": "outer"}},
        {"op": "into_ranges", "tag": "corpus-S", "in": {"a": [], "b": nested, "default": "dflt"}},
        # extension 5: unequal / empty arrays (mask path asserts, search path truncates, no query -> ValueError)
        {"op": "in_ranges_raw", "tag": "corpus-raw", "in": {"t": nested, "chrom": "chr1", "starts": [5, 15, 35], "ends": [12, 50], "mode": "trim"}},
        {"op": "in_ranges_raw", "tag": "corpus-raw", "in": {"t": nested[1:], "chrom": "chr1", "starts": [5, 15, 35], "ends": [12, 50], "mode": "trim"}},
        {"op": "in_ranges_raw", "tag": "corpus-raw", "in": {"t": nested, "chrom": "chr1", "starts": None, "ends": [], "mode": "outer"}},
        {"op": "in_ranges_raw", "tag": "corpus-raw", "in": {"t": nested, "chrom": "chr1", "starts": [], "ends": None, "mode": "trim"}},
        {"op": "in_ranges_raw", "tag": "corpus-raw", "in": {"t": nested, "chrom": "chr1", "starts": [], "ends": [15, 35], "mode": "inner"}},
        {"op": "in_ranges_raw", "tag": "corpus-raw", "in": {"t": nested, "chrom": "chr2", "starts": [], "ends": [], "mode": "outer"}},
        {"op": "into_ranges", "tag": "corpus-S", "in": {"a": nested, "b": [], "default": "dflt"}},
        # extension 5c: trim-intersection and subtraction partition the bases of a
        {"op": "trim_subtract", "tag": "corpus-dual", "in": {"a": nested + [["chr2", 5, 9, "d"]], "b": [["chr1", 15, 50, "x"], ["chr1", 40, 120, "y"]]}},
        {"op": "trim_subtract", "tag": "corpus-dual", "in": {"a": nested, "b": []}},
        {"op": "iter_ranges_of_col", "tag": "corpus-itercol", "in": {"a": nested, "b": [], "mode": "outer", "keep_empty": True, "cols": ["chromosome", "start", "end", "gene"], "column": "absent"}},
        {"op": "iter_ranges_of_col", "tag": "corpus-itercol", "in": {"a": nested, "b": [["chr1", 5, 35, "q"]], "mode": "inner", "keep_empty": True, "cols": ["chromosome", "start", "end", "gene"], "column": "start"}},
        # natural chromosome order != string order (groupby must not sort)
        {"op": "by_ranges", "tag": "corpus-chromorder",
         "in": {"a": [["chr2", 0, 10, "a"], ["chr10", 0, 10, "b"]], "b": [["chr2", 5, 6, "q"], ["chr10", 0, 3, "r"]],
                "mode": "outer", "keep_empty": True}},
        # the real call of cnvlib.vary.baf_by_ranges: float column, NaN default, supplied function
        {"op": "into_ranges", "tag": "corpus-baf",
         "in": {"a": [["chr1", 1, 2, "a0"], ["chr1", 5, 6, "a1"], ["chr1", 8, 9, "a2"], ["chr1", 30, 31, "a3"]],
                "b": [["chr1", 0, 10, "s0"], ["chr1", 10, 20, "s1"], ["chr1", 20, 40, "s2"]],
                "col": "alt_freq", "vals": [0.25, 0.5, 0.875, 0.125], "func": "nanmean", "default": None}},
    ]


def _pair_ops(a, b, rng=None):
    """all operations on one pair.  With `rng` (the quick exhaustive block) keep_empty=False is run for ONE mode
    chosen at random per pair instead of all (the filter on empty selections does not depend on the mode; every
    (mode, keep_empty=False) cell is still hit by a third / half of all pairs)"""
    out = []
    m_by = rng.choice(MODES) if rng else None
    m_it = rng.choice(("outer", "inner")) if rng else None
    for m in MODES:
        out.append({"op": "intersect", "in": {"a": a, "b": b, "mode": m}})
        for ke in (True, False):
            if ke or m_by in (None, m):
                out.append({"op": "by_ranges", "in": {"a": a, "b": b, "mode": m, "keep_empty": ke}})
    for m in ("outer", "inner"):
        for ke in (True, False):
            if ke or m_it in (None, m):
                out.append({"op": "iter_ranges_of", "in": {"a": a, "b": b, "mode": m, "keep_empty": ke}})
    out.append({"op": "into_ranges", "in": {"a": a, "b": b, "default": "dflt"}})
    return out


def _range_ops(t, queries, chroms=None):
    out = []
    chroms = chroms or sorted({r[0] for r in t}) or ["chr1"]
    for c in chroms:
        for (s, e) in queries:
            for m in MODES:
                out.append({"op": "in_range", "in": {"t": t, "chrom": c, "s": s, "e": e, "mode": m}})
    return out


# ---- into_ranges beyond the string column --------------------------------------------------------------------

FLOAT_FUNCS = (None, None, None, "max", "len", "last", "nanmean", "const", "first_of", "last_of")
STR_FUNCS = ("len", "last", "const", "join_strings", "last_of")   # first_of / last_of / join_strings: skgenome.combiners


def _into_col_case(rng, a, b):
    """into_ranges on a numeric column / with a supplied function / for a missing column.  The genes of `a` are
    made unique: they identify the rows in the model's selection."""
    a = [[r[0], r[1], r[2], f"a{k}"] for k, r in enumerate(a)]
    kind = rng.choice(["float", "float", "float", "floatnan", "str", "nocol"] + (["int"] if INT_FIRST_OF_REPAIRED else []))
    i = {"a": a, "b": b}
    if kind == "nocol":
        i.update(col="absent", nocol=True, vals=[0.5] * len(a), func=None, default=rng.choice(["dflt", None, -1.0]))
    elif kind == "str":
        i.update(col="gene", vals=[r[3] for r in a], func=rng.choice(STR_FUNCS), default="dflt")
    elif kind == "int":
        i.update(col="probes", vals=[rng.randint(0, 9) for _ in a], func=rng.choice([None, None, "max", "len"]),
                 default=-1)
    else:
        vals = [rng.randint(-16, 16) / 8.0 for _ in a]
        if kind == "floatnan":
            # NaN values; never in the first row (the default summary is chosen by the type of the first element,
            # and NaN is a float as well -- keep the cell about the summary itself)
            vals = [None if (k and rng.random() < 0.4) else v for k, v in enumerate(vals)]
        func = None if kind == "floatnan" else rng.choice(FLOAT_FUNCS)
        i.update(col=rng.choice(["log2", "alt_freq", "weight"]), vals=vals, func=func,
                 default=rng.choice([None, -1.0, 0.0]))
    if i["func"] == "const":
        i["const"] = rng.choice([7.5, "hit"]) if kind != "str" else "hit"
    i["call"] = rng.choice([None, "pos", "kw"])
    return {"op": "into_ranges", "in": i}


def _cell(v):
    """a column cell for the Lean driver: str / int / bool as they are, NaN as null, a float as its exact rational"""
    if v is None or isinstance(v, (str, bool, int)):
        return v
    from ..core import frac
    return {"q": frac(v)}


def _uncell(c):
    if isinstance(c, dict):
        from fractions import Fraction
        return float(Fraction(c["q"]))
    return c


def _same(x, y):
    if x is None or y is None:
        return x is None and y is None
    if isinstance(x, str) or isinstance(y, str):
        return x == y
    return math.isclose(x, y, rel_tol=1e-12, abs_tol=1e-12)


# ---- modifiers: same expected answer, another representation / call form --------------------------------------

def _rand_rep(rng, query=False, need=None):
    rep = {}
    if rng.random() < 0.7:
        rep["extra"] = rng.sample(["log2", "probes", "weight", "depth"], rng.randint(1, 3))
    if rng.random() < 0.6:
        rep["order"] = rng.randint(0, 999)
    if rng.random() < 0.25:
        rep["fcoord"] = True
    if rng.random() < 0.25:
        rep["objchrom"] = True
    if query and rng.random() < 0.3:
        rep["nogene"] = True
    elif rng.random() < 0.25:
        rep["cls"] = "cna"
    rep["ctor"] = rng.choice(["frame", "frame", "rows", "columns"])
    return rep


def _modify(rng, c, p_rep, p_call, p_chrom):
    """in place on a case whose "in" dict is private (tables may be shared: they are replaced, not edited)"""
    i = c["in"]
    marks = []
    if "col" not in i and rng.random() < p_rep:
        rep = {}
        if rng.random() < 0.8:
            rep["a"] = _rand_rep(rng)
        if "b" in i and rng.random() < 0.7:
            rep["b"] = _rand_rep(rng, query=True)
            if rep["b"].get("nogene"):
                i["b"] = [[r[0], r[1], r[2], "-"] for r in i["b"]]
        if rep:
            i["rep"] = rep
            marks.append("rep")
    if "col" not in i and rng.random() < p_call:
        i["call"] = rng.choice(["pos", "kw", "implicit", "implicit"])
        if c["op"] == "in_range":
            if rng.random() < 0.4:
                i["num"] = rng.choice(["np", "float", "npf"])
            if rng.random() < 0.3 and len({r[0] for r in i["t"]}) <= 1 and (not i["t"] or i["t"][0][0] == i["chrom"]):
                i["chrom"] = None
        marks.append("call")
    multi = len({r[0] for k in ("a", "b", "t") for r in i.get(k, [])}) > 1
    if rng.random() < (p_chrom if multi else p_chrom / 10):
        m = rng.choice(CHROM_MAPS)
        for k in ("a", "b", "t"):
            if k in i:
                i[k] = [[m.get(r[0], r[0])] + list(r[1:]) for r in i[k]]
        if isinstance(i.get("chrom"), str):
            i["chrom"] = m.get(i["chrom"], i["chrom"])
        marks.append("chrom")
    if marks:
        i["chk"] = True
        c["tag"] += "-" + "+".join(marks)


def _shuffle_queries(rng, b):
    """another row order of the query table: rows shuffled (or reversed) within each chromosome, and the
    chromosome blocks themselves in another order; each chromosome stays contiguous"""
    blocks = {}
    for r in b:
        blocks.setdefault(r[0], []).append(r)
    keys = list(blocks)
    if len(keys) > 1 and rng.random() < 0.6:
        keys = keys[::-1] if rng.random() < 0.5 else rng.sample(keys, len(keys))
    out = []
    for k in keys:
        rows = blocks[k]
        rows = rows[::-1] if rng.random() < 0.5 else rng.sample(rows, len(rows))
        out += rows
    return out


def _in_ranges_case(rng, t, chrom, hi, mode):
    n = rng.choice([1, 2, 2, 3])
    qs = []  # unsorted, repeats allowed
    for _ in range(n):
        if qs and rng.random() < 0.15:
            qs.append(list(rng.choice(qs)))
        else:
            s = rng.randint(0, hi - 1)
            qs.append([s, rng.randint(s + 1, hi)])
    if rng.random() < 0.5:
        qs.sort()
    i = {"t": t, "chrom": chrom, "mode": mode, "qform": rng.choice(["list", "list", "tuple", "array", "farray", "series"])}
    k = rng.random()
    if k < 0.15:
        i["open"] = "start"
        qs = [[0, q[1]] for q in qs]
    elif k < 0.30:
        i["open"] = "end"
        qs = [[q[0], BIG] for q in qs]
    elif k < 0.36:
        i["open"] = "both"
        qs = [[0, BIG]]
    i["qs"] = qs
    if rng.random() < 0.3:
        i["call"] = rng.choice(["pos", "kw", "implicit"])
    return {"op": "in_ranges", "in": i}


def gen_cases(rng, tier):
    cases = []
    if tier == "search":
        for _ in range(500):
            a = T.random_table(rng, 12, prefix="a")
            b = T.random_table(rng, 8, prefix="b")
            cs = _pair_ops(a, b) + _range_ops(a, [(rng.randint(0, 50), None), (None, rng.randint(0, 50)),
                                                  (rng.randint(0, 30), rng.randint(30, 90))])
            sub = rng.choice([None, rng.randint(1, 10 ** 6)])
            for c in cs:
                c["tag"] = "search"
                if sub:
                    c["in"]["sub"] = sub
            cases += cs
        return cases
    quick = tier == "quick"
    # thorough: every pair of <=2 x <=2 rows over 0..5 plus a 5% sample of the pairs with 3 query ranges
    # (the full <=2 x <=3 scope over 0..6 is several million cases: kept out of the registered command)
    hi, ka, kb = (4, 2, 2) if quick else (5, 2, 3)
    A = T.small_tables(hi, ka, prefix="a")
    B = T.small_tables(hi, kb, prefix="b")
    if not quick:
        B = [b for b in B if len(b) < 3 or rng.random() < 0.05]
    for a in A:
        for b in B:
            for c in _pair_ops(a, b, rng if quick else None):
                c["tag"] = "exh2"
                cases.append(c)
            # the same queries in another row order (only distinguishable with two different query rows)
            if len(b) >= 2 and b[0][1:3] != b[-1][1:3] and rng.random() < 0.25:
                for c in rng.sample(_pair_ops(a, b[::-1]), 3):
                    c["tag"] = "exh2-qorder"
                    cases.append(c)
            if rng.random() < (0.12 if quick else 0.04):
                c = _into_col_case(rng, a, b)
                c["tag"] = "exh2-intocol"
                cases.append(c)
    # None bounds / single queries, tables of up to 3 rows (nesting needs 3 rows to matter)
    for t in T.small_tables(hi, 3, prefix="a"):
        qs = [(s, None) for s in range(0, hi + 1)] + [(None, e) for e in range(0, hi + 1)] + [(None, None)]
        if tier == "thorough":
            qs += T.intervals(0, hi)
        else:
            qs += rng.sample(T.intervals(0, hi), 4)
        for c in _range_ops(t, qs):
            c["tag"] = "exh-inrange"
            cases.append(c)
        if t:
            # a chromosome the (non-empty) table does not have
            for c in _range_ops(t, rng.sample(qs, 1 if quick else 2), chroms=[rng.choice(["chr2", "chrX", "chr10"])]):
                c["tag"] = "exh-inrange-absent"
                cases.append(c)
        for m in MODES:
            c = _in_ranges_case(rng, t, "chr1" if (t or rng.random() < 0.5) else "chr2", hi, m)
            c["tag"] = "exh-inranges"
            cases.append(c)
        if t and rng.random() < 0.15:
            c = _in_ranges_case(rng, t, "chr5", hi, rng.choice(MODES))
            c["tag"] = "exh-inranges-absent"
            cases.append(c)
    # two chromosomes
    for a in rng.sample(A, 30 if quick else 66):
        for b in rng.sample(B, 10 if quick else 30):
            a2 = a + [["chr2", s, e, f"h{i}"] for i, (s, e) in enumerate(sorted(rng.sample(T.intervals(0, 4), rng.randint(0, 2))))]
            b2 = b + [[rng.choice(["chr2", "chr3"]), s, e, f"k{i}"] for i, (s, e) in enumerate(sorted(rng.sample(T.intervals(0, 4), rng.randint(0, 2))))]
            b2 = T.sort_rows(b2)
            tag = "exh2-chr2"
            if rng.random() < 0.3:
                b2 = _shuffle_queries(rng, b2)
                tag = "exh2-chr2-qorder"
            cs = _pair_ops(a2, b2)
            if rng.random() < 0.5:
                cs.append(_into_col_case(rng, a2, b2))
            for c in cs:
                c["tag"] = tag
                cases.append(c)
    n_rand = 120 if quick else 1200
    for _ in range(n_rand):
        chroms = rng.choice([("chr1",), ("chr1", "chr2"), ("chr1", "chr2", "chrX")])
        a = T.random_table(rng, 40, chroms, prefix="a")
        b = T.random_table(rng, 15, rng.choice([chroms, chroms[:1], ("chr7",)]), prefix="b")
        tag = "random"
        if rng.random() < 0.3:
            b = _shuffle_queries(rng, b)
            tag = "random-qorder"
        cs = _pair_ops(a, b)
        cs += [_into_col_case(rng, a, b) for _ in range(2)]
        if a:
            r = rng.choice(a)
            qs = [(r[1], None), (None, r[2]), (r[1] + 1, None), (None, r[2] - 1), (0, None), (None, 0),
                  (r[1], r[2]), (max(0, r[1] - 3), r[2] + 3)]
            if quick:
                qs = qs[:2] + rng.sample(qs[2:], 3)
            cs += _range_ops(a, qs)
            for c in (_in_ranges_case(rng, a, r[0], r[2] + 3, rng.choice(MODES)) for _ in range(3)):
                cs.append(c)
        for c in cs:
            c["tag"] = tag
        cases += cs
    # modifiers.  (1) the same tables as filtered subsets of larger ones: pandas index labels differ from row positions
    for c in cases:
        big = c["tag"].startswith("random")
        if rng.random() < (0.4 if big else 0.15):
            c["in"]["sub"] = rng.randint(1, 10 ** 6)
            c["tag"] += "-subidx"
        # (2) representation, call form, chromosome names
        _modify(rng, c, p_rep=0.3 if big else 0.2, p_call=0.3 if big else 0.2, p_chrom=0.25)
    cases += _raw_cases(rng, quick)
    cases += _dual_cases(rng, quick)
    cases += _col_cases(rng, quick)
    return cases


STD_COLS = ["chromosome", "start", "end", "gene"]


def _col_cases(rng, quick):
    """extension 5c: iter_ranges_of with ANY column name (model c07IterRangesOf): mostly a standard column (gene,
    chromosome, start, end), in ~35 % a name that is not a column (ValueError at the first next(), gary.py:525, also
    for an empty `other` or an empty table)"""
    out = []
    small = T.small_tables(3, 2, prefix="a") + [[]]
    smallb = T.small_tables(3, 2, prefix="b") + [[]]

    def column():
        return rng.choice(["absent", "Gene", "", "log2", "gene "]) if rng.random() < 0.35 else rng.choice(STD_COLS)

    for _ in range(80 if quick else 1200):
        out.append({"op": "iter_ranges_of_col", "tag": "exh-itercol",
                    "in": {"a": rng.choice(small), "b": rng.choice(smallb), "mode": rng.choice(("outer", "inner")),
                           "keep_empty": rng.random() < 0.6, "cols": STD_COLS, "column": column()}})
    for _ in range(50 if quick else 600):
        chroms = rng.choice([("chr1",), ("chr1", "chr2")])
        i = {"a": T.random_table(rng, 25, chroms, prefix="a"), "b": T.random_table(rng, 10, chroms, prefix="b"),
             "mode": rng.choice(("outer", "inner")), "keep_empty": rng.random() < 0.6, "cols": STD_COLS, "column": column()}
        if rng.random() < 0.3:
            i["sub"] = rng.randint(1, 10 ** 6)
        out.append({"op": "iter_ranges_of_col", "tag": "random-itercol", "in": i})
    return out


def _dual_cases(rng, quick):
    """extension 5c: a.intersection(b, mode='trim') and a.subtract(b) on the same pair: the two results partition the
    bases of a on every chromosome (Props/C07Dual.lean), on pairs of small tables and on random nested / abutting /
    overlapping tables, b also shuffled and on chromosomes missing from a"""
    out = []
    small = T.small_tables(3, 3, prefix="a")
    smallb = T.small_tables(3, 3, prefix="b")
    for _ in range(80 if quick else 1500):
        out.append({"op": "trim_subtract", "tag": "exh-dual", "in": {"a": rng.choice(small), "b": rng.choice(smallb)}})
    for _ in range(60 if quick else 800):
        chroms = rng.choice([("chr1",), ("chr1", "chr2"), ("chr1", "chr2", "chrX")])
        a = T.random_table(rng, 30, chroms, prefix="a")
        b = T.random_table(rng, 12, rng.choice([chroms, chroms[:1], ("chr7",)]), prefix="b")
        tag = "random-dual"
        if rng.random() < 0.3:
            b = _shuffle_queries(rng, b)
            tag = "random-dual-qorder"
        i = {"a": a, "b": b}
        if rng.random() < 0.3:
            i["sub"] = rng.randint(1, 10 ** 6)
        out.append({"op": "trim_subtract", "tag": tag, "in": i})
    return out


def _raw_cases(rng, quick):
    """extension 5: in_ranges with starts / ends of unequal length and with empty arrays (model c07InRangesRaw:
    truncation on the binary-search path, AssertionError on the mask path, ValueError for no query at all, an
    empty array = an absent one), on every table of <= 3 rows over 0..3 and on random tables"""
    out = []

    def arrays(hi):
        k = rng.random()
        n1, n2 = rng.randint(1, 3), rng.randint(1, 3)
        if k < 0.45:       # unequal, both non-empty
            while n2 == n1:
                n2 = rng.randint(1, 4)
        elif k < 0.6:      # one empty, the other not
            n1, n2 = rng.choice([(0, n2), (n1, 0)])
        elif k < 0.7:      # both empty / empty and absent
            n1, n2 = rng.choice([(0, 0), (0, None), (None, 0)])
        elif k < 0.8:      # one absent
            n1, n2 = rng.choice([(None, n2), (n1, None)])
        mk = lambda n: None if n is None else [rng.randint(0, hi) for _ in range(n)]
        ss, es = mk(n1), mk(n2)
        if ss and es and rng.random() < 0.7:   # mostly valid ranges: end above start
            es = [max(e, ss[j] + 1) if j < len(ss) else e for j, e in enumerate(es)]
        return ss, es

    tables = T.small_tables(3, 3, prefix="a")
    if quick:
        tables = rng.sample(tables, 60)
    for t in tables:
        for m in MODES:
            ss, es = arrays(4)
            out.append({"op": "in_ranges_raw", "tag": "exh-inranges-raw",
                        "in": {"t": t, "chrom": rng.choice(["chr1", "chr1", "chr1", None, "chr2"]), "starts": ss,
                               "ends": es, "mode": m, "qform": rng.choice(["list", "tuple", "array", "series"])}})
    for _ in range(60 if quick else 600):
        t = T.random_table(rng, 25, rng.choice([("chr1",), ("chr1", "chr2")]), prefix="a",
                           style=rng.choice(["nested", "abut", "sparse"]), allow_empty=False)
        r = rng.choice(t)
        ss, es = arrays(r[2] + 3)
        i = {"t": t, "chrom": r[0], "starts": ss, "ends": es, "mode": rng.choice(MODES),
             "qform": rng.choice(["list", "tuple", "array", "series"])}
        if rng.random() < 0.3:
            i["sub"] = rng.randint(1, 10 ** 6)
        out.append({"op": "in_ranges_raw", "tag": "random-inranges-raw", "in": i})
    return out


# ---- the real code --------------------------------------------------------------------------------------------

@functools.lru_cache(maxsize=256)
def _ga_pristine(rows_json, sub, rep_json):
    return T.ga(json.loads(rows_json), sub=sub, rep=json.loads(rep_json) if rep_json else None)


def _call(fn, params, form):
    """params: [(name, value, has_default, default)] in signature order.  form None: required parameters
    positional, optional ones by keyword; 'pos': all positional; 'kw': all by keyword; 'implicit': by keyword,
    leaving out every optional argument that equals its default"""
    if form == "pos":
        return fn(*[p[1] for p in params])
    if form == "kw":
        return fn(**{p[0]: p[1] for p in params})
    if form == "implicit":
        args = [p[1] for p in params if not p[2]]
        kw = {p[0]: p[1] for p in params
              if p[2] and not (p[1] is p[3] or (isinstance(p[1], (str, bool)) and p[1] == p[3]))}
        return fn(*args, **kw)
    return fn(*[p[1] for p in params if not p[2]], **{p[0]: p[1] for p in params if p[2]})


def _val(x):
    import numpy as np
    if isinstance(x, (str, np.str_)):
        return str(x)
    if isinstance(x, (bool, np.bool_)):
        return bool(x)
    if isinstance(x, (int, np.integer)):
        return int(x)
    x = float(x)
    return None if x != x else x


def run_impl(case):
    import numpy as np
    import pandas as pd
    op, i = case["op"], case["in"]
    sub, rep, form = i.get("sub"), i.get("rep") or {}, i.get("call")

    def table(key, extra=None):
        r = rep.get("a" if key == "t" else key)
        if extra:
            r = dict(r or {}, extra=extra)
        pristine = _ga_pristine(json.dumps(i[key]), sub, json.dumps(r, sort_keys=True) if r else "")
        used = copy.copy(pristine)  # a private copy of the (cached) table: same labels, dtypes, column order
        used.data, used.meta = pristine.data.copy(), dict(pristine.meta)
        return pristine, used

    def unchanged(*pairs):
        for pristine, used in pairs:
            if not (list(used.data.columns) == list(pristine.data.columns) and used.data.equals(pristine.data)
                    and used.data.index.equals(pristine.data.index)):
                return False
        return True

    mutated = {"__error__": "InputMutated", "msg": "the call changed one of its input tables"}
    chk = i.get("chk")
    if op == "in_ranges_raw":
        t0, t = table("t")
        mk = {"list": list, "tuple": tuple, "array": lambda v: np.array(v, dtype=int),
              "series": lambda v: pd.Series(v, index=range(7, 7 + len(v)), dtype=int)}[i.get("qform", "list")]
        starts, ends = (None if i["starts"] is None else mk(i["starts"])), (None if i["ends"] is None else mk(i["ends"]))
        try:
            res = t.in_ranges(i["chrom"], starts, ends, i["mode"])
        except (ValueError, AssertionError) as exc:
            return {"raise": type(exc).__name__} if unchanged((t0, t)) else mutated
        if type(res) is not type(t):
            return {"__error__": "WrongClass", "msg": f"{type(res).__name__} from a {type(t).__name__}"}
        return {"rows": T.rows_of(res)} if unchanged((t0, t)) else mutated
    if op == "in_range" or op == "in_ranges":
        t0, t = table("t")
        if op == "in_range":
            s, e = i["s"], i["e"]
            conv = {"np": np.int64, "float": float, "npf": np.float64}.get(i.get("num"), lambda v: v)
            s, e = (None if s is None else conv(s)), (None if e is None else conv(e))
            res = _call(t.in_range, [("chrom", i["chrom"], True, None), ("start", s, True, None), ("end", e, True, None),
                                     ("mode", i["mode"], True, "outer")], form or "pos")
        else:
            starts = None if i.get("open") in ("start", "both") else [q[0] for q in i["qs"]]
            ends = None if i.get("open") in ("end", "both") else [q[1] for q in i["qs"]]
            mk = {"list": list, "tuple": tuple, "array": np.array, "farray": lambda v: np.array(v, dtype=float),
                  "series": lambda v: pd.Series(v, index=range(7, 7 + len(v)))}[i.get("qform", "list")]
            starts, ends = (None if starts is None else mk(starts)), (None if ends is None else mk(ends))
            res = _call(t.in_ranges, [("chrom", i["chrom"], True, None), ("starts", starts, True, None),
                                      ("ends", ends, True, None), ("mode", i["mode"], True, "outer")], form or "pos")
        out = T.rows_of(res)
        if type(res) is not type(t):
            return {"__error__": "WrongClass", "msg": f"{type(res).__name__} from a {type(t).__name__}"}
        if list(res.data.columns) != list(t.data.columns):
            return {"__error__": "ColumnsChanged", "msg": f"{list(res.data.columns)} from {list(t.data.columns)}"}
        return out if not chk or unchanged((t0, t)) else mutated
    if op == "into_ranges" and "col" in i:
        extra = None if i.get("nocol") or i["col"] == "gene" else {i["col"]: i["vals"]}
        a0, a = table("a", extra)
        b0, b = table("b")
        f = i["func"]
        from skgenome import combiners
        func = {None: None, "max": max, "len": len, "last": (lambda ser: ser.iat[-1]), "nanmean": np.nanmean,
                "const": i.get("const"), "first_of": combiners.first_of, "last_of": combiners.last_of,
                "join_strings": combiners.join_strings}[f]
        default = float("nan") if i["default"] is None else i["default"]
        params = [("other", b, False, None), ("column", i["col"], False, None), ("default", default, False, None)]
        if f is not None or form == "kw":
            params.append(("summary_func", func, True, None))
        import warnings
        with warnings.catch_warnings():
            warnings.simplefilter("ignore", RuntimeWarning)  # all-NaN slice
            res = _call(a.into_ranges, params, form)
        if isinstance(res, pd.DataFrame):
            return {"__error__": "ReturnsDataFrame", "msg": "into_ranges returned a DataFrame, not one value per range"}
        if not unchanged((a0, a), (b0, b)):
            return mutated
        return [_val(x) for x in res]
    a0, a = table("a")
    b0, b = table("b")
    if op == "iter_ranges_of_col":
        if list(a.data.columns) != i["cols"]:
            return {"__error__": "ColumnsMismatch", "msg": f"{list(a.data.columns)} != {i['cols']}"}
        try:
            vals = [[str(x) for x in ser] for ser in a.iter_ranges_of(b, i["column"], i["mode"], i["keep_empty"])]
        except ValueError as exc:
            return {"raise": type(exc).__name__} if unchanged((a0, a), (b0, b)) else mutated
        return {"vals": vals} if unchanged((a0, a), (b0, b)) else mutated
    if op == "trim_subtract":
        inter = a.intersection(b, mode="trim")
        sub = a.subtract(b)
        if type(inter) is not type(a) or type(sub) is not type(a):
            return {"__error__": "WrongClass", "msg": f"{type(inter).__name__} / {type(sub).__name__} from a {type(a).__name__}"}
        return {"inter": T.rows_of(inter), "sub": T.rows_of(sub)} if unchanged((a0, a), (b0, b)) else mutated
    out = _run(a, b, op, i, form)
    return out if not chk or unchanged((a0, a), (b0, b)) else mutated


def _run(a, b, op, i, form):
    import pandas as pd
    if op == "intersect":
        res = _call(a.intersection, [("other", b, False, None), ("mode", i["mode"], True, "outer")], form)
        if type(res) is not type(a):
            return {"__error__": "WrongClass", "msg": f"{type(res).__name__} from a {type(a).__name__}"}
        if list(res.data.columns) != list(a.data.columns):
            return {"__error__": "ColumnsChanged", "msg": f"{list(res.data.columns)} from {list(a.data.columns)}"}
        return T.rows_of(res)
    if op == "by_ranges":
        out = []
        for bin_row, sub in _call(a.by_ranges, [("other", b, False, None), ("mode", i["mode"], True, "outer"),
                                                ("keep_empty", i["keep_empty"], True, True)], form):
            out.append([[str(bin_row.chromosome), int(bin_row.start), int(bin_row.end), str(getattr(bin_row, "gene", "-"))],
                        T.rows_of(sub)])
            if type(sub) is not type(a):
                return {"__error__": "WrongClass", "msg": f"{type(sub).__name__} from a {type(a).__name__}"}
        return out
    if op == "iter_ranges_of":
        return [[str(x) for x in ser] for ser in
                _call(a.iter_ranges_of, [("other", b, False, None), ("column", "gene", False, None),
                                         ("mode", i["mode"], True, "outer"), ("keep_empty", i["keep_empty"], True, True)], form)]
    if op == "into_ranges":
        res = _call(a.into_ranges, [("other", b, False, None), ("column", "gene", False, None),
                                    ("default", i["default"], False, None)], form)
        if isinstance(res, pd.DataFrame):
            return {"__error__": "ReturnsDataFrame", "msg": "into_ranges returned a DataFrame, not one value per range"}
        return [str(x) for x in res]
    raise ValueError(op)


def to_line(case, impl):
    i = case["in"]
    if case["op"] == "into_ranges" and "col" in i:
        # the whole of into_ranges is modelled (Model/RangesExt.lean: intoRangesGA): cells of the column, default,
        # summary kind; the Lean spec evaluates the property's wording on the real output
        line = {"op": "into_ranges_val",
                "in": {"a": i["a"], "b": i["b"], "cells": None if i.get("nocol") else [_cell(v) for v in i["vals"]],
                       "default": _cell(i["default"]), "func": i["func"], "const": _cell(i.get("const"))}}
        if not (isinstance(impl, dict) and "__error__" in impl):
            line["impl"] = [_cell(v) for v in impl]
        return line
    if case["op"] == "in_ranges" and (i.get("open") or sum(q[0] for q in i["qs"]) % 2):
        # open sides travel as None (Model/RangesExt.lean: inRangesOpt); half of the closed cases take this door too
        line = {"op": "in_ranges_opt",
                "in": {"t": i["t"], "chrom": i["chrom"], "mode": i["mode"],
                       "starts": None if i.get("open") in ("start", "both") else [q[0] for q in i["qs"]],
                       "ends": None if i.get("open") in ("end", "both") else [q[1] for q in i["qs"]]}}
        if not (isinstance(impl, dict) and "__error__" in impl):
            line["impl"] = impl
        return line
    line = {"op": case["op"], "in": i}
    if not (isinstance(impl, dict) and "__error__" in impl):
        line["impl"] = impl
    return line


def judge(case, impl, resp):
    if isinstance(impl, dict) and "__error__" in impl:
        return ["raises_" + impl["__error__"]], [], None
    if "error" in resp:
        return [], ["model error: " + resp["error"]], None
    i = case["in"]
    if case["op"] == "into_ranges" and "col" in i:
        spec = list(resp.get("spec") or [])
        disagree = []
        if resp.get("specm"):
            disagree.append(f"model violates its own spec: {resp['specm']}")
        model = [_uncell(c) for c in resp["out"]]
        if len(model) != len(impl) or not all(_same(x, y) for x, y in zip(impl, model)):
            disagree.append("into_ranges: impl != model")
        return spec, disagree, None
    spec = list(resp.get("spec") or [])
    disagree = []
    if impl != resp["out"]:
        disagree.append(f"{case['op']}: impl != model")
    if resp.get("specm"):
        disagree.append(f"model violates its own spec: {resp['specm']}")
    return spec, disagree, None


def nontrivial(case, impl, resp):
    i = case["in"]
    if "t" in i:
        return len(i["t"]) >= 1 and (i.get("s") is not None or i.get("e") is not None or "qs" in i or bool(i.get("starts") or i.get("ends")))
    for x in i.get("a", []):
        for y in i.get("b", []):
            if x[0] == y[0] and x[1] < y[2] and y[1] < x[2]:
                return True
    return False


def shrink(case):
    i = case["in"]
    if "col" in i:
        return
    for key in ("t", "a", "b"):
        if key in i:
            for smaller in T.shrink_rows(i[key]):
                c = {"op": case["op"], "tag": "shrunk", "in": dict(i)}
                c["in"][key] = smaller
                yield c
    for key in ("starts", "ends"):
        if case["op"] == "in_ranges_raw" and i.get(key) and len(i[key]) > 1:
            for k in range(len(i[key])):
                c = {"op": case["op"], "tag": "shrunk", "in": dict(i)}
                c["in"][key] = i[key][:k] + i[key][k + 1:]
                yield c
    for key in ("rep", "call", "sub", "num", "qform"):
        if key in i:
            c = {"op": case["op"], "tag": "shrunk", "in": {k: v for k, v in i.items() if k != key}}
            yield c
