"""C07 -- range queries return exactly the overlapping / contained / clipped rows."""
from __future__ import annotations

from .. import tables as T

LEVEL = "proof"
RULE = ("exhaustive: every pair (table, queries) of sorted multisets of <=2 rows x <=2 queries over 0..4 "
        "(quick) / <=2 x <=2 over 0..5 plus a 5% sample of <=2 x 3 over 0..5 (thorough), 1-2 chromosomes, 3 modes x keep_empty, None bounds; "
        "random nested/duplicated/abutting tables <=40 rows; 15% of the exhaustive and 40% of the random cases build "
        "their tables as filtered subsets of larger ones (pandas index labels != row positions). non-trivial = some query overlaps some row "
        "of the same chromosome; distinct by hash of (op, input)")
EXHAUSTIVE = {"quick": True, "thorough": True}
ASSUMPTIONS = ["tables sorted by (chromosome key, start, end), start < end, coordinates >= 0"]
TRUSTED_EXTRA = ["numpy searchsorted on a monotone column = counting (Basic.ssLeft/ssRight)"]
MODES = ("outer", "inner", "trim")


def corpus():
    nested = [["chr1", 0, 100, "a"], ["chr1", 10, 20, "b"], ["chr1", 30, 40, "c"]]
    return [
        {"op": "in_range", "tag": "corpus-H", "in": {"t": nested, "chrom": "chr1", "s": 25, "e": None, "mode": "outer"}},
        {"op": "in_range", "tag": "corpus-H", "in": {"t": nested, "chrom": "chr1", "s": None, "e": 25, "mode": "inner"}},
        {"op": "intersect", "tag": "corpus-Q", "in": {"a": nested, "b": [["chr2", 0, 5, "q"]], "mode": "outer"}},
        {"op": "into_ranges", "tag": "corpus-S", "in": {"a": [], "b": nested, "default": "dflt"}},
        {"op": "into_ranges", "tag": "corpus-S", "in": {"a": nested, "b": [], "default": "dflt"}},
    ]


def _pair_ops(a, b, rng=None):
    out = []
    for m in MODES:
        out.append({"op": "intersect", "in": {"a": a, "b": b, "mode": m}})
        for ke in (True, False):
            out.append({"op": "by_ranges", "in": {"a": a, "b": b, "mode": m, "keep_empty": ke}})
    for m in ("outer", "inner"):
        for ke in (True, False):
            out.append({"op": "iter_ranges_of", "in": {"a": a, "b": b, "mode": m, "keep_empty": ke}})
    out.append({"op": "into_ranges", "in": {"a": a, "b": b, "default": "dflt"}})
    return out


def _range_ops(t, queries):
    out = []
    chroms = sorted({r[0] for r in t}) or ["chr1"]
    for c in chroms:
        for (s, e) in queries:
            for m in MODES:
                out.append({"op": "in_range", "in": {"t": t, "chrom": c, "s": s, "e": e, "mode": m}})
    return out


def gen_cases(rng, tier):
    cases = []
    if tier == "search":
        for _ in range(500):
            a = T.random_table(rng, 12, prefix="a")
            b = T.random_table(rng, 8, prefix="b")
            cs = _pair_ops(a, b) + _range_ops(a, [(rng.randint(0, 50), None), (None, rng.randint(0, 50)),
                                                  (rng.randint(0, 30), rng.randint(30, 90))])
            sub = rng.choice([None, rng.randint(1, 10 ** 6)])
            for c in cs:
                c["tag"] = "search"
                if sub:
                    c["in"]["sub"] = sub
            cases += cs
        return cases
    # thorough: every pair of <=2 x <=2 rows over 0..5 plus a 5% sample of the pairs with 3 query ranges
    # (the full <=2 x <=3 scope over 0..6 is several million cases: kept out of the registered command)
    hi, ka, kb = (4, 2, 2) if tier == "quick" else (5, 2, 3)
    A = T.small_tables(hi, ka, prefix="a")
    B = T.small_tables(hi, kb, prefix="b")
    if tier != "quick":
        B = [b for b in B if len(b) < 3 or rng.random() < 0.05]
    for a in A:
        for b in B:
            for c in _pair_ops(a, b):
                c["tag"] = "exh2"
                cases.append(c)
    # None bounds / single queries, tables of up to 3 rows (nesting needs 3 rows to matter)
    for t in T.small_tables(hi, 3, prefix="a"):
        qs = [(s, None) for s in range(0, hi + 1)] + [(None, e) for e in range(0, hi + 1)] + [(None, None)]
        if tier == "thorough":
            qs += T.intervals(0, hi)
        else:
            qs += rng.sample(T.intervals(0, hi), 4)
        for c in _range_ops(t, qs):
            c["tag"] = "exh-inrange"
            cases.append(c)
        if t:
            ivs = T.intervals(0, hi)
            q2 = [list(x) for x in rng.sample(ivs, 2)]
            for m in MODES:
                cases.append({"op": "in_ranges", "tag": "exh-inranges",
                              "in": {"t": t, "chrom": "chr1", "qs": sorted(q2), "mode": m}})
    # two chromosomes
    for a in rng.sample(A, 30 if tier == "quick" else 66):
        for b in rng.sample(B, 10 if tier == "quick" else 30):
            a2 = a + [["chr2", s, e, f"h{i}"] for i, (s, e) in enumerate(sorted(rng.sample(T.intervals(0, 4), rng.randint(0, 2))))]
            b2 = b + [[rng.choice(["chr2", "chr3"]), s, e, f"k{i}"] for i, (s, e) in enumerate(sorted(rng.sample(T.intervals(0, 4), rng.randint(0, 2))))]
            b2 = T.sort_rows(b2)
            for c in _pair_ops(a2, b2):
                c["tag"] = "exh2-chr2"
                cases.append(c)
    n_rand = 120 if tier == "quick" else 1200
    for _ in range(n_rand):
        chroms = rng.choice([("chr1",), ("chr1", "chr2"), ("chr1", "chr2", "chrX")])
        a = T.random_table(rng, 40, chroms, prefix="a")
        b = T.random_table(rng, 15, rng.choice([chroms, chroms[:1], ("chr7",)]), prefix="b")
        cs = _pair_ops(a, b)
        if a:
            r = rng.choice(a)
            qs = [(r[1], None), (None, r[2]), (r[1] + 1, None), (None, r[2] - 1), (0, None), (None, 0),
                  (r[1], r[2]), (max(0, r[1] - 3), r[2] + 3)]
            cs += _range_ops(a, qs)
        for c in cs:
            c["tag"] = "random"
        cases += cs
    # the same tables as filtered subsets of larger ones: pandas index labels differ from row positions
    for c in cases:
        big = c["tag"] == "random"
        if rng.random() < (0.4 if big else 0.15):
            c["in"]["sub"] = rng.randint(1, 10 ** 6)
            c["tag"] += "-subidx"
    return cases


def run_impl(case):
    import numpy as np
    op, i = case["op"], case["in"]
    sub = i.get("sub")

    class T2:  # the same adapters, tables optionally built as filtered subsets (index labels != positions)
        rows_of = staticmethod(T.rows_of)

        @staticmethod
        def ga(rows):
            return T.ga(rows, sub=sub)
    return _run(T2, op, i)


def _run(T, op, i):
    import numpy as np
    if op == "intersect":
        return T.rows_of(T.ga(i["a"]).intersection(T.ga(i["b"]), mode=i["mode"]))
    if op == "by_ranges":
        out = []
        for bin_row, sub in T.ga(i["a"]).by_ranges(T.ga(i["b"]), mode=i["mode"], keep_empty=i["keep_empty"]):
            out.append([[str(bin_row.chromosome), int(bin_row.start), int(bin_row.end), str(bin_row.gene)],
                        T.rows_of(sub)])
        return out
    if op == "iter_ranges_of":
        return [[str(x) for x in ser] for ser in
                T.ga(i["a"]).iter_ranges_of(T.ga(i["b"]), "gene", mode=i["mode"], keep_empty=i["keep_empty"])]
    if op == "into_ranges":
        res = T.ga(i["a"]).into_ranges(T.ga(i["b"]), "gene", i["default"])
        import pandas as pd
        if isinstance(res, pd.DataFrame):
            return {"__error__": "ReturnsDataFrame", "msg": "into_ranges returned a DataFrame, not one value per range"}
        return [str(x) for x in res]
    if op == "in_range":
        return T.rows_of(T.ga(i["t"]).in_range(i["chrom"], i["s"], i["e"], mode=i["mode"]))
    if op == "in_ranges":
        starts = [q[0] for q in i["qs"]]
        ends = [q[1] for q in i["qs"]]
        return T.rows_of(T.ga(i["t"]).in_ranges(i["chrom"], starts, ends, mode=i["mode"]))
    raise ValueError(op)


def to_line(case, impl):
    line = {"op": case["op"], "in": case["in"]}
    if not (isinstance(impl, dict) and "__error__" in impl):
        line["impl"] = impl
    return line


def judge(case, impl, resp):
    if isinstance(impl, dict) and "__error__" in impl:
        return ["raises_" + impl["__error__"]], [], None
    if "error" in resp:
        return [], ["model error: " + resp["error"]], None
    spec = list(resp.get("spec") or [])
    disagree = []
    if impl != resp["out"]:
        disagree.append(f"{case['op']}: impl != model")
    if resp.get("specm"):
        disagree.append(f"model violates its own spec: {resp['specm']}")
    return spec, disagree, None


def nontrivial(case, impl, resp):
    i = case["in"]
    if "t" in i:
        return len(i["t"]) >= 1 and (i.get("s") is not None or i.get("e") is not None or "qs" in i)
    for x in i.get("a", []):
        for y in i.get("b", []):
            if x[0] == y[0] and x[1] < y[2] and y[1] < x[2]:
                return True
    return False


def shrink(case):
    i = case["in"]
    for key in ("t", "a", "b"):
        if key in i:
            for smaller in T.shrink_rows(i[key]):
                c = {"op": case["op"], "tag": "shrunk", "in": dict(i)}
                c["in"][key] = smaller
                yield c
