"""C04, round 5: direct differential tie of the DECISIONS of fix.py (the parts Props/C04Plan + C04SrcPlan are about).

op `fix_plan`   -- one class of bins through the real `load_adjust_coverages` with `center_by_window` replaced by a recorder
                   (which sort key, in which order) and the "most bins have no coverage" warning captured; the model
                   answers with `C04x.decisions` (skip verdict, plan).  Cells: every subset of the three flags, reference
                   with / without gc and rmask columns, skip_low on / off, the number of null-coverage bins just below /
                   at / above half of the kept bins (even and odd counts), bad reference bins, a bin missing from the reference.
op `fix_pooled` -- the real `apply_weights` on a small table with the debug message of the pooled branch captured; the model
                   answers with `C04x.pooledCols`.  Cells: spread at / just above / below epsilon, log2 whole / fractional /
                   within epsilon of a whole number from either side (negative values: numpy's modulo is in [0, 1)), the
                   two witnesses in the same or in different rows.
"""
from __future__ import annotations

import math

from ..core import frac

EXT_OPS = {"fix_plan", "fix_pooled"}
EPS = 1e-4
SPREADS = [0.0, EPS, EPS * (1 + 1e-9), EPS / 2, 0.2, 0.9]
LOG2S = [0.0, -1.0, 2.0, 0.5, -0.5, EPS, EPS * (1 + 1e-6), 1.0 + EPS / 2, -EPS / 2, 3 - 5e-5, -2.25, 1.00025]


def _pooled_case(rng, k):
    n = rng.randint(1, 5)
    mode = k % 4
    sp = [rng.choice(SPREADS) for _ in range(n)]
    lg = [rng.choice(LOG2S) for _ in range(n)]
    if mode == 1:   # no spread above epsilon
        sp = [rng.choice(SPREADS[:2] + SPREADS[3:4]) for _ in range(n)]
    elif mode == 2:  # all log2 (nearly) whole
        lg = [rng.choice([0.0, -1.0, 2.0, EPS, 1.0 + EPS / 2]) for _ in range(n)]
    elif mode == 3 and n >= 2:  # the two witnesses in different rows
        sp = [0.2] + [0.0] * (n - 1)
        lg = [1.0] + [0.5] * (n - 1)
    return {"op": "fix_pooled", "tag": f"pooled-m{mode}", "in": {"spread": sp, "log2": lg}}


def _plan_case(rng, k, bad=None):
    n = rng.randint(2, 9)
    chroms = ["chr1", "chr2"][: rng.randint(1, 2)]
    withgc, withrm = rng.random() < 0.6, rng.random() < 0.6
    anti = rng.random() < 0.4
    ref, samp = [], []
    pos = 1000
    nbad = 0
    for j in range(n):
        c = chroms[j * len(chroms) // n]
        size = rng.choice([5000, 8000]) if anti else rng.choice([120, 200, 320])
        s, e = pos, pos + size
        pos = e + rng.choice([0, 50, 400, 3000])
        badbin = rng.random() < 0.12
        nbad += badbin
        ref.append([c, s, e, "Antitarget" if anti else "G%d" % j, round(rng.uniform(-1, 1), 3) if not badbin else -6.5, 10.0,
                    round(rng.uniform(0.35, 0.65), 3) if withgc else None, round(rng.choice([0.0, 0.0, rng.random()]), 3) if withrm else None,
                    round(rng.uniform(0.01, 0.4), 3)])
        samp.append([c, s, e, ref[-1][3], round(rng.uniform(-1, 1), 3), 25.0])
    kept = [j for j in range(n) if ref[j][4] > -5]
    # null-coverage bins among the kept ones: just below / at / above half
    m = len(kept)
    want = max(0, min(m, m // 2 + rng.choice([-1, 0, 0, 1, 1]))) if rng.random() < 0.6 else 0
    for j in rng.sample(kept, want):
        samp[j][4], samp[j][5] = -20.0, 0.0
    if bad == "missing":
        samp[rng.randrange(n)][1] += 1
    flags = [rng.random() < 0.6 for _ in range(3)]
    if k < 8:
        flags = [bool(k & 1), bool(k & 2), bool(k & 4)]
    rng.shuffle(samp)
    return {"op": "fix_plan", "tag": f"plan-{'anti' if anti else 'tgt'}-null{want}of{m}" + ("-" + bad if bad else ""),
            "in": {"samp": samp, "ref": ref, "skip_low": rng.random() < 0.5, "fix_gc": flags[0], "fix_edge": flags[1],
                   "fix_rmask": flags[2], "par": None}}


def gen_cases(rng, tier):
    n = {"quick": 40, "thorough": 300, "search": 60}[tier]
    out = [_plan_case(rng, k) for k in range(n)] + [_plan_case(rng, 99, bad="missing")]
    out += [_pooled_case(rng, k) for k in range(n)]
    return out


def run_impl(case, helpers):
    import logging
    from cnvlib import fix
    i = case["in"]
    msgs = []

    class Rec:   # stands in for the `logging` module inside cnvlib.fix (the harness disables logging globally)
        def __getattr__(self, name):
            if name in ("debug", "info", "warning", "error"):
                return lambda fmt, *a: msgs.append(fmt % a if a else fmt)
            return getattr(logging, name)
    saved_logging = fix.logging
    fix.logging = Rec()
    try:
        if case["op"] == "fix_pooled":
            n = len(i["spread"])
            rows = [["chr1", 1000 * k, 1000 * k + 200 + 10 * k, "G", 0.1 * ((k * 7) % 5) - 0.2, 5.0] for k in range(n)]
            cn = helpers["samp"](rows, {})
            rf = helpers["ref"]([r[:4] + [i["log2"][k], 5.0, None, None, i["spread"][k]] for k, r in enumerate(rows)])
            import warnings
            with warnings.catch_warnings():
                warnings.simplefilter("ignore")
                fix.apply_weights(cn, rf, "log2", "spread")
            return {"pooled": any("coverage spread in reference" in m for m in msgs)}
        calls = []

        def recorder(cnarr, fraction, sort_key):
            name = getattr(sort_key, "name", None)
            calls.append(name if name in ("gc", "rmask") else "get_edge_bias")
            return cnarr
        saved = fix.center_by_window
        fix.center_by_window = recorder
        try:
            fix.load_adjust_coverages(helpers["samp"](i["samp"], {}), helpers["ref"](i["ref"]), i["skip_low"], i["fix_gc"],
                                      i["fix_edge"], i["fix_rmask"], i["par"])
        finally:
            fix.center_by_window = saved
        return {"skip": any("most bins have no or very low coverage" in m for m in msgs), "plan": calls}
    finally:
        fix.logging = saved_logging


def _rows(rows, n):
    return [[r[0], r[1], r[2], r[3]] + [None if v is None else frac(v) for v in r[4:n]] for r in rows]


def to_line(case, impl):
    i = case["in"]
    if case["op"] == "fix_pooled":
        return {"op": "fix_pooled", "in": {"spread": [frac(v) for v in i["spread"]], "log2": [frac(v) for v in i["log2"]]}}
    return {"op": "fix_plan", "in": {"samp": _rows(i["samp"], 6), "ref": _rows(i["ref"], 9), "skip_low": i["skip_low"],
                                     "fix_gc": i["fix_gc"], "fix_edge": i["fix_edge"], "fix_rmask": i["fix_rmask"], "par": i["par"]}}


def judge(case, impl, resp):
    if "error" in resp:
        return [], ["model error: " + resp["error"]], None
    out = resp["out"]
    if case["op"] == "fix_pooled":
        if isinstance(impl, dict) and "__error__" in impl:
            return ["raises_" + impl["__error__"]], [], None
        if bool(out) != impl["pooled"]:
            return ["pooled_or_flat_verdict"], [f"pooled-or-flat verdict: model {out} impl {impl['pooled']}"], None
        return [], [], None
    model_err = isinstance(out, dict) and "error_kind" in out
    if isinstance(impl, dict) and "__error__" in impl:
        if model_err and impl["__error__"] == "ValueError":
            return [], [], None
        return ["raises_" + impl["__error__"]], [], None
    if model_err:
        return ["fix_rejects_missing_or_duplicated"], [], None
    if out["skip"] != impl["skip"]:
        return ["corrections_skipped_iff_most_bins_null"], [f"skip verdict: model {out['skip']} impl {impl['skip']}"], None
    if list(out["plan"]) != list(impl["plan"]):
        return ["correction_plan"], [f"correction plan: model {out['plan']} impl {impl['plan']}"], None
    return [], [], None


def nontrivial(case, impl, resp):
    if isinstance(impl, dict) and "__error__" in impl:
        return True
    if case["op"] == "fix_pooled":
        return len(case["in"]["spread"]) >= 2 or impl.get("pooled", False)
    return bool(impl.get("plan")) or impl.get("skip", False)
