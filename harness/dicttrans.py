"""Python loop that fills an insertion-ordered dict of lists -> Lean step functions (companion of exprtrans.py /
looptrans.py, same philosophy; used for skgenome/gary.py `_get_gene_map`, property C16).

Re-reads, on every run, the body of

    d = OrderedDict()
    for idx, s in <series>.items():
        <row statements>            # may skip a null value, may loop over s.split(c)
            <dict statements>       # update d
    return d

and writes it as Lean definitions over `PyDict16.Dict = List (String × List Nat)` (lean/CnvVerif/Model/PyDictExt5.lean):

    <name>_init                      : Dict          the dict before the loop
    <name>_inner d idx g             : Dict          ONE iteration of the inner loop (one name of one row)
    <name>_row   d idx s             : Dict          ONE iteration of the outer loop (one row; `s : Option String`)

so that the function's result on the column `gs` is the left fold of `_row` over the rows, numbered 0, 1, 2, ...

Reading of the source (trusted, like the rules at the top of exprtrans.py); anything else raises `Untranslatable`, and the
extractor then leaves a comment instead of a definition, so that exactly the theorems about the function stop checking.
* `OrderedDict()` / `{}` / `dict()` is the empty association list; a dict keeps its keys in insertion order (Python >= 3.7
  and OrderedDict alike); the only dict in scope is the one local initialised that way;
* `for idx, s in X.items()` visits the rows of the column in table order; `idx` is the row's index label, which is the row's
  POSITION for the callers C16 is about (`by_gene` calls the function on `reset_index(drop=True)`); `s` is `none` where
  pandas holds a null (NaN / None);
* `if pd.isnull(s): continue` (also spelled `pd.isna`) is `match s with | none => d | some s => <rest>`;
* `for g in s.split("<one character>"):` is a left fold of the inner body over `PyDict16.split s c`;
* `k in d` / `k not in d` is `PyDict16.has d k` / its negation; an `if` over such a test updates `d` in each branch
  (a missing `else` leaves `d` as it is);
* `d[k] = []` / `d[k] = [x]` is `PyDict16.set d k …`; `d[k].append(x)` is `PyDict16.set d k (PyDict16.get d k ++ [x])`;
  `d.setdefault(k, []).append(x)` is read as its definition, `if k not in d: d[k] = []` followed by `d[k].append(x)`;
* docstrings, annotations and `logging.*` statements are dropped.
"""
from __future__ import annotations

import ast

from .exprtrans import Untranslatable
from .looptrans import lname

DICT = "PyDict16.Dict"


def _strip(stmts):
    out = []
    for s in stmts:
        if isinstance(s, ast.Expr) and isinstance(s.value, ast.Constant):
            continue
        if isinstance(s, ast.Expr) and isinstance(s.value, ast.Call) and isinstance(s.value.func, ast.Attribute) \
                and isinstance(s.value.func.value, ast.Name) and s.value.func.value.id == "logging":
            continue
        out.append(s)
    return out


def _is_empty_dict(e):
    if isinstance(e, ast.Dict) and not e.keys:
        return True
    if isinstance(e, ast.Call) and not e.args and not e.keywords:
        f = e.func
        name = f.id if isinstance(f, ast.Name) else f.attr if isinstance(f, ast.Attribute) else None
        return name in ("OrderedDict", "dict")
    return False


def _char(c):
    if not (isinstance(c, ast.Constant) and isinstance(c.value, str) and len(c.value) == 1 and 32 <= ord(c.value) < 127
            and c.value not in "'\\"):
        raise Untranslatable("split separator must be one printable character: " + ast.unparse(c))
    return f"'{c.value}'"


class DictLoop:
    def __init__(self, fn):
        self.fn = fn
        body = _strip(fn.body)
        self.dname = None
        self.absent = None
        self.loop = None
        for k, s in enumerate(body):
            if isinstance(s, ast.If) and len(s.body) == 1 and isinstance(s.body[0], ast.Return) and not s.orelse \
                    and self.dname is None:
                if not _is_empty_dict(s.body[0].value):
                    raise Untranslatable("early return of something else than an empty dict")
                self.absent = s
            elif isinstance(s, (ast.Assign, ast.AnnAssign)) and s.value is not None and _is_empty_dict(s.value):
                tgt = s.targets[0] if isinstance(s, ast.Assign) else s.target
                if not isinstance(tgt, ast.Name) or self.dname is not None:
                    raise Untranslatable("dict initialisation: " + ast.unparse(s))
                self.dname = tgt.id
            elif isinstance(s, ast.For) and self.dname is not None and self.loop is None:
                self.loop = s
            elif isinstance(s, ast.Return) and self.loop is not None and isinstance(s.value, ast.Name) \
                    and s.value.id == self.dname and k == len(body) - 1:
                pass
            else:
                raise Untranslatable("statement outside the dict-loop shape: " + ast.unparse(s)[:80])
        if self.dname is None or self.loop is None:
            raise Untranslatable("no `d = OrderedDict()` followed by a loop")
        lp = self.loop
        if lp.orelse or not (isinstance(lp.target, ast.Tuple) and len(lp.target.elts) == 2
                             and all(isinstance(x, ast.Name) for x in lp.target.elts)):
            raise Untranslatable("outer loop target: " + ast.unparse(lp.target))
        it = lp.iter
        if not (isinstance(it, ast.Call) and isinstance(it.func, ast.Attribute) and it.func.attr == "items" and not it.args):
            raise Untranslatable("outer loop does not iterate over <series>.items(): " + ast.unparse(it))
        self.column = ast.unparse(it.func.value)
        self.idx, self.sname = (x.id for x in lp.target.elts)
        self.inner = None

    # ------------------------------------------------------------------------------------------
    def _name(self, e, allowed):
        if not (isinstance(e, ast.Name) and e.id in allowed):
            raise Untranslatable("expected one of " + ", ".join(sorted(allowed)) + ": " + ast.unparse(e))
        return lname(e.id)

    def _is_d(self, e):
        return isinstance(e, ast.Name) and e.id == self.dname

    def _listlit(self, e, scope):
        if isinstance(e, ast.List) and len(e.elts) <= 1:
            return "[" + ", ".join(self._name(x, scope) for x in e.elts) + "]"
        raise Untranslatable("dict value must be [] or [x]: " + ast.unparse(e))

    def _membership(self, test, scope):
        """(lean Bool expression 'k in d', negated?)"""
        neg = False
        while isinstance(test, ast.UnaryOp) and isinstance(test.op, ast.Not):
            neg, test = not neg, test.operand
        if not (isinstance(test, ast.Compare) and len(test.ops) == 1 and isinstance(test.ops[0], (ast.In, ast.NotIn))
                and self._is_d(test.comparators[0])):
            raise Untranslatable("test is not `k in d`: " + ast.unparse(test))
        if isinstance(test.ops[0], ast.NotIn):
            neg = not neg
        return f"PyDict16.has {lname(self.dname)} {self._name(test.left, scope)}", neg

    def dict_stmts(self, stmts, scope, ind):
        """a block that updates the dict -> Lean term of type Dict (in terms of the current `d`)"""
        d = lname(self.dname)
        pad = "  " * ind
        lines = []
        for s in _strip(stmts):
            if isinstance(s, ast.If):
                has, neg = self._membership(s.test, scope)
                a = self.dict_stmts(s.body, scope, ind + 1)
                b = self.dict_stmts(s.orelse, scope, ind + 1) if s.orelse else d
                cond = f"!({has})" if neg else has
                lines.append(f"{pad}let {d} := (if {cond} then {a} else {b})")
            elif isinstance(s, ast.Assign) and len(s.targets) == 1 and isinstance(s.targets[0], ast.Subscript) \
                    and self._is_d(s.targets[0].value):
                k = self._name(s.targets[0].slice, scope)
                lines.append(f"{pad}let {d} := PyDict16.set {d} {k} {self._listlit(s.value, scope)}")
            elif isinstance(s, ast.Expr) and isinstance(s.value, ast.Call) and isinstance(s.value.func, ast.Attribute) \
                    and s.value.func.attr == "append" and len(s.value.args) == 1 and not s.value.keywords:
                x = self._name(s.value.args[0], scope)
                recv = s.value.func.value
                if isinstance(recv, ast.Subscript) and self._is_d(recv.value):
                    k = self._name(recv.slice, scope)
                elif isinstance(recv, ast.Call) and isinstance(recv.func, ast.Attribute) and recv.func.attr == "setdefault" \
                        and self._is_d(recv.func.value) and len(recv.args) == 2 and isinstance(recv.args[1], ast.List) \
                        and not recv.args[1].elts:
                    k = self._name(recv.args[0], scope)
                    lines.append(f"{pad}let {d} := (if !(PyDict16.has {d} {k}) then PyDict16.set {d} {k} [] else {d})")
                else:
                    raise Untranslatable("append to something else than d[k]: " + ast.unparse(s))
                lines.append(f"{pad}let {d} := PyDict16.set {d} {k} (PyDict16.get {d} {k} ++ [{x}])")
            else:
                raise Untranslatable("dict statement: " + ast.unparse(s)[:80])
        if not lines:
            return d
        if len(lines) == 1 and lines[0].startswith(f"{pad}let {d} := "):
            return lines[0][len(f"{pad}let {d} := "):]
        return "(\n" + "\n".join(lines) + f"\n{pad}{d})"

    def row_stmts(self, stmts, inner_name):
        """the body of the outer loop -> Lean term of type Dict; records the inner loop"""
        d, s = lname(self.dname), lname(self.sname)
        stmts = _strip(stmts)
        if not stmts:
            return d
        st, rest = stmts[0], stmts[1:]
        if isinstance(st, ast.If) and not st.orelse and len(st.body) == 1 and isinstance(st.body[0], ast.Continue):
            t = st.test
            if not (isinstance(t, ast.Call) and isinstance(t.func, ast.Attribute) and t.func.attr in ("isnull", "isna")
                    and len(t.args) == 1 and isinstance(t.args[0], ast.Name) and t.args[0].id == self.sname):
                raise Untranslatable("skip test is not pd.isnull(<value>): " + ast.unparse(t))
            if self.null_checked:
                raise Untranslatable("two null tests")
            self.null_checked = True
            return f"(match {s} with\n  | none => {d}\n  | some {s} => {self.row_stmts(rest, inner_name)})"
        if isinstance(st, ast.For) and not st.orelse and isinstance(st.target, ast.Name) and self.inner is None:
            it = st.iter
            if not (isinstance(it, ast.Call) and isinstance(it.func, ast.Attribute) and it.func.attr == "split"
                    and isinstance(it.func.value, ast.Name) and it.func.value.id == self.sname and len(it.args) == 1
                    and not it.keywords):
                raise Untranslatable("inner loop does not iterate over <value>.split(c): " + ast.unparse(it))
            if not self.null_checked:
                raise Untranslatable("the value is split without a null test")
            self.inner = st
            g = lname(st.target.id)
            if rest:
                raise Untranslatable("statements after the inner loop")
            return (f"(PyDict16.split {s} {_char(it.args[0])}).foldl (fun {d} {g} => {inner_name} {d} {lname(self.idx)} {g}) {d}")
        raise Untranslatable("row statement: " + ast.unparse(st)[:80])

    # ------------------------------------------------------------------------------------------
    def emit(self, o, name, what):
        d, idx, s = lname(self.dname), lname(self.idx), lname(self.sname)
        self.null_checked = False
        row = self.row_stmts(self.loop.body, name + "_inner")
        if self.inner is None:
            raise Untranslatable("no inner loop over the names of a row")
        g = lname(self.inner.target.id)
        inner = self.dict_stmts(self.inner.body, {self.inner.target.id, self.idx}, 1)
        o.lines.append(f"/-- {what}: the dict before the loop -/")
        o.lines.append(f"def {name}_init : {DICT} := []")
        o.lines.append(f"/-- {what}: ONE ITERATION of the inner loop (one name `{g}` of the row `{idx}`) -/")
        o.lines.append(f"def {name}_inner ({d} : {DICT}) ({idx} : Nat) ({g} : String) : {DICT} :=\n  {inner}")
        o.lines.append(f"/-- {what}: ONE ITERATION of the outer loop over `{self.column}.items()` (`none` = null) -/")
        o.lines.append(f"def {name}_row ({d} : {DICT}) ({idx} : Nat) ({s} : Option String) : {DICT} :=\n  {row}")
        if self.absent is not None:
            o.lines.append(f"/-- {what}: the result when `{ast.unparse(self.absent.test)}` -/")
            o.lines.append(f"def {name}_absent : {DICT} := []")
        for suffix in ("_init", "_inner", "_row"):
            o.info[name + suffix] = {"params": [d, idx]}


def emit_dict_loop(o, fn_getter, name, what):
    try:
        DictLoop(fn_getter()).emit(o, name, what)
    except (Untranslatable, KeyError, IndexError, StopIteration, OSError, SyntaxError, AttributeError) as e:
        o.lines.append(f"-- NOT TRANSLATED: {name}: {type(e).__name__}: {str(e)[:200]}".replace("\n", " "))
        o.info[name] = {"error": str(e)[:200]}
