"""C16 (round 5b): the outer loop of `squash_genes` on the real objects -- the oracle of Props/C16SquashLoop.lean
(`squashloop_row_count`, `squashloop_passthrough`, `squashloop_one_row`, `squashloop_order`) and the corpus cases that
walk every branch of the loop (antitarget bins, default-ignored names, a custom ignored name, single-bin and many-bin
genes, `squash_antitarget` on and off)."""


def check_loop(out, arr, ignore, squash_anti):
    """walk the groups `by_gene` yields and the rows of the result side by side: an empty group has no row, a group
    labelled with an antitarget alias (while `squash_antitarget` is off) has its own rows, unchanged, any other group
    has ONE row from its first start to its last end; nothing else is in the result"""
    from cnvlib import params

    groups = list(arr.by_gene() if ignore is None else arr.by_gene(ignore))
    d, k = out.data, 0
    same = lambda x, y: x == y or (x != x and y != y)
    for name, sub in groups:
        n = len(sub)
        if n == 0:
            continue
        if name in params.ANTITARGET_ALIASES and not squash_anti:
            got = d.iloc[k:k + n]
            for c in sub.data.columns:
                a, b = list(got[c]), list(sub.data[c])
                if len(a) != len(b) or not all(same(x, y) for x, y in zip(a, b)):
                    raise AssertionError(f"squash_genes: rows {k}..{k + n} should be the {n} bins of the {name!r} group at "
                                         f"{sub.chromosome.iat[0]}:{sub.start.iat[0]} unchanged; column {c}: {a} vs {b}")
            k += n
        else:
            if k >= len(d):
                raise AssertionError(f"squash_genes: no row for the group {name!r} at {sub.chromosome.iat[0]}:{sub.start.iat[0]}")
            got = (str(d["chromosome"].iat[k]), int(d["start"].iat[k]), int(d["end"].iat[k]))
            want = (str(sub.chromosome.iat[0]), int(sub.start.iat[0]), int(sub.end.iat[-1]))
            if got != want or (n > 1 and str(d["gene"].iat[k]) != name):
                raise AssertionError(f"squash_genes: row {k} should be the one squashed row of the group {name!r} {want}, is "
                                     f"{got} {d['gene'].iat[k]!r}")
            k += 1
    if k != len(d):
        raise AssertionError(f"squash_genes: {len(d)} rows, the groups of by_gene account for {k}")


def corpus(_b):
    rows = [_b(0, "chr1", 0, 10, "Antitarget", 0.5, 1.0, 1.0), _b(1, "chr1", 10, 20, "-", 0.25, 1.0, 1.0),
            _b(2, "chr1", 20, 30, "A", 1.0, 2.0, 1.0), _b(3, "chr1", 30, 40, "A", 2.0, 4.0, 1.0),
            _b(4, "chr1", 40, 50, "CGH", -1.0, 1.0, 1.0), _b(5, "chr1", 50, 60, "B", 0.75, 1.0, 1.0),
            _b(6, "chr1", 60, 70, "MYIGN", 0.5, 3.0, 1.0), _b(7, "chr1", 70, 80, "MYIGN", 1.5, 5.0, 1.0),
            _b(8, "chr1", 80, 90, "C", -0.5, 1.0, 1.0), _b(9, "chr2", 0, 10, "C2", 0.5, 1.0, 1.0),
            _b(10, "chr2", 10, 20, "Antitarget", 0.5, 1.0, 1.0), _b(11, "chr2", 20, 30, "Antitarget", 1.5, 2.0, 1.0)]
    cs = []
    for summary, anti, ign in (("mean", False, None), ("mean", True, None), ("median", False, ["MYIGN"]),
                               ("mean", True, ["MYIGN"]), ("median", False, ["MYIGN", "B"]), ("mean", False, [])):
        cs.append({"op": "squash_genes", "tag": f"corpus-squashloop-{'anti' if anti else 'keep'}-{'-'.join(ign) if ign else ign}",
                   "in": {"rows": rows, "summary": summary, "squash_antitarget": anti, "ignore": ign}})
    return cs
