"""Reader for the DECISIONS of cnvlib/fix.py (C04, round 5) -> Generated/ExprsFixPlan.lean.  Part of the trusted base.

Reading rules (everything else raises, i.e. the generated file is not produced and the check reports it):

* reduction test  `(<elementwise comparison>).any()` / `.all()` / `.sum()`:
    the comparison is over ONE column `tbl[<key>]`; the column becomes a `List Rat` parameter named after the key
    (a string literal as written, a name `foo_key` as `foo`), the comparison a `fun v => decide (...)`;
    `.any()` = `List.any`, `.all()` = `List.all`, `.sum()` = length of `List.filter` (a Nat).
    Inside the comparison: float / int literals are the exact doubles; a plain name is a `Rat` parameter;
    `params.NAME` is `Generated.NAME` (Generated/Consts.lean, read from params.py); `+ - *` and unary minus as written;
    `np.abs(x)` = `if x < 0 then -x else x`; `np.mod(x, m)` = `x - floor(x / m) * m` (numpy's sign-of-divisor modulo).
* `a and b` / `a or b` / `not a` over reduction tests = `&&` / `||` / `!`;  `len(tbl)` = the length of the column the
  same test reduces (the test must then be over one column);  `n // k` with an integer literal k = Nat division;  `<=`, `<`, `>=`, `>`, `==` between Nats.
* correction plan of a block (`plan`): the ordered list of sort keys with which `center_by_window` is called.
    `x = center_by_window(_, _, KEY)` contributes `[name(KEY)]`, where `tbl["col"]` is named "col" and a local name is named
    by the function whose call it was assigned from (`edge_bias = get_edge_bias(...)` -> "get_edge_bias");
    `if NAME:` -> `if NAME = true then plan(body) else plan(orelse)` with NAME a Bool parameter;
    `if "col" in tbl:` -> the Bool parameter `has_col`;  any other `if` test -> the Bool parameter given by the caller
    (one only);  the Bool parameters are ordered as in the function's signature, then the `has_` ones by name;\n    every other statement contributes nothing (logging, bookkeeping of the index reset, `frac`).
"""
import ast
import os
from fractions import Fraction

from .translate import parse, find_func, rat


class Unreadable(Exception):
    pass


def _colname(sub):
    k = sub.slice
    if isinstance(k, ast.Constant) and isinstance(k.value, str):
        return k.value
    if isinstance(k, ast.Name):
        return k.id[:-4] if k.id.endswith("_key") else k.id
    raise Unreadable("column key " + ast.unparse(sub))


class Elem:
    """one elementwise comparison over a single column"""

    def __init__(self):
        self.col = None
        self.params = []

    def ex(self, e):
        if isinstance(e, ast.Subscript) and isinstance(e.value, ast.Name):
            c = _colname(e)
            if self.col not in (None, c):
                raise Unreadable("two columns in one comparison")
            self.col = c
            return "v"
        if isinstance(e, ast.Constant) and isinstance(e.value, (int, float)) and not isinstance(e.value, bool):
            return rat(Fraction(e.value))
        if isinstance(e, ast.Name):
            if e.id not in self.params:
                self.params.append(e.id)
            return e.id
        if isinstance(e, ast.Attribute) and isinstance(e.value, ast.Name) and e.value.id == "params":
            return e.attr
        if isinstance(e, ast.UnaryOp) and isinstance(e.op, ast.USub):
            return f"(-{self.ex(e.operand)})"
        if isinstance(e, ast.BinOp) and type(e.op) in (ast.Add, ast.Sub, ast.Mult):
            op = {ast.Add: "+", ast.Sub: "-", ast.Mult: "*"}[type(e.op)]
            return f"({self.ex(e.left)} {op} {self.ex(e.right)})"
        if isinstance(e, ast.Call) and isinstance(e.func, ast.Attribute) and isinstance(e.func.value, ast.Name) \
                and e.func.value.id in ("np", "numpy") and not e.keywords:
            if e.func.attr in ("abs", "absolute", "fabs") and len(e.args) == 1:
                x = self.ex(e.args[0])
                return f"(if {x} < 0 then -{x} else {x})"
            if e.func.attr in ("mod", "remainder") and len(e.args) == 2:
                x, m = self.ex(e.args[0]), self.ex(e.args[1])
                return f"({x} - ((Rat.floor ({x} / {m}) : Int) : Rat) * {m})"
        raise Unreadable("elementwise expression " + ast.unparse(e))

    def cmp(self, e):
        if not (isinstance(e, ast.Compare) and len(e.ops) == 1):
            raise Unreadable("comparison " + ast.unparse(e))
        op = {ast.Gt: ">", ast.GtE: "≥", ast.Lt: "<", ast.LtE: "≤", ast.Eq: "=", ast.NotEq: "≠"}.get(type(e.ops[0]))
        if op is None:
            raise Unreadable("comparison operator " + ast.unparse(e))
        return f"fun v => decide ({self.ex(e.left)} {op} {self.ex(e.comparators[0])})"


class Test:
    def __init__(self):
        self.cols = []      # list parameters, in order of appearance
        self.scalars = []   # Rat parameters

    def _reduction(self, e):
        """(<cmp>).any() / .all() / .sum() -> (kind, lean list expression)"""
        if isinstance(e, ast.Call) and isinstance(e.func, ast.Attribute) and not e.args and not e.keywords \
                and e.func.attr in ("any", "all", "sum"):
            el = Elem()
            f = el.cmp(e.func.value)
            if el.col is None:
                raise Unreadable("no column in " + ast.unparse(e))
            if el.col not in self.cols:
                self.cols.append(el.col)
            for p in el.params:
                if p not in self.scalars:
                    self.scalars.append(p)
            return e.func.attr, el.col, f
        return None

    def nat(self, e):
        r = self._reduction(e)
        if r and r[0] == "sum":
            return f"(({r[1]}.filter ({r[2]})).length)"
        if isinstance(e, ast.Call) and isinstance(e.func, ast.Name) and e.func.id == "len" and len(e.args) == 1:
            return "@LEN@"   # the column the test reduces, settled in `define`
        if isinstance(e, ast.BinOp) and isinstance(e.op, ast.FloorDiv) and isinstance(e.right, ast.Constant) \
                and isinstance(e.right.value, int) and e.right.value > 0:
            return f"({self.nat(e.left)} / {e.right.value})"
        if isinstance(e, ast.Constant) and isinstance(e.value, int) and e.value >= 0:
            return str(e.value)
        raise Unreadable("count expression " + ast.unparse(e))

    def boolean(self, e):
        if isinstance(e, ast.BoolOp):
            op = " && " if isinstance(e.op, ast.And) else " || "
            return "(" + op.join(self.boolean(v) for v in e.values) + ")"
        if isinstance(e, ast.UnaryOp) and isinstance(e.op, ast.Not):
            return f"(!{self.boolean(e.operand)})"
        r = self._reduction(e)
        if r and r[0] in ("any", "all"):
            return f"({r[1]}.{r[0]} ({r[2]}))"
        if isinstance(e, ast.Compare) and len(e.ops) == 1:
            op = {ast.Gt: ">", ast.GtE: "≥", ast.Lt: "<", ast.LtE: "≤", ast.Eq: "="}.get(type(e.ops[0]))
            if op:
                return f"decide ({self.nat(e.left)} {op} {self.nat(e.comparators[0])})"
        raise Unreadable("test " + ast.unparse(e))

    def define(self, name, e, comment):
        body = self.boolean(e)
        if "@LEN@" in body:
            if len(self.cols) != 1:
                raise Unreadable("len() in a test over %d columns" % len(self.cols))
            body = body.replace("@LEN@", self.cols[0] + ".length")
        sig = ""
        if self.scalars:
            sig += f" ({' '.join(self.scalars)} : Rat)"
        if self.cols:
            sig += f" ({' '.join(self.cols)} : List Rat)"
        return [f"/-- {comment} -/", f"def {name}{sig} : Bool :=", f"  {body}"]


def _assigns_name(stmts, name):
    for s in stmts:
        for n in ast.walk(s):
            if isinstance(n, ast.Assign) and any(isinstance(t, ast.Name) and t.id == name for t in n.targets):
                return True
    return False


def if_assigning_both(fn, name):
    """the `if` statement both of whose branches assign `name`"""
    for n in ast.walk(fn):
        if isinstance(n, ast.If) and n.orelse and _assigns_name(n.body, name) and _assigns_name(n.orelse, name):
            return n
    raise Unreadable(f"no if/else assigning {name} in {fn.name}")


def _calls(node, fname):
    if isinstance(node, list):
        return [c for s in node for c in _calls(s, fname)]
    return [n for n in ast.walk(node) if isinstance(n, ast.Call) and
            ((isinstance(n.func, ast.Name) and n.func.id == fname) or
             (isinstance(n.func, ast.Attribute) and n.func.attr == fname))]


class Plan:
    def __init__(self, fn, callee, other):
        self.fn, self.callee, self.other = fn, callee, other
        self.flags, self.has, self.used_other = [], [], False

    def keyname(self, e):
        if isinstance(e, ast.Subscript):
            return _colname(e)
        if isinstance(e, ast.Name):
            for n in ast.walk(self.fn):
                if isinstance(n, ast.Assign) and any(isinstance(t, ast.Name) and t.id == e.id for t in n.targets) \
                        and isinstance(n.value, ast.Call):
                    f = n.value.func
                    return f.id if isinstance(f, ast.Name) else f.attr
        raise Unreadable("sort key " + ast.unparse(e))

    def cond(self, t):
        if isinstance(t, ast.Name):
            if t.id not in self.flags:
                self.flags.append(t.id)
            return f"{t.id} = true"
        if isinstance(t, ast.Compare) and len(t.ops) == 1 and isinstance(t.ops[0], ast.In) \
                and isinstance(t.left, ast.Constant) and isinstance(t.left.value, str):
            h = "has_" + t.left.value
            if h not in self.has:
                self.has.append(h)
            return f"{h} = true"
        if isinstance(t, ast.UnaryOp) and isinstance(t.op, ast.Not):
            return f"¬ ({self.cond(t.operand)})"
        if self.used_other:
            raise Unreadable("second opaque test " + ast.unparse(t))
        self.used_other = True
        return f"{self.other} = true"

    def block(self, stmts):
        parts = []
        for s in stmts:
            if isinstance(s, ast.If):
                if not _calls(s, self.callee):
                    continue
                parts.append(f"(if {self.cond(s.test)} then {self.block(s.body)} else {self.block(s.orelse)})")
            elif _calls(s, self.callee):
                cs = _calls(s, self.callee)
                if not (isinstance(s, ast.Assign) and len(cs) == 1 and s.value is cs[0] and len(cs[0].args) == 3):
                    raise Unreadable("call of " + self.callee + " in " + ast.unparse(s))
                parts.append('["%s"]' % self.keyname(cs[0].args[2]))
        return "(" + " ++ ".join(parts) + ")" if parts else "([] : List String)"


def emit(repo, o):
    tree, _src = parse(os.path.join(repo, "cnvlib/fix.py"))
    # 1. the pooled-or-flat test of apply_weights
    fw = find_func(tree, "apply_weights")
    t = Test()
    o.lines += t.define("src_pooled_test", if_assigning_both(fw, "weights").test,
                        "apply_weights: the pooled-or-flat reference test (columns of the matched reference)")
    o.info["src_pooled_test"] = "fn"
    # 2. load_adjust_coverages: the skip test and the plan of corrections
    fl = find_func(tree, "load_adjust_coverages")
    outer = [n for n in ast.walk(fl) if isinstance(n, ast.If) and n.orelse and _calls(n.orelse, "center_by_window")
             and not _calls(n.body, "center_by_window") and not isinstance(n.test, ast.Name)
             and not (isinstance(n.test, ast.Compare) and isinstance(n.test.ops[0], ast.In))]
    if len(outer) != 1:
        raise Unreadable("the skip test of load_adjust_coverages")
    t2 = Test()
    o.lines += t2.define("src_skip_corrections", outer[0].test,
                         "load_adjust_coverages: corrections are skipped when this holds (log2 = the centred sample column)")
    o.info["src_skip_corrections"] = "fn"
    p = Plan(fl, "center_by_window", "skip")
    body = p.block([outer[0]])
    argpos = {a.arg: k for k, a in enumerate(fl.args.args)}
    if any(f not in argpos for f in p.flags):
        raise Unreadable("a flag of the plan is not a parameter of load_adjust_coverages: %s" % p.flags)
    # parameters in the order of the function's own signature / of the column names (not of appearance in the body)
    names = (["skip"] if p.used_other else []) + sorted(p.flags, key=argpos.get) + sorted(p.has)
    o.lines += ["/-- load_adjust_coverages: the sort keys of the successive center_by_window calls -/",
                f"def src_correction_plan ({' '.join(names)} : Bool) : List String :=", f"  {body}"]
    o.info["src_correction_plan"] = "fn"
    # the margin of the edge-bias key
    for c in _calls(fl, "get_edge_bias"):
        o.defn("FIX_EDGE_MARGIN_EXPR", "String", '"%s"' % ast.unparse(c.args[1]), "second argument of get_edge_bias")
