"""C11 extension (round 5): `FDRThres` as written, `stats.norm.cdf` a parameter of the model (op `fdr_cdf`).

The real `FDRThres(x, q, stdev)` is called on the peak values; the harness hands the model the doubles
`c = stats.norm.cdf(x_sorted, stdev)` (the call of the source, positional `stdev`) as a table standing in for the `cdf`
parameter.  Compared, exactly: the threshold, the keep mask `np.abs(x) >= T` of `haarSeg`; checked on the real output:
the statements of Props/C11Fdr.lean (`fdrz_some_peak_kept_iff`: some peak is kept iff a p-value passes or the bump
`+ 1e-16` is absorbed by the double rounding; absorbed => exactly the maxima; not absorbed => nothing) and the float
rule of observation Z (the bump is absorbed iff max|x| >= 1).
"""
from __future__ import annotations

import math
from fractions import Fraction

from .core import frac


def _near_one(rng):
    return rng.choice([1.0, math.nextafter(1.0, 0.0), math.nextafter(1.0, 2.0), 0.9999999999999998, 1.0000000000000004,
                       0.5, 0.75, 2.0, 1.5, 0.999, 1.001])


def gen_fdr_cdf(rng, k):
    out = []
    for n in range(k):
        m = rng.choice([0, 1, 2, 2, 3, 4, 5, 8, 10, 20, 40])
        r = rng.random()
        if r < 0.30:      # normalised responses of property-sized steps: a few units, no p-value passes at q = 1e-4
            scale = rng.choice([0.3, 1.0, 2.0])
            x = [rng.gauss(0, scale) for _ in range(m)]
            kind = "gauss"
        elif r < 0.50:    # dyadic values with ties in |x| (both signs)
            top = rng.choice([4, 8, 16, 40])
            x = [rng.randint(-top, top) / 8 for _ in range(m)]
            kind = "dyadic"
        elif r < 0.70:    # the largest peak on either side of 1 (where the bump stops being absorbed)
            t = _near_one(rng)
            x = [rng.uniform(-1, 1) * t * 0.999 for _ in range(m)]
            for _ in range(rng.choice([1, 1, 2])):
                if m:
                    x[rng.randrange(m)] = t * rng.choice([1, -1])
            kind = "near1"
        elif r < 0.92:    # far-out peaks: some p-values pass, the last passing index inside the array
            x = [rng.gauss(0, 1) * rng.choice([1, 1, 4, 8]) + rng.choice([0, 0, 5, -5]) for _ in range(m)]
            kind = "far"
        else:             # degenerate: zeros, one repeated value
            v = rng.choice([0.0, 0.0, 1.0, 0.25, -3.0])
            x = [v] * m
            kind = "const"
        if kind == "far":
            q = rng.choice([0.0001, 0.01, 0.05, 0.5, 0.9, 1.0])
        else:
            q = rng.choice([0.0001, 0.0001, 0.001, 0.01, 0.5, 1.0, 0.0])
        sd = rng.choice([0.0, 0.01, 0.1, 1.0, rng.uniform(0.005, 0.3), 3.0])
        out.append({"op": "fdr_cdf", "tag": "fdrcdf:%s:M%s" % (kind, "<2" if m < 2 else ">=2"),
                    "in": {"x": x, "q": q, "stdev": sd}})
    return out


def corpus():
    out = []
    one_minus = math.nextafter(1.0, 0.0)
    for x in ([1.0, 0.5, 0.25], [0.75, 0.5, 0.25], [2.34, 0.2, 0.1], [one_minus, 0.5], [-1.0, 1.0, 0.5], [0.0, 0.0],
              [-2.34375, 2.34375, 2.0], [0.5, -0.5]):
        out.append({"op": "fdr_cdf", "tag": "corpus-fdrcdf-bump", "in": {"x": x, "q": 0.0001, "stdev": 0.01}})
    # p-values pass up to an index inside the array (threshold = value at the LARGEST passing index)
    out.append({"op": "fdr_cdf", "tag": "corpus-fdrcdf-pass", "in": {"x": [6.0, -5.5, 5.0, 0.5, 0.25], "q": 0.0001, "stdev": 0.01}})
    out.append({"op": "fdr_cdf", "tag": "corpus-fdrcdf-pass", "in": {"x": [3.0, 2.0, -2.5, 0.1, 1.9, 0.7], "q": 0.5, "stdev": 1.0}})
    return out


def run_impl(case):
    import numpy as np
    from scipy import stats
    from cnvlib.segmentation import haar
    i = case["in"]
    x = np.array(i["x"], dtype=float)
    xs = np.sort(np.abs(x))[::-1]
    c = stats.norm.cdf(xs, i["stdev"]) if len(xs) else []
    T = haar.FDRThres(x, i["q"], i["stdev"])
    # the keep test of haarSeg, spelled as there (convRes = x, peakLoc = every position)
    loc = np.arange(len(x))
    kept = np.extract(np.abs(x.take(loc)) >= T, loc) if len(x) else np.array([], dtype=int)
    mask = [bool(k in set(int(v) for v in kept)) for k in range(len(x))]
    return {"T": frac(float(T)), "c": [frac(float(v)) for v in c], "mask": mask}


def to_line(case, impl):
    i = case["in"]
    if isinstance(impl, dict) and "__error__" in impl:
        return {"op": "fdr_cdf", "in": {"x": [], "q": "0", "c": []}, "impl": None}
    return {"op": "fdr_cdf", "in": {"x": [frac(v) for v in i["x"]], "q": frac(i["q"]), "c": impl["c"]},
            "impl": {"T": impl["T"], "mask": impl["mask"]}}


def judge(case, impl, resp, spec, dis):
    """appends to `dis` (model-vs-real disagreements: the characterisation is not a clause of the property)"""
    out = resp.get("out")
    x = case["in"]["x"]
    if Fraction(impl["T"]) != Fraction(out["T"]):
        dis.append(f"FDRThres (cdf a parameter) model {out['T']} impl {impl['T']}")
    if list(impl["mask"]) != list(out["mask"]):
        dis.append(f"keep mask |x| >= T: model {out['mask'][:8]} impl {impl['mask'][:8]}")
    if not out["float_rule"]:
        dis.append("observation Z, float side: the bump x_sorted[0] + eps is absorbed by the double rounding for "
                   f"max|x| = {float(Fraction(out['top']))!r} although it is < 1, or survives although it is >= 1")
    if len(x) >= 2:
        real_any = any(impl["mask"])
        if real_any != out["kept_any_by_theorem"]:
            dis.append("theorem fdrz_some_peak_kept_iff on the real output: some peak kept = %s, predicted %s "
                       "(no p-value passes = %s, bump absorbed = %s)" % (real_any, out["kept_any_by_theorem"],
                                                                         out["no_pvalue_passes"], out["bump_absorbed"]))
        top = max(abs(Fraction(frac(v))) for v in x)
        if out["no_pvalue_passes"]:
            want = [out["bump_absorbed"] and abs(Fraction(frac(v))) == top for v in x]
            if list(impl["mask"]) != want:
                dis.append("theorems fdrz_absorbed_bump_keeps_exactly_the_maxima / fdrz_surviving_bump_keeps_nothing on "
                           "the real output: kept %s, predicted %s" % (impl["mask"][:8], want[:8]))
        elif not all(m for v, m in zip(x, impl["mask"]) if abs(Fraction(frac(v))) == top):
            dis.append("theorem fdrz_threshold_when_some_pvalue_passes on the real output: the largest peak is not kept")


def nontrivial(case, impl, resp):
    return len(case["in"]["x"]) >= 2
