"""`convolve_weighted(window, signal, weights, n_iter)` -> Lean (round 5b, C19): the body of a fixed-count `for` loop over
whole-array statements.

Reading of the source (trusted).  The function has the parameters (window, signal, weights, n_iter[=default]).  Its body is,
in this order: optional docstring; `assert len(A) == len(B)[, msg]` with {A, B} = {signal, weights} (read: unequal lengths ->
AssertionError); a tuple assignment `u, v = signal, weights` (in either pairing) binding the two loop-carried names -- the one
bound to `signal` is the VALUE array (entries may become non-finite: `List (Option Rat)`), the one bound to `weights` the
WEIGHT array (`List Rat`); `window /= window.sum()` (read: `Smooth.normalise window`); `for _ in range(n_iter):` whose body is a
sequence of single-name assignments (calls of `logging.*` are skipped); `return u, v` (the two carried names, value array first).
Array expressions: a name; `A * B` (element by element; weight*weight, weight*value or value*weight); `A / B` with A a value
array and B a weight array (a zero divisor gives a non-finite entry: `C19Iter.divOR`); `np.convolve(A, B, mode="same")` with
exactly one of A, B the name `window` (read: `Smooth.convSame window X` for a weight array, `Smooth.convSameOpt window X` for a
value array -- numpy's convolution is commutative).  Every expression gets the kind (value / weight) these rules give it; a name
keeps the kind of the expression last assigned to it.  Anything else is Untranslatable."""
from __future__ import annotations

import ast
import os

from .exprtrans import Untranslatable

V, W = "value", "weight"


def _expr(e, env, window):
    if isinstance(e, ast.Name):
        if e.id not in env:
            raise Untranslatable("unbound name " + e.id)
        return e.id, env[e.id]
    if isinstance(e, ast.BinOp) and isinstance(e.op, ast.Mult):
        (a, ka), (b, kb) = _expr(e.left, env, window), _expr(e.right, env, window)
        if ka == W and kb == W:
            return f"(C19Iter.mulRR {a} {b})", W
        if ka == W and kb == V:
            return f"(C19Iter.mulRO {a} {b})", V
        if ka == V and kb == W:
            return f"(C19Iter.mulOR {a} {b})", V
        raise Untranslatable("value * value")
    if isinstance(e, ast.BinOp) and isinstance(e.op, ast.Div):
        (a, ka), (b, kb) = _expr(e.left, env, window), _expr(e.right, env, window)
        if ka == V and kb == W:
            return f"(C19Iter.divOR {a} {b})", V
        raise Untranslatable("division outside value / weight")
    if isinstance(e, ast.Call) and ast.unparse(e.func) in ("np.convolve", "numpy.convolve"):
        kws = {k.arg: k.value for k in e.keywords}
        args = list(e.args)
        if set(kws) != {"mode"} or not (isinstance(kws["mode"], ast.Constant) and kws["mode"].value == "same") or len(args) != 2:
            raise Untranslatable('expected np.convolve(a, b, mode="same")')
        isw = [isinstance(a, ast.Name) and a.id == window for a in args]
        if isw.count(True) != 1:
            raise Untranslatable("exactly one argument of np.convolve must be the window")
        x, k = _expr(args[1] if isw[0] else args[0], env, window)
        return (f"(Smooth.convSame {window} {x})", W) if k == W else (f"(Smooth.convSameOpt {window} {x})", V)
    raise Untranslatable("expression outside the subset: " + ast.unparse(e))


def translate(fn, lean, comment):
    body = [s for s in fn.body if not (isinstance(s, ast.Expr) and isinstance(s.value, ast.Constant))]
    args = [a.arg for a in fn.args.args]
    if len(args) != 4 or len(body) != 5:
        raise Untranslatable("expected (window, signal, weights, n_iter) and assert / bind / normalise / for / return")
    window, signal, weights, n_iter = args
    a, bind, norm, loop, ret = body
    if not (isinstance(a, ast.Assert) and isinstance(a.test, ast.Compare) and len(a.test.ops) == 1
            and isinstance(a.test.ops[0], ast.Eq)
            and {ast.unparse(a.test.left), ast.unparse(a.test.comparators[0])} == {f"len({signal})", f"len({weights})"}):
        raise Untranslatable("expected assert len(weights) == len(signal)")
    if not (isinstance(bind, ast.Assign) and len(bind.targets) == 1 and isinstance(bind.targets[0], ast.Tuple)
            and isinstance(bind.value, ast.Tuple) and len(bind.targets[0].elts) == 2
            and all(isinstance(t, ast.Name) for t in bind.targets[0].elts)
            and sorted(ast.unparse(v) for v in bind.value.elts) == sorted([signal, weights])):
        raise Untranslatable("expected `y, w = signal, weights`")
    pairs = dict(zip([ast.unparse(v) for v in bind.value.elts], [t.id for t in bind.targets[0].elts]))
    yv, wv = pairs[signal], pairs[weights]
    if not (isinstance(norm, ast.AugAssign) and isinstance(norm.op, ast.Div) and ast.unparse(norm.target) == window
            and ast.unparse(norm.value) in (f"{window}.sum()", f"np.sum({window})")):
        raise Untranslatable("expected `window /= window.sum()`")
    if not (isinstance(loop, ast.For) and not loop.orelse and isinstance(loop.target, ast.Name)
            and ast.unparse(loop.iter) == f"range({n_iter})"):
        raise Untranslatable("expected `for _ in range(n_iter)`")
    env = {yv: V, wv: W}
    lines = []
    for s in loop.body:
        if isinstance(s, ast.Expr) and isinstance(s.value, ast.Call) and ast.unparse(s.value.func).startswith("logging."):
            continue
        if not (isinstance(s, ast.Assign) and len(s.targets) == 1 and isinstance(s.targets[0], ast.Name)):
            raise Untranslatable("loop statement outside the subset: " + ast.unparse(s)[:80])
        if s.targets[0].id in (window, loop.target.id, n_iter):
            raise Untranslatable("assignment to the window / counter inside the loop")
        text, kind = _expr(s.value, env, window)
        env[s.targets[0].id] = kind
        ty = "List (Option Rat)" if kind == V else "List Rat"
        lines.append(f"    let {s.targets[0].id} : {ty} := {text}")
    if env[yv] != V or env[wv] != W:
        raise Untranslatable("a carried name changes its kind")
    if not (isinstance(ret, ast.Return) and isinstance(ret.value, ast.Tuple)
            and [ast.unparse(v) for v in ret.value.elts] == [yv, wv]):
        raise Untranslatable("expected `return y, w`")
    st = "List (Option Rat) × List Rat"
    out = [f"/-- the `for _ in range({n_iter})` loop of {comment}: state ({yv}, {wv}) -/",
           f"def {lean}_loop ({window} : List Rat) : Nat → {st} → {st}",
           "  | 0, st => st", "  | n + 1, st =>",
           f"    let {yv} : List (Option Rat) := st.1", f"    let {wv} : List Rat := st.2"] + lines + \
          [f"    {lean}_loop {window} n ({yv}, {wv})", "",
           f"/-- {comment} -/",
           f"def {lean} ({window} {signal} {weights} : List Rat) ({n_iter} : Nat) : Except Smooth.WingErr ({st}) :=",
           f"  if {weights}.length ≠ {signal}.length then .error .assertionError else",
           f"  let {window} : List Rat := Smooth.normalise {window}",
           f"  .ok ({lean}_loop {window} {n_iter} ({signal}.map some, {weights}))"]
    return "\n".join(out), args


def emit(repo, o, specs):
    from .translate import parse, find_func
    for path, fname, lean, comment in specs:
        try:
            tree, _src = parse(os.path.join(repo, path))
            text, params = translate(find_func(tree, fname), lean, comment)
        except (Untranslatable, KeyError, OSError, SyntaxError) as e:
            o.lines.append(f"-- NOT TRANSLATED: {path}:{fname}: {type(e).__name__}: {str(e)[:200]}".replace("\n", " "))
            o.info[lean] = {"error": str(e)[:200]}
            continue
        o.lines.append(text + "\n")
        o.info[lean] = {"params": params}
