"""Reader of `cnvlib/segfilters.py: squash_region` -> Generated/ExprsSquash.lean (C14, round 5).  Part of the trusted base.

`squash_region(cnarr)` builds a dict `out` of one-element columns from REDUCTIONS of the columns of `cnarr` and returns
`pd.DataFrame(out)`.  Reading rules (anything else raises `Untranslatable`, i.e. a broken tie, never silence):
* the function is read into `List C14Sq.Col` -- (column name, Bool "the column exists", cell) in dict insertion order --
  as a function of `R : C14Sq.Reds` (lean/CnvVerif/Model/SegFilterExt5Vocab.lean), the reductions by column name;
* `cnarr["k"].iat[0]` / `.iloc[0]` / `.values[0]` is `R.first "k"` (`R.firstS` for the text columns chromosome, gene),
  index `-1` is `R.last` / `R.lastS`; `cnarr["k"].sum() / .max() / .min() / .mean() / .median()` and `np.sum/max/min/mean/
  median(cnarr["k"])` are `R.sum "k"` ...; `np.average(cnarr["a"], weights=cnarr["b"])` is `R.wavg "a" "b"`;
  `weighted_median(cnarr["a"], cnarr["b"])` is `R.wmed "a" "b"`; `len(cnarr)` is `R.len`;
  `sep.join(cnarr["k"].drop_duplicates())` (or `.unique()`, `pd.unique(..)`) is `R.joinUniq sep "k"`, without the
  de-duplication `R.joinAll sep "k"`; a one-element list `[e]` is `e` (the DataFrame has one row either way);
* `"k" in cnarr` is `R.has "k"`; a numeric comparison is `decide (..)`; `and` / `or` / `not` are `&&` / `||` / `!`;
* a local bound to an expression is read through (inlined), `out["k"]` on the right is the cell assigned so far;
* `if c: A else: B` -- both branches are read from the state before it; a cell / local assigned in both is
  `if c then a else b`; a cell assigned in one branch only exists under `c` (resp. `!c`) in addition to what it
  needed before; a local assigned in one branch only is unbound afterwards; `a if c else b` likewise;
* `assert` statements and the docstring are skipped; the function must end with `return pd.DataFrame(<the dict>)`.
"""
import ast
import copy

from .exprtrans import Untranslatable

STR_COLS = ("chromosome", "gene")
RED_METHODS = {"sum": "sum", "max": "max", "min": "min", "mean": "mean", "median": "median"}


def _lstr(s):
    return '"' + s.replace("\\", "\\\\").replace('"', '\\"') + '"'


class SquashReader:
    def __init__(self, fn):
        self.fn = fn
        if len(fn.args.args) != 1:
            raise Untranslatable("squash_region: one parameter expected")
        self.tbl = fn.args.args[0].arg
        self.dict_name = None

    # -- expressions: return (lean text, type) with type in num / str / bool
    def col(self, n):
        if isinstance(n, ast.Subscript) and isinstance(n.value, ast.Name) and n.value.id == self.tbl \
                and isinstance(n.slice, ast.Constant) and isinstance(n.slice.value, str):
            return n.slice.value
        if isinstance(n, ast.Attribute) and n.attr in ("values", "data"):
            return self.col(n.value)
        return None

    def expr(self, n, st):
        loc, out = st
        if isinstance(n, ast.Constant) and isinstance(n.value, (int, float)) and not isinstance(n.value, bool):
            from fractions import Fraction
            f = Fraction(n.value)
            return (f"({f.numerator} : Rat)" if f.denominator == 1 else f"(({f.numerator} : Rat) / {f.denominator})"), "num"
        if isinstance(n, ast.Constant) and isinstance(n.value, str):
            return _lstr(n.value), "str"
        if isinstance(n, ast.Name):
            if n.id in loc:
                return loc[n.id]
            raise Untranslatable(f"unbound name {n.id}")
        if isinstance(n, ast.List) and len(n.elts) == 1:
            return self.expr(n.elts[0], st)
        if isinstance(n, ast.Subscript):
            # out["k"]
            if isinstance(n.value, ast.Name) and n.value.id == self.dict_name and isinstance(n.slice, ast.Constant):
                k = n.slice.value
                if k not in out:
                    raise Untranslatable(f"cell {k} read before it is assigned")
                return out[k][1], out[k][2]
            # col.iat[0] / col.iloc[-1] / col.values[0]
            idx = n.slice
            if isinstance(idx, ast.UnaryOp) and isinstance(idx.op, ast.USub) and isinstance(idx.operand, ast.Constant):
                iv = -idx.operand.value
            elif isinstance(idx, ast.Constant):
                iv = idx.value
            else:
                iv = None
            base = n.value
            if isinstance(base, ast.Attribute) and base.attr in ("iat", "iloc"):
                base = base.value
            c = self.col(base)
            if c is not None and iv in (0, -1):
                s = c in STR_COLS
                name = ("first" if iv == 0 else "last") + ("S" if s else "")
                return f"(R.{name} {_lstr(c)})", ("str" if s else "num")
            raise Untranslatable("subscript " + ast.unparse(n))
        if isinstance(n, ast.Call):
            f = n.func
            ftxt = ast.unparse(f)
            if ftxt == "len" and len(n.args) == 1 and isinstance(n.args[0], ast.Name) and n.args[0].id == self.tbl:
                return "R.len", "num"
            if isinstance(f, ast.Attribute) and f.attr in RED_METHODS and not n.args and not n.keywords:
                c = self.col(f.value)
                if c is not None and c not in STR_COLS:
                    return f"(R.{RED_METHODS[f.attr]} {_lstr(c)})", "num"
            if ftxt in ("np." + m for m in RED_METHODS) and len(n.args) == 1 and not n.keywords:
                c = self.col(n.args[0])
                if c is not None and c not in STR_COLS:
                    return f"(R.{RED_METHODS[f.attr]} {_lstr(c)})", "num"
            if ftxt == "np.average" and len(n.args) == 1 and len(n.keywords) == 1 and n.keywords[0].arg == "weights":
                a, b = self.col(n.args[0]), self.col(n.keywords[0].value)
                if a and b:
                    return f"(R.wavg {_lstr(a)} {_lstr(b)})", "num"
            if ftxt.split(".")[-1] == "weighted_median" and not n.keywords and len(n.args) == 2:
                a, b = self.col(n.args[0]), self.col(n.args[1])
                if a and b:
                    return f"(R.wmed {_lstr(a)} {_lstr(b)})", "num"
            if isinstance(f, ast.Attribute) and f.attr == "join" and isinstance(f.value, ast.Constant) \
                    and isinstance(f.value.value, str) and len(n.args) == 1 and not n.keywords:
                a = n.args[0]
                uniq = False
                if isinstance(a, ast.Call) and isinstance(a.func, ast.Attribute) and a.func.attr in ("drop_duplicates", "unique") \
                        and not a.args and not a.keywords:
                    a, uniq = a.func.value, True
                elif isinstance(a, ast.Call) and ast.unparse(a.func) == "pd.unique" and len(a.args) == 1:
                    a, uniq = a.args[0], True
                c = self.col(a)
                if c is not None:
                    return f"(R.{'joinUniq' if uniq else 'joinAll'} {_lstr(f.value.value)} {_lstr(c)})", "str"
            raise Untranslatable("call " + ast.unparse(n))
        if isinstance(n, ast.BinOp) and type(n.op) in (ast.Add, ast.Sub, ast.Mult, ast.Div):
            a, ta = self.expr(n.left, st)
            b, tb = self.expr(n.right, st)
            if ta != "num" or tb != "num":
                raise Untranslatable("arithmetic on text")
            op = {ast.Add: "+", ast.Sub: "-", ast.Mult: "*", ast.Div: "/"}[type(n.op)]
            return f"({a} {op} {b})", "num"
        if isinstance(n, ast.IfExp):
            c = self.cond(n.test, st)
            a, ta = self.expr(n.body, st)
            b, tb = self.expr(n.orelse, st)
            if ta != tb:
                raise Untranslatable("branches of different type")
            return (a if a == b else f"(if {c} then {a} else {b})"), ta
        raise Untranslatable("expression " + ast.unparse(n))

    def cond(self, n, st):
        if isinstance(n, ast.Compare) and len(n.ops) == 1:
            op, l, r = n.ops[0], n.left, n.comparators[0]
            if isinstance(op, (ast.In, ast.NotIn)) and isinstance(l, ast.Constant) and isinstance(l.value, str) \
                    and isinstance(r, ast.Name) and r.id == self.tbl:
                t = f"R.has {_lstr(l.value)}"
                return f"({t})" if isinstance(op, ast.In) else f"(!{t})"
            sym = {ast.Gt: ">", ast.GtE: "≥", ast.Lt: "<", ast.LtE: "≤", ast.Eq: "=", ast.NotEq: "≠"}.get(type(op))
            if sym:
                a, ta = self.expr(l, st)
                b, tb = self.expr(r, st)
                if ta == tb == "num":
                    return f"(decide ({a} {sym} {b}))"
        if isinstance(n, ast.UnaryOp) and isinstance(n.op, ast.Not):
            return f"(!{self.cond(n.operand, st)})"
        if isinstance(n, ast.BoolOp):
            op = " && " if isinstance(n.op, ast.And) else " || "
            return "(" + op.join(self.cond(v, st) for v in n.values) + ")"
        raise Untranslatable("condition " + ast.unparse(n))

    # -- statements.  state = (locals: name -> (lean, type), out: key -> (presence, lean, type)); dicts keep order
    def block(self, stmts, st):
        for s in stmts:
            st = self.stmt(s, st)
        return st

    def stmt(self, s, st):
        loc, out = st
        if isinstance(s, ast.Expr) and isinstance(s.value, ast.Constant):
            return st
        if isinstance(s, ast.Assert):
            return st
        if isinstance(s, ast.Assign) and len(s.targets) == 1:
            t = s.targets[0]
            if isinstance(t, ast.Name) and isinstance(s.value, ast.Dict):
                if self.dict_name is not None:
                    raise Untranslatable("second dict")
                self.dict_name = t.id
                out = dict(out)
                for k, v in zip(s.value.keys, s.value.values):
                    if not (isinstance(k, ast.Constant) and isinstance(k.value, str)):
                        raise Untranslatable("dict key")
                    e, ty = self.expr(v, (loc, out))
                    out[k.value] = ("true", e, ty)
                return loc, out
            if isinstance(t, ast.Name):
                loc = dict(loc)
                loc[t.id] = self.expr(s.value, st)
                return loc, out
            if isinstance(t, ast.Subscript) and isinstance(t.value, ast.Name) and t.value.id == self.dict_name \
                    and isinstance(t.slice, ast.Constant) and isinstance(t.slice.value, str):
                e, ty = self.expr(s.value, st)
                out = dict(out)
                out[t.slice.value] = ("true", e, ty)
                return loc, out
        if isinstance(s, ast.If):
            c = self.cond(s.test, st)
            la, oa = self.block(s.body, st)
            lb, ob = self.block(s.orelse, st)
            loc2 = {}
            for k in la:
                if k in lb:
                    if la[k] == lb[k]:
                        loc2[k] = la[k]
                    elif la[k][1] == lb[k][1]:
                        loc2[k] = (f"(if {c} then {la[k][0]} else {lb[k][0]})", la[k][1])
            out2 = {}
            for k in list(oa) + [k for k in ob if k not in oa]:
                if k in oa and k in ob:
                    (pa, va, ta), (pb, vb, tb) = oa[k], ob[k]
                    if ta != tb:
                        raise Untranslatable("cell of two types")
                    out2[k] = (pa if pa == pb else f"(if {c} then {pa} else {pb})",
                               va if va == vb else f"(if {c} then {va} else {vb})", ta)
                elif k in oa:
                    pa, va, ta = oa[k]
                    out2[k] = (c if pa == "true" else f"({c} && {pa})", va, ta)
                else:
                    pb, vb, tb = ob[k]
                    out2[k] = (f"(!{c})" if pb == "true" else f"(!{c} && {pb})", vb, tb)
            # keys keep their first-insertion order: those known before the `if` first
            order = [k for k in out if k in out2] + [k for k in out2 if k not in out]
            return loc2, {k: out2[k] for k in order}
        raise Untranslatable("statement " + ast.unparse(s)[:80])

    def read(self):
        body = list(self.fn.body)
        if not body or not isinstance(body[-1], ast.Return):
            raise Untranslatable("no final return")
        ret = body[-1].value
        st = self.block(body[:-1], ({}, {}))
        if not (isinstance(ret, ast.Call) and ast.unparse(ret.func) in ("pd.DataFrame", "DataFrame") and len(ret.args) == 1
                and not ret.keywords and isinstance(ret.args[0], ast.Name) and ret.args[0].id == self.dict_name):
            raise Untranslatable("return is not pd.DataFrame(<dict>)")
        return st[1]


def emit_squash(o, lean_name, fn, comment):
    out = SquashReader(copy.deepcopy(fn)).read()
    rows = [f"({_lstr(k)}, {p}, {'.num' if ty == 'num' else '.str'} {v})" for k, (p, v, ty) in out.items()]
    o.lines.append(f"/-- {comment} -/\ndef {lean_name} (R : C14Sq.Reds) : List C14Sq.Col :=\n  [" + ",\n   ".join(rows) + "]")
    o.info[lean_name] = {"columns": list(out)}
