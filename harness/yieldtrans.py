"""Yield structure of a small Python GENERATOR function -> Lean definitions over named atoms (third decision reader, next to
dectrans.py; used for `_parse_pedigrees` of skgenome/tabio/vcfio.py, which dectrans cannot read: it follows ONE returned
value, a generator has none).

What is translated is the SHAPE: which key of the chain is asked first, which arm each key selects, what one pass of an arm's
loop yields under which condition -- not the meaning of the conditions and yielded expressions: those are ATOMS and LEAVES,
recognised by their source text (`ast.unparse`) through the vocabulary the extractor states, and given their meaning by the
Lean theorems that use the generated definitions.

Reading of the source (part of the trusted base)
* the function body is read in order; a top-level statement that contains no `yield` (building `meta`, logging) does not
  contribute; exactly ONE top-level statement may contain `yield`, and it must be an `if / elif / .. [else]` CHAIN whose
  tests are chain atoms (combined by `and` / `or` / `not`); a `yield` anywhere else (before or after the chain, in a `try`,
  `while`, `with`, nested function) is `Untranslatable`;
* an `orelse` consisting of one `if` whose test is made of chain atoms continues the chain (`elif`); any other arm body is an
  ARM: either the only statement with a `yield` in it is `for <target> in <iter>:` (key = that header's text), or the arm has
  no loop (key = ""); the key must be in the arm vocabulary, which names the arm's constructor and the Lean name of the
  definition generated for ONE PASS of its body; an absent / empty `else` is the arm `nothing`;
* one pass of an arm body is a decision tree: `if c: .. else: ..` over the arm's atoms, each path ending in at most ONE
  `yield e` (leaf = text of `e`) or in no yield (`nothing`); a second `yield` on a path, or a loop inside, is `Untranslatable`;
* a local bound by a plain assignment `x = e` EARLIER ON THE SAME PATH is replaced by `e` in every later condition / yielded
  expression of that path (`sample_id = tag["Derived"]; yield sample_id, ..` reads `(tag['Derived'], ..)`), so renaming such
  a local, or inlining it, changes nothing; statements without `yield` (logging) do not contribute;
* a text that is not in the vocabulary is `Untranslatable` (every generated definition of the function is replaced by a
  comment, the theorems about them stop checking) -- never silently skipped.
"""
from __future__ import annotations

import ast
import copy

from .exprtrans import Untranslatable
from .dectrans import _Subst


def _has_yield(node):
    return any(isinstance(n, (ast.Yield, ast.YieldFrom)) for n in ast.walk(node))


def _text(e, env):
    e = copy.deepcopy(e)
    for _ in range(4):
        e = _Subst(env).visit(e)
    return ast.unparse(ast.fix_missing_locations(e))


def _cond(e, env, atoms, used):
    if isinstance(e, ast.BoolOp):
        op = " && " if isinstance(e.op, ast.And) else " || "
        return "(" + op.join(_cond(v, env, atoms, used) for v in e.values) + ")"
    if isinstance(e, ast.UnaryOp) and isinstance(e.op, ast.Not):
        return f"(!{_cond(e.operand, env, atoms, used)})"
    t = _text(e, env)
    if t not in atoms:
        raise Untranslatable(f"condition `{t}` is not in the vocabulary")
    if atoms[t] not in used:
        used.append(atoms[t])
    return atoms[t]


def _only_atoms(e, atoms):
    if isinstance(e, ast.BoolOp):
        return all(_only_atoms(v, atoms) for v in e.values)
    if isinstance(e, ast.UnaryOp) and isinstance(e.op, ast.Not):
        return _only_atoms(e.operand, atoms)
    return ast.unparse(e) in atoms


def pass_tree(stmts, env, atoms, leaves, nothing, used):
    """decision tree of one pass over `stmts` (no loops): a leaf per path"""
    if not stmts:
        return nothing
    s, rest = stmts[0], list(stmts[1:])
    if not _has_yield(s):
        if isinstance(s, ast.Assign) and len(s.targets) == 1 and isinstance(s.targets[0], ast.Name):
            env = dict(env)
            env[s.targets[0].id] = ast.parse(_text(s.value, env), mode="eval").body
        return pass_tree(rest, env, atoms, leaves, nothing, used)
    if isinstance(s, ast.Expr) and isinstance(s.value, ast.Yield):
        if any(_has_yield(r) for r in rest):
            raise Untranslatable("a second yield on one path")
        v = s.value.value
        t = _text(v, env) if v is not None else "None"
        if t not in leaves:
            raise Untranslatable(f"yielded value `{t}` is not in the vocabulary")
        return leaves[t]
    if isinstance(s, ast.If):
        c = _cond(s.test, env, atoms, used)
        return (f"(if {c} then {pass_tree(list(s.body) + rest, env, atoms, leaves, nothing, used)} "
                f"else {pass_tree(list(s.orelse) + rest, env, atoms, leaves, nothing, used)})")
    raise Untranslatable(type(s).__name__ + " around a yield")


class YieldFn:
    """chain_atoms: text -> Bool name;  arms: key -> dict(ctor=, lean=, atoms=[(text, name)..])  (key "" = arm without loop);
    leaves: text -> constructor of the yield type; nothing_arm / nothing_leaf: constructors for "no arm" / "no yield" """

    def __init__(self, fn, chain_atoms, arms, leaves, nothing_arm, nothing_leaf):
        self.fn, self.chain_atoms, self.arms, self.leaves = fn, dict(chain_atoms), arms, dict(leaves)
        self.nothing_arm, self.nothing_leaf = nothing_arm, nothing_leaf
        self.used = []
        self.passes = {}   # lean name -> (atom names, term)

    def arm(self, stmts):
        stmts = list(stmts)
        if not any(_has_yield(s) for s in stmts):
            return self.nothing_arm
        if len(stmts) == 1 and isinstance(stmts[0], ast.If) and _only_atoms(stmts[0].test, self.chain_atoms):
            return self.chain(stmts[0])
        ys = [s for s in stmts if _has_yield(s)]
        if len(ys) == 1 and isinstance(ys[0], ast.For) and not ys[0].orelse:
            f = ys[0]
            key = f"for {ast.unparse(f.target)} in {ast.unparse(f.iter)}"
            body = list(f.body)
        else:
            key, body = "", stmts
        if key not in self.arms:
            raise Untranslatable(f"arm `{key or '<no loop>'}` is not in the vocabulary")
        a = self.arms[key]
        used = []
        term = pass_tree(body, {}, dict(a["atoms"]), self.leaves, self.nothing_leaf, used)
        names = []
        for _t, n in a["atoms"]:
            if n not in names:
                names.append(n)
        if a["lean"] in self.passes:
            raise Untranslatable(f"arm `{key}` occurs twice")
        self.passes[a["lean"]] = (names, term)
        return a["ctor"]

    def chain(self, s):
        c = _cond(s.test, {}, self.chain_atoms, self.used)
        return f"(if {c} then {self.arm(s.body)} else {self.arm(s.orelse)})"

    def read(self):
        ys = [s for s in self.fn.body if _has_yield(s)]
        if len(ys) != 1 or not isinstance(ys[0], ast.If):
            raise Untranslatable("the yields are not inside exactly one top-level if / elif chain")
        return self.chain(ys[0])


def emit_yield_fn(o, tree, fname, lean, chain_atoms, arms, leaves, arm_type, yield_type, nothing_arm, nothing_leaf,
                  comment=None, where=""):
    """append `def lean (chain atoms : Bool) : arm_type` and one `def <arm.lean> (arm atoms : Bool) : yield_type` per arm"""
    from .translate import find_func
    try:
        y = YieldFn(find_func(tree, fname), chain_atoms, arms, leaves, nothing_arm, nothing_leaf)
        body = y.read()
        missing = [a["lean"] for a in arms.values() if a["lean"] not in y.passes]
        if missing:
            raise Untranslatable("arm(s) of the vocabulary not found in the source: " + ", ".join(missing))
    except (Untranslatable, KeyError, RecursionError, SyntaxError) as e:
        for nm in [lean] + [a["lean"] for a in arms.values()]:
            o.lines.append(f"-- NOT TRANSLATED: {where}:{fname} -> {nm}: {type(e).__name__}: {str(e)[:200]}".replace("\n", " "))
            o.info[nm] = {"error": str(e)[:200]}
        return
    names = []
    for _t, a in chain_atoms:
        if a not in names:
            names.append(a)
    if comment:
        o.lines.append(f"/-- {comment} -/")
    o.lines.append(f"def {lean} ({' '.join(names)} : Bool) : {arm_type} :=\n  {body}")
    o.info[lean] = {"atoms": names, "unused": [a for a in names if a not in y.used]}
    for a in arms.values():
        ns, term = y.passes[a["lean"]]
        o.lines.append(f"/-- {where}:{fname}, one pass of the arm `{a['ctor']}` -/")
        o.lines.append(f"def {a['lean']} ({' '.join(ns)} : Bool) : {yield_type} :=\n  {term}" if ns
                       else f"def {a['lean']} : {yield_type} :=\n  {term}")
        o.info[a["lean"]] = {"atoms": ns}
