"""How ONE local variable of a small Python function is built up, statement by statement, and what the function does with it ->
Lean definition over named atoms (fourth decision reader, next to dectrans.py / yieldtrans.py; used for the `pairs` list of
`_choose_samples` in skgenome/tabio/vcfio.py, which is assigned under an `if / elif / else`, filtered, replaced, checked and
finally indexed -- dectrans follows a value that is only ever REPLACED, not one that later statements transform and test).

What is translated is the SHAPE: the order of the statements that touch the followed variable, which branch assigns what,
where the function raises, what it finally returns.  The conditions, the assigned expressions (comprehensions), the checks
and the returned expression are ATOMS recognised by their source text (`ast.unparse`) through the vocabulary the extractor
states; the generated definition takes their meanings as PARAMETERS (a type `P` for the variable, `R` for the function's
outcome), and the Lean theorem instantiates them on the model's data.

Reading of the source (part of the trusted base)
* reading starts at the FIRST top-level assignment of the followed variable `v`; the statements before it are not read, except
  that a top-level plain assignment `x = e` among them is remembered (see substitution);
* substitution: a local bound by a plain assignment `x = e` earlier on the same path (x != v) is replaced by `e` in every later
  condition / value, `(a, b) = e` binds `a` to `e[0]`, `b` to `e[1]`; so renaming or inlining such a local changes nothing;
* `v = e`: if the text of `e` is a VALUE of the vocabulary, `v` becomes that parameter; if it is a TRANSFORMER (a text that
  mentions `v`), `v` becomes `name v`; anything else is `Untranslatable`;
* `if c: .. [elif ..] [else: ..]` whose arms only assign `v` (and log) is `let v := if c then .. else ..` (an arm without an
  assignment keeps `v`); an `if` with a `raise` / `return` inside continues with the REST of the function in both arms;
  a condition is a combination by `and` / `or` / `not` of PURE atoms (Bool parameters) and STATE atoms (text mentioning `v`,
  read as `name v`);
* `raise E(..)` is the parameter the vocabulary gives for the exception type `E`;
* a statement that mentions `v` without assigning it, raising or returning must be an EFFECT of the vocabulary (whole
  statement text, e.g. the `_confirm_unique` loop): `name v (rest)` -- it may raise or go on with the rest;
* `return e`: the text of `e` (after substitution) must be a RETURN of the vocabulary: `name v`;
* an `if` / expression statement that consists of `logging.*` calls only does not contribute; any other statement that does
  not mention `v` and contains no `raise` / `return` does not contribute (it can only bind locals: see substitution); a `raise`
  / `return` / assignment of `v` in any other position (loop, try, with) is `Untranslatable` -- never silently skipped.
"""
from __future__ import annotations

import ast
import copy

from .exprtrans import Untranslatable
from .dectrans import _Subst


def _mentions(node, var):
    return any(isinstance(n, ast.Name) and n.id == var for n in ast.walk(node))


def _assigns(node, var):
    return any(isinstance(n, ast.Name) and n.id == var and isinstance(n.ctx, ast.Store) for n in ast.walk(node))


def _exits(node):
    return any(isinstance(n, (ast.Raise, ast.Return)) for n in ast.walk(node))


def _only_logging(stmts):
    for s in stmts:
        if isinstance(s, ast.Expr) and isinstance(s.value, ast.Call) and ast.unparse(s.value.func).startswith("logging."):
            continue
        if isinstance(s, ast.If) and _only_logging(s.body) and _only_logging(s.orelse):
            continue
        if isinstance(s, ast.Pass):
            continue
        return False
    return True


class Pipe:
    def __init__(self, fn, var, atoms, state_atoms, values, transformers, effects, raises, returns):
        self.fn, self.var = fn, var
        self.atoms, self.state_atoms = dict(atoms), dict(state_atoms)
        self.values, self.transformers = dict(values), dict(transformers)
        self.effects, self.raises, self.returns = dict(effects), dict(raises), dict(returns)
        self.used = set()

    def text(self, e, env):
        e = copy.deepcopy(e)
        for _ in range(4):
            e = _Subst(env).visit(e)
        return ast.unparse(ast.fix_missing_locations(e))

    def use(self, n):
        self.used.add(n)
        return n

    def cond(self, e, env):
        if isinstance(e, ast.BoolOp):
            op = " && " if isinstance(e.op, ast.And) else " || "
            return "(" + op.join(self.cond(v, env) for v in e.values) + ")"
        if isinstance(e, ast.UnaryOp) and isinstance(e.op, ast.Not):
            return f"(!{self.cond(e.operand, env)})"
        t = self.text(e, env)
        if t in self.atoms:
            return self.use(self.atoms[t])
        if t in self.state_atoms:
            return f"({self.use(self.state_atoms[t])} {self.var})"
        raise Untranslatable(f"condition `{t}` is not in the vocabulary")

    def value(self, e, env):
        t = self.text(e, env)
        if t in self.values:
            return self.use(self.values[t])
        if t in self.transformers:
            return f"({self.use(self.transformers[t])} {self.var})"
        raise Untranslatable(f"value `{t}` assigned to `{self.var}` is not in the vocabulary")

    def bind(self, s, env):
        """remember the locals a non-contributing statement binds at its own level"""
        env = dict(env)
        if isinstance(s, ast.Assign) and len(s.targets) == 1:
            tg = s.targets[0]
            val = ast.parse(self.text(s.value, env), mode="eval").body
            if isinstance(tg, ast.Name):
                env[tg.id] = val
            elif isinstance(tg, ast.Tuple) and all(isinstance(x, ast.Name) for x in tg.elts):
                for i, x in enumerate(tg.elts):
                    env[x.id] = ast.Subscript(value=copy.deepcopy(val), slice=ast.Constant(value=i), ctx=ast.Load())
        return env

    def arm_value(self, stmts, env):
        """an arm that only assigns v (and logs / binds locals): the value v has after it"""
        cur = self.var
        for s in stmts:
            if isinstance(s, ast.Assign) and len(s.targets) == 1 and isinstance(s.targets[0], ast.Name) \
                    and s.targets[0].id == self.var:
                if cur != self.var:
                    raise Untranslatable(f"`{self.var}` assigned twice in one arm")
                cur = self.value(s.value, env)
            elif isinstance(s, ast.If) and _assigns(s, self.var):
                if cur != self.var:
                    raise Untranslatable(f"`{self.var}` assigned twice in one arm")
                cur = self.if_value(s, env)
            elif _assigns(s, self.var) or _exits(s):
                raise Untranslatable(type(s).__name__ + f" around an assignment of `{self.var}`")
            elif _mentions(s, self.var) and not _only_logging([s]):
                raise Untranslatable(f"`{self.var}` used inside an assigning arm")
            else:
                env = self.bind(s, env)
        return cur

    def if_value(self, s, env):
        return f"(if {self.cond(s.test, env)} then {self.arm_value(s.body, env)} else {self.arm_value(s.orelse, env)})"

    def walk(self, stmts, env, ind):
        pad = "  " * ind
        if not stmts:
            raise Untranslatable("the function falls off its end without returning")
        s, rest = stmts[0], list(stmts[1:])
        if isinstance(s, ast.Return):
            t = self.text(s.value, env) if s.value is not None else "None"
            if t not in self.returns:
                raise Untranslatable(f"returned value `{t}` is not in the vocabulary")
            return f"{pad}{self.use(self.returns[t])} {self.var}"
        if isinstance(s, ast.Raise):
            exc = s.exc.func if isinstance(s.exc, ast.Call) else s.exc
            t = ast.unparse(exc) if exc is not None else ""
            if t not in self.raises:
                raise Untranslatable(f"raise `{t}` is not in the vocabulary")
            return f"{pad}{self.use(self.raises[t])}"
        if isinstance(s, ast.Assign) and len(s.targets) == 1 and isinstance(s.targets[0], ast.Name) and s.targets[0].id == self.var:
            return f"{pad}let {self.var} := {self.value(s.value, env)}\n" + self.walk(rest, env, ind)
        if isinstance(s, ast.If) and _exits(s):
            c = self.cond(s.test, env)
            return (f"{pad}if {c} then\n" + self.walk(list(s.body) + rest, env, ind + 1) + f"\n{pad}else\n"
                    + self.walk(list(s.orelse) + rest, env, ind + 1))
        if isinstance(s, ast.If) and _assigns(s, self.var):
            return f"{pad}let {self.var} := {self.if_value(s, env)}\n" + self.walk(rest, env, ind)
        if _assigns(s, self.var) or _exits(s):
            raise Untranslatable(type(s).__name__ + f" around an assignment of `{self.var}` / a raise / a return")
        if _only_logging([s]):
            return self.walk(rest, env, ind)
        if isinstance(s, ast.Assign):   # binds other locals (possibly from `v`): read through by substitution
            return self.walk(rest, self.bind(s, env), ind)
        if _mentions(s, self.var):
            t = self.text(s, env)
            if t not in self.effects:
                raise Untranslatable(f"statement `{t}` uses `{self.var}` and is not in the vocabulary")
            return f"{pad}{self.use(self.effects[t])} {self.var} (\n" + self.walk(rest, env, ind + 1) + ")"
        return self.walk(rest, self.bind(s, env), ind)

    def read(self):
        env = {}
        body = list(self.fn.body)
        for i, s in enumerate(body):
            if isinstance(s, ast.Assign) and len(s.targets) == 1 and isinstance(s.targets[0], ast.Name):
                if s.targets[0].id == self.var:
                    return self.walk(body[i:], env, 1)
                env = self.bind(s, env)
            elif _assigns(s, self.var):
                raise Untranslatable(f"`{self.var}` is first assigned inside a compound statement")
        raise Untranslatable(f"`{self.var}` is never assigned at the top level")


def emit_pipe(o, tree, fname, lean, var, params, comment=None, where="", **vocab):
    """append `def lean {P R : Type} <params> : R := <how `var` is built and used>`; `params` = ordered (Lean name, Lean type)"""
    from .translate import find_func
    try:
        p = Pipe(find_func(tree, fname), var, **vocab)
        body = p.read()
        unused = [n for n, _t in params if n not in p.used]
    except (Untranslatable, KeyError, RecursionError, SyntaxError) as e:
        o.lines.append(f"-- NOT TRANSLATED: {where}:{fname} -> {lean}: {type(e).__name__}: {str(e)[:300]}".replace("\n", " "))
        o.info[lean] = {"error": str(e)[:300]}
        return
    o.lines.append("set_option linter.unusedVariables false in   -- an initial `v = None` that every branch replaces")
    if comment:
        o.lines.append(f"/-- {comment} -/")
    sig = " ".join(f"({n} : {t})" for n, t in params)
    o.lines.append(f"def {lean} {{P R : Type}} {sig} : R :=\n{body}")
    o.info[lean] = {"params": [n for n, _t in params], "unused": unused}
