"""Generator loop over SETS OF NAMES -> Lean step function (C12: `cnvlib/target.py:shorten_labels`, `shortest_name`).

Companion of harness/looptrans.py (same output shape: `<name>_step`, `<name>_final`, `<name>_init`, to be run by
`Py.genLoop`) for the one kind of loop looptrans does not read: loop-carried variables that are Python `set`s of
strings and an inner `for _ in range(n): yield f(x)`.  The accepted subset is deliberately narrow; anything outside
it raises `Untranslatable`, the extractor then leaves a comment instead of a definition and exactly the theorems of
Props/C12SrcShorten.lean stop checking.

Reading of the source (trusted, like the rules at the top of exprtrans.py / looptrans.py)
* a `set` of names is a duplicate-free `List String` in order of first appearance; `set()` is `[]`, `set(xs)` is
  `C12N.pySet xs`, `a.intersection(b)` / `a & b` is `C12N.pyInter a b`, `if s:` / `if not s:` / `if len(s) > 0` test
  `s.isEmpty`; `s.rstrip()`, `s.split("c")`, `len(s)`, `"c" in s[1:-1]`, `s.split("c")[-1]` are the one-line
  primitives of lean/CnvVerif/Model/BinsExt5Prims.lean;
* `min(S, key=len)` over a set is read as the list of ALL shortest elements (`C12N.pyMinsByLen`): Python's choice
  among them follows the set's iteration order, which is not defined.  The statements after it are read as a
  function of the chosen name and mapped over the candidates;
* functions of the same module that the extractor names (`filter_names`, `shortest_name`) stay free PARAMETERS of the
  generated definition (they are tied by their own obligations);
* `for _i in range(n): <lets>; yield e` with `_i` unused in the body yields `List.replicate n e`;
* assignments are `let`s (a re-assignment shadows), `x += k` is `x = x + k`; an `if` continues with the REST of the
  block in both branches; docstrings, `logging.*` calls and `assert`s are dropped (assertions are preconditions of
  the model); variables the extractor declares DIAGNOSTIC are dropped after checking that they are read only by
  their own updates and by logging calls.
"""
from __future__ import annotations

import ast

from .exprtrans import Untranslatable

COLL, NAT, STR = "List String", "Nat", "String"


def _char(e):
    if isinstance(e, ast.Constant) and isinstance(e.value, str) and len(e.value) == 1 and 32 < ord(e.value) < 127 \
            and e.value not in "'\\":
        return f"'{e.value}'"
    raise Untranslatable("not a one-character literal: " + ast.unparse(e))


def _is_logging(s):
    return (isinstance(s, ast.Expr) and isinstance(s.value, ast.Call) and isinstance(s.value.func, ast.Attribute)
            and isinstance(s.value.func.value, ast.Name) and s.value.func.value.id == "logging")


def _is_doc(s):
    return isinstance(s, ast.Expr) and isinstance(s.value, ast.Constant) and isinstance(s.value.value, str)


class Reader:
    def __init__(self, funcs, diag=()):
        self.funcs = dict(funcs)          # python name -> (arg types, result type or None = type parameter β)
        self.diag = set(diag)

    # ---- diagnostics -------------------------------------------------------------------------------------------
    def check_diag(self, fn):
        """every read of a diagnostic variable sits in an assignment to it or in a logging call"""
        def reads(node):
            return [n for n in ast.walk(node) if isinstance(n, ast.Name) and n.id in self.diag
                    and isinstance(n.ctx, ast.Load)]
        allowed = set()
        for s in ast.walk(fn):
            if isinstance(s, (ast.Assign, ast.AugAssign)):
                tg = s.targets if isinstance(s, ast.Assign) else [s.target]
                if all(isinstance(t, ast.Name) and t.id in self.diag for t in tg):
                    allowed.update(id(n) for n in reads(s))
            if _is_logging(s):
                allowed.update(id(n) for n in reads(s))
        for n in reads(fn):
            if id(n) not in allowed:
                raise Untranslatable(f"diagnostic variable {n.id} is read by the computation")

    def noise(self, s):
        if _is_doc(s) or _is_logging(s) or isinstance(s, ast.Assert):
            return True
        if isinstance(s, ast.Assign) and all(isinstance(t, ast.Name) and t.id in self.diag for t in s.targets):
            return True
        if isinstance(s, ast.AugAssign) and isinstance(s.target, ast.Name) and s.target.id in self.diag:
            return True
        return False

    # ---- expressions -------------------------------------------------------------------------------------------
    def expr(self, e, env):
        """-> (lean term, type)"""
        if isinstance(e, ast.Name):
            if e.id not in env:
                raise Untranslatable("unknown name " + e.id)
            return e.id, env[e.id]
        if isinstance(e, ast.Constant) and isinstance(e.value, int) and not isinstance(e.value, bool) and e.value >= 0:
            return str(e.value), NAT
        if isinstance(e, ast.BinOp) and isinstance(e.op, ast.Add):
            a, ta = self.expr(e.left, env)
            b, tb = self.expr(e.right, env)
            if ta == tb == NAT:
                return f"({a} + {b})", NAT
        if isinstance(e, ast.BinOp) and isinstance(e.op, ast.BitAnd):
            a, ta = self.expr(e.left, env)
            b, tb = self.expr(e.right, env)
            if ta == tb == COLL:
                return f"(C12N.pyInter {a} {b})", COLL
        if isinstance(e, ast.Subscript):
            # s.split("c")[-1]
            i = e.slice
            if (isinstance(i, ast.UnaryOp) and isinstance(i.op, ast.USub) and isinstance(i.operand, ast.Constant)
                    and i.operand.value == 1 and self._is_split(e.value)):
                s, ts = self.expr(e.value.func.value, env)
                if ts == STR:
                    return f"(C12N.pySplitLast {_char(e.value.args[0])} {s})", STR
        if isinstance(e, ast.Call):
            f = e.func
            if isinstance(f, ast.Name) and f.id == "set" and not e.keywords:
                if not e.args:
                    return "([] : List String)", COLL
                if len(e.args) == 1:
                    a, ta = self.expr(e.args[0], env)
                    if ta == COLL:
                        return f"(C12N.pySet {a})", COLL
            if isinstance(f, ast.Name) and f.id == "len" and len(e.args) == 1 and not e.keywords:
                a, ta = self.expr(e.args[0], env)
                if ta == STR:
                    return f"(C12N.pyLen {a})", NAT
                if ta == COLL:
                    return f"{a}.length", NAT
            if isinstance(f, ast.Name) and f.id in self.funcs and not e.keywords:
                argt, rt = self.funcs[f.id]
                args = [self.expr(a, env) for a in e.args]
                if [t for _, t in args] != list(argt):
                    raise Untranslatable("argument types of " + ast.unparse(e))
                return "(" + " ".join([f.id] + [a for a, _ in args]) + ")", (rt or "β")
            if isinstance(f, ast.Attribute) and not e.keywords:
                if f.attr == "rstrip" and not e.args:
                    s, ts = self.expr(f.value, env)
                    if ts == STR:
                        return f"(C12N.pyRstrip {s})", STR
                if self._is_split(e):
                    s, ts = self.expr(f.value, env)
                    if ts == STR:
                        return f"(C12N.pySplit {_char(e.args[0])} {s})", COLL
                if f.attr == "intersection" and len(e.args) == 1:
                    a, ta = self.expr(f.value, env)
                    b, tb = self.expr(e.args[0], env)
                    if ta == tb == COLL:
                        return f"(C12N.pyInter {a} {b})", COLL
        raise Untranslatable("expression " + ast.unparse(e))

    @staticmethod
    def _is_split(e):
        return (isinstance(e, ast.Call) and isinstance(e.func, ast.Attribute) and e.func.attr == "split"
                and len(e.args) == 1 and not e.keywords)

    def cond(self, e, env):
        """-> lean Bool term"""
        if isinstance(e, ast.UnaryOp) and isinstance(e.op, ast.Not):
            return f"(!{self.cond(e.operand, env)})"
        if isinstance(e, ast.BoolOp):
            op = " && " if isinstance(e.op, ast.And) else " || "
            return "(" + op.join(self.cond(v, env) for v in e.values) + ")"
        if isinstance(e, ast.Compare) and len(e.ops) == 1:
            op, l, r = e.ops[0], e.left, e.comparators[0]
            if isinstance(op, ast.In):
                # "c" in s[1:-1]
                if (isinstance(r, ast.Subscript) and isinstance(r.slice, ast.Slice) and r.slice.step is None
                        and isinstance(r.slice.lower, ast.Constant) and r.slice.lower.value == 1
                        and isinstance(r.slice.upper, ast.UnaryOp) and isinstance(r.slice.upper.op, ast.USub)
                        and isinstance(r.slice.upper.operand, ast.Constant) and r.slice.upper.operand.value == 1):
                    s, ts = self.expr(r.value, env)
                    if ts == STR:
                        return f"(C12N.pyInnerContains {_char(l)} {s})"
                raise Untranslatable("membership " + ast.unparse(e))
            sym = {ast.Gt: ">", ast.GtE: "≥", ast.Lt: "<", ast.LtE: "≤", ast.Eq: "=", ast.NotEq: "≠"}.get(type(op))
            if sym:
                a, ta = self.expr(l, env)
                b, tb = self.expr(r, env)
                if ta == tb == NAT:
                    return f"(decide ({a} {sym} {b}))"
            raise Untranslatable("comparison " + ast.unparse(e))
        t, ty = self.expr(e, env)
        if ty == COLL:
            return f"(!{t}.isEmpty)"
        if ty == NAT:
            return f"(decide ({t} ≠ 0))"
        raise Untranslatable("truth value of " + ty)

    # ---- statements of the generator ----------------------------------------------------------------------------
    def inner_yield(self, s, env):
        """`for _i in range(n): <lets>; yield e` -> List.replicate n e"""
        it = s.iter
        if not (isinstance(s.target, ast.Name) and isinstance(it, ast.Call) and isinstance(it.func, ast.Name)
                and it.func.id == "range" and len(it.args) == 1 and not s.orelse):
            raise Untranslatable("inner loop is not `for _ in range(n)`")
        n, tn = self.expr(it.args[0], env)
        if tn != NAT:
            raise Untranslatable("range of " + tn)
        body = [b for b in s.body if not self.noise(b)]
        if any(isinstance(x, ast.Name) and x.id == s.target.id for b in body for x in ast.walk(b)):
            raise Untranslatable("inner loop uses its counter")
        env = dict(env)
        lets = ""
        for b in body[:-1]:
            if not (isinstance(b, ast.Assign) and len(b.targets) == 1 and isinstance(b.targets[0], ast.Name)):
                raise Untranslatable("inner loop statement " + ast.unparse(b)[:60])
            t, ty = self.expr(b.value, env)
            env[b.targets[0].id] = ty
            lets += f"let {b.targets[0].id} := {t}; "
        last = body[-1] if body else None
        if not (isinstance(last, ast.Expr) and isinstance(last.value, ast.Yield) and last.value.value is not None):
            raise Untranslatable("inner loop does not end in a yield")
        t, ty = self.expr(last.value.value, env)
        return f"(List.replicate {n} ({lets}{t}))", ty

    def block(self, stmts, env, outs, state, ytype):
        """continuation style: -> lean term of type List ytype × state (or List ytype when state is None)"""
        stmts = [s for s in stmts if not self.noise(s)]
        if not stmts:
            o = " ++ ".join(outs) if outs else f"([] : List {ytype})"
            if state is None:
                return o
            for n, ty in state:
                if env.get(n) != ty:
                    raise Untranslatable(f"state variable {n} has type {env.get(n)}, declared {ty}")
            return f"({o}, ({', '.join(n for n, _ in state)}))"
        s, rest = stmts[0], stmts[1:]
        if isinstance(s, ast.Assign) and len(s.targets) == 1 and isinstance(s.targets[0], ast.Name):
            t, ty = self.expr(s.value, env)
            env = dict(env)
            env[s.targets[0].id] = ty
            return f"let {s.targets[0].id} : {ty} := {t}\n" + self.block(rest, env, outs, state, ytype)
        if isinstance(s, ast.AugAssign) and isinstance(s.target, ast.Name) and isinstance(s.op, ast.Add):
            a, ta = self.expr(s.target, env)
            b, tb = self.expr(s.value, env)
            if ta == tb == NAT:
                return f"let {s.target.id} : Nat := ({a} + {b})\n" + self.block(rest, env, outs, state, ytype)
        if isinstance(s, ast.If):
            c = self.cond(s.test, env)
            a = self.block(list(s.body) + rest, env, list(outs), state, ytype)
            b = self.block(list(s.orelse) + rest, env, list(outs), state, ytype)
            return f"if {c} = true then\n{_ind(a)}\nelse\n{_ind(b)}"
        if isinstance(s, ast.For):
            t, ty = self.inner_yield(s, env)
            if ty != ytype:
                raise Untranslatable(f"yields {ty}, declared {ytype}")
            # bound HERE: the yield sees the variables as they are at this point, not after later re-assignments
            v = f"out{len(outs) + 1}"
            return f"let {v} : List {ytype} := {t}\n" + self.block(rest, env, outs + [v], state, ytype)
        raise Untranslatable(type(s).__name__ + ": " + ast.unparse(s)[:80])

    def sig(self):
        return " ".join(f"({n} : {' → '.join(list(a) + [r or 'β'])})" for n, (a, r) in self.funcs.items())


def _ind(t):
    return "\n".join("  " + l for l in t.split("\n"))


def loop(fn, lean, loopvar, elem_type, state, funcs, diag, ytype, comment):
    """`fn`: ast.FunctionDef of a generator `inits; for <loopvar> in <param>: body; post` -> Lean text"""
    R = Reader(funcs, diag)
    R.check_diag(fn)
    body = [s for s in fn.body if not R.noise(s)]
    k = [i for i, s in enumerate(body) if isinstance(s, ast.For) and isinstance(s.target, ast.Name)
         and s.target.id == loopvar]
    if len(k) != 1 or body[k[0]].orelse:
        raise Untranslatable("no single loop over " + loopvar)
    k = k[0]
    if not (isinstance(body[k].iter, ast.Name) and body[k].iter.id in [a.arg for a in fn.args.args]):
        raise Untranslatable("the loop does not run over a parameter")
    init = {}
    for s in body[:k]:
        if not (isinstance(s, ast.Assign) and len(s.targets) == 1 and isinstance(s.targets[0], ast.Name)):
            raise Untranslatable("initialisation " + ast.unparse(s)[:60])
        t, ty = R.expr(s.value, {})
        init[s.targets[0].id] = (t, ty)
    for n, ty in state:
        if n not in init or init[n][1] != ty:
            raise Untranslatable(f"state variable {n}: initial value {init.get(n)}")
    if set(init) != {n for n, _ in state}:
        raise Untranslatable("variables initialised before the loop are not the declared state")
    env = {n: ty for n, ty in state}
    st_sig = " ".join(f"({n} : {ty})" for n, ty in state)
    st_ty = " × ".join(ty for _, ty in state)
    beta = "{β : Type} " if any(r is None for _, r in funcs.values()) or ytype == "β" else ""
    env_e = dict(env)
    env_e[loopvar] = elem_type
    step = R.block(list(body[k].body), env_e, [], state, ytype)
    final = R.block(body[k + 1:], env, [], None, ytype)
    return (f"/-- {comment}: one iteration of the loop (values yielded, loop-carried variables afterwards) -/\n"
            f"def {lean}_step {beta}{R.sig()} {st_sig} ({loopvar} : {elem_type}) :\n"
            f"    List {ytype} × ({st_ty}) :=\n{_ind(step)}\n"
            f"/-- {comment}: the values yielded after the loop -/\n"
            f"def {lean}_final {beta}{R.sig()} {st_sig} : List {ytype} :=\n{_ind(final)}\n"
            f"/-- {comment}: the loop-carried variables before the first iteration -/\n"
            f"def {lean}_init : {st_ty} :=\n  ({', '.join(init[n][0] for n, _ in state)})")


def min_then(fn, lean, funcs, comment):
    """`x = min(<set>, key=len); <ifs re-assigning x>; return x` -> `<lean>_trim x` and `<lean> … = candidates.map trim`"""
    R = Reader(funcs)
    body = [s for s in fn.body if not R.noise(s)]
    params = [a.arg for a in fn.args.args]
    if len(params) != 1:
        raise Untranslatable("one parameter expected")
    s0 = body[0] if body else None
    if not (isinstance(s0, ast.Assign) and len(s0.targets) == 1 and isinstance(s0.targets[0], ast.Name)
            and isinstance(s0.value, ast.Call) and isinstance(s0.value.func, ast.Name) and s0.value.func.id == "min"
            and len(s0.value.args) == 1 and len(s0.value.keywords) == 1 and s0.value.keywords[0].arg == "key"
            and isinstance(s0.value.keywords[0].value, ast.Name) and s0.value.keywords[0].value.id == "len"):
        raise Untranslatable("first statement is not `x = min(S, key=len)`")
    var = s0.targets[0].id
    pool, tp = R.expr(s0.value.args[0], {params[0]: COLL})
    if tp != COLL:
        raise Untranslatable("min over " + tp)

    def tail(stmts, env):
        if not stmts:
            raise Untranslatable("falls off the end")
        s, rest = stmts[0], stmts[1:]
        if isinstance(s, ast.Return) and s.value is not None:
            t, ty = R.expr(s.value, env)
            if ty != STR:
                raise Untranslatable("returns " + ty)
            return t
        if isinstance(s, ast.Assign) and len(s.targets) == 1 and isinstance(s.targets[0], ast.Name):
            t, ty = R.expr(s.value, env)
            env = dict(env)
            env[s.targets[0].id] = ty
            return f"let {s.targets[0].id} : {ty} := {t}\n" + tail(rest, env)
        if isinstance(s, ast.If):
            c = R.cond(s.test, env)
            return (f"if {c} = true then\n{_ind(tail(list(s.body) + rest, env))}\nelse\n"
                    f"{_ind(tail(list(s.orelse) + rest, env))}")
        raise Untranslatable(type(s).__name__ + ": " + ast.unparse(s)[:80])

    trim = tail(body[1:], {var: STR})
    return (f"/-- {comment}: the statements after `{var} = min(…, key=len)`, as a function of the chosen name -/\n"
            f"def {lean}_trim ({var} : String) : String :=\n{_ind(trim)}\n"
            f"/-- {comment}: every value it may return (one per shortest element of the set) -/\n"
            f"def {lean} {R.sig()} ({params[0]} : List String) : List String :=\n"
            f"  (C12N.pyMinsByLen {pool}).map {lean}_trim")
