"""Interval-table generators and adapters shared by the interval-family properties."""
from __future__ import annotations

import itertools


SUB = None  # per-case default for `sub` (set by a property's run_impl around its calls)


def _sub_rows(rows, sub):
    """rows interleaved with junk copies + the mask that removes the junk again (see `ga`)"""
    import random
    rng = random.Random(sub)
    big, mask = [], []
    for r in rows:
        for _ in range(rng.choice([0, 1, 1, 2, 3])):
            j = rng.choice(rows)
            big.append((j[0], j[1], j[2], "junk") + tuple(j[4:]))
            mask.append(False)
        big.append(tuple(r))
        mask.append(True)
    if all(mask):
        big.insert(0, (rows[0][0], rows[0][1], rows[0][2], "junk") + tuple(rows[0][4:]))
        mask.insert(0, False)
    return big, mask


def ga(rows, cls=None, sub=None, rep=None):
    """rows [[chrom,s,e,gene],...] -> GenomicArray.  With `sub` (an int seed) the same table is produced as a
    SUBSET of a larger one (junk rows interleaved, then removed with a boolean mask), so that its pandas index
    labels differ from the row positions -- as for any table obtained by filtering (targets only, one
    chromosome, drop_low_coverage, in_range ...).

    `rep` (optional dict) chooses another REPRESENTATION of the same table (all keys optional):
      extra    {name: [value per row]} or [names]: additional columns (names alone: log2/weight floats, probes/
               depth ints derived from the row position)
      order    int seed: the columns are permuted (required columns anywhere, also end before start)
      fcoord   True: start/end handed over as float64 (the constructor recasts them)
      objchrom True: chromosome (and gene) columns of dtype object instead of the pandas string dtype
      nogene   True: no gene column at all (3-column BED-like table)
      cls      "cna": a cnvlib CopyNumArray (adds a log2 column if `extra` has none)
      ctor     "frame" (default with rep): cls(DataFrame); "rows": cls.from_rows; "columns": cls.from_columns
               (which re-orders the columns: chromosome, start, end, then alphabetical)
    """
    from skgenome import GenomicArray

    cols = ["chromosome", "start", "end", "gene"]
    if sub is None:
        sub = SUB
    if not rep:
        cls = cls or GenomicArray
        if sub is None or not rows:
            return cls.from_rows([tuple(r) for r in rows], columns=cols)
        import numpy as np
        big, mask = _sub_rows(rows, sub)
        arr = cls.from_rows(big, columns=cols)
        return arr[np.array(mask)]
    import random
    import numpy as np
    import pandas as pd
    if rep.get("cls") == "cna":
        from cnvlib.cnary import CopyNumArray
        cls = CopyNumArray
    cls = cls or GenomicArray
    extra = rep.get("extra") or {}
    if not isinstance(extra, dict):
        extra = {nm: None for nm in extra}
    if rep.get("cls") == "cna" and "log2" not in extra:
        extra = dict(extra, log2=None)
    names = list(extra)
    full = []
    for k, r in enumerate(rows):
        vals = []
        for nm in names:
            if extra[nm] is not None:
                v = extra[nm][k]
                v = float("nan") if v is None else v
            elif nm in ("probes", "depth"):
                v = (k * 7 + 3) % 11
            else:
                v = ((k * 5 + 2) % 17 - 8) / 8.0
            vals.append(v)
        full.append(tuple(r[:4]) + tuple(vals))
    mask = None
    if sub is not None and rows:
        full, mask = _sub_rows(full, sub)
    allcols = cols + names
    df = pd.DataFrame.from_records(full, columns=allcols) if full else pd.DataFrame(
        {c: pd.Series([], dtype=("int64" if c in ("start", "end", "probes", "depth") else
                                  "float64" if c in names else "str")) for c in allcols})
    if rep.get("nogene"):
        df = df.drop(columns=["gene"])
        allcols = [c for c in allcols if c != "gene"]
    if rep.get("fcoord"):
        df = df.astype({"start": "float64", "end": "float64"})
    if rep.get("objchrom"):
        df = df.astype({c: object for c in ("chromosome", "gene") if c in df.columns})
    if rep.get("order") is not None:
        perm = list(allcols)
        random.Random(rep["order"]).shuffle(perm)
        df = df[perm]
    ctor = rep.get("ctor", "frame")
    if ctor == "rows":
        arr = cls.from_rows(list(df.itertuples(index=False, name=None)), columns=list(df.columns))
    elif ctor == "columns":
        arr = cls.from_columns({c: df[c].values for c in df.columns})
    else:
        arr = cls(df)
    if mask is not None:
        arr = arr[np.array(mask)]
    return arr


def rows_of(garr):
    d = garr.data if hasattr(garr, "data") else garr
    if not len(d):
        return []
    genes = d["gene"] if "gene" in d.columns else ["-"] * len(d)
    return [[str(c), int(s), int(e), str(g)] for c, s, e, g in zip(d["chromosome"], d["start"], d["end"], genes)]


def sort_rows(rows):
    from skgenome.chromsort import sorter_chrom

    return sorted(rows, key=lambda r: (sorter_chrom(r[0]), r[1], r[2]))


def intervals(lo, hi, zero_width=False):
    return [(s, e) for s in range(lo, hi + 1) for e in range(s if zero_width else s + 1, hi + 1)]


def multisets(ivs, kmax):
    out = [()]
    for k in range(1, kmax + 1):
        out += list(itertools.combinations_with_replacement(ivs, k))
    return out


def small_tables(hi, kmax, chrom="chr1", prefix="g", zero_width=False):
    """every sorted multiset of <= kmax intervals over 0..hi on one chromosome, genes unique"""
    out = []
    for ms in multisets(intervals(0, hi, zero_width), kmax):
        rows = sorted(ms)
        out.append([[chrom, s, e, f"{prefix}{i}"] for i, (s, e) in enumerate(rows)])
    return out


def random_table(rng, nmax=40, chroms=("chr1", "chr2", "chrX"), coord=10 ** 6, prefix="g", style=None,
                 allow_empty=True):
    """random sorted table biased to duplicates / abutting / overlapping / nested rows"""
    n = rng.randint(0 if allow_empty else 1, nmax)
    style = style or rng.choice(["dense", "sparse", "nested", "abut"])
    rows = []
    scale = rng.choice([10, 50, 1000, coord])
    for _ in range(n):
        c = rng.choice(chroms)
        same = [r for r in rows if r[0] == c]
        if same and rng.random() < 0.5:
            base = rng.choice(same)
            k = rng.random()
            if k < 0.2:
                s, e = base[1], base[2]  # duplicate
            elif k < 0.45:
                s = base[2]
                e = s + rng.randint(1, max(1, scale // 10))  # abutting
            elif k < 0.7 and base[2] - base[1] >= 2:
                s = rng.randint(base[1], base[2] - 1)
                e = rng.randint(s + 1, base[2])  # nested
            else:
                s = rng.randint(max(0, base[1] - scale // 10), base[2])
                e = s + rng.randint(1, max(1, scale // 5))  # overlapping
        else:
            s = rng.randint(0, scale)
            e = s + rng.randint(1, max(1, scale // 8))
        rows.append([c, s, e, ""])
    rows = sort_rows(rows)
    names = [f"{prefix}{i}" for i in range(len(rows))]
    if rng.random() < 0.3 and names:
        # repeated gene labels (exercise join_strings de-duplication)
        names = [rng.choice(names[: max(1, len(names) // 3)]) for _ in names]
    for r, nm in zip(rows, names):
        r[3] = nm
    return rows


def shrink_rows(rows):
    """candidate smaller tables: drop one row; halve coordinates"""
    for i in range(len(rows)):
        yield rows[:i] + rows[i + 1:]
    if any(r[2] > 8 for r in rows):
        yield [[r[0], r[1] // 2, max(r[1] // 2 + 1, r[2] // 2), r[3]] for r in rows]
