"""COLUMN-wise reader for the confidence-limit branch of export.segments2vcf (C20, round 5).  Part of the trusted base.

Reading rules (everything else raises, so that an edit the reader does not understand is reported, not guessed):

* the block read is the body of the `if` whose test mentions both "ci_left" and "ci_right" (`"ci_left" in segments
  and "ci_right" in segments`); it must bind `has_ci = True`, its `else` must bind `has_ci = False`;
* a column of the segment table -- `segments["c"]`, `segments.c`, either with `.values` / `.to_numpy()` -- is the
  `List Int` parameter `c` (`end` is spelled `end_`);
* a local name is replaced by the expression it was bound to in the block (so renaming a local changes nothing);
* `a - b`, `a + b` between columns are element-wise (`List.zipWith`); `-a` and `k * a` / `a * k` with an integer
  literal `k` are `List.map`; `a[:-1]` is `List.dropLast`, `a[1:]` is `List.drop 1`;
* `np.r_[x, y, ...]` and `np.concatenate(([x], y))`-style calls with a tuple / list argument are `++`, an integer
  literal `k` (or `[k]`) standing for the one-element column `[k]`;
* `out_dframe["name"] = expr` defines the output column `name`;
* in the loop, the list handed to `fields.extend(...)` under `if has_ci:` is a list of f-strings over `out_row.<name>`;
  each becomes a Lean string expression with `toString` of the Int parameter `<name>` at each placeholder.
"""
import ast

from .translate import lstr

COLS = {"ci_left": "ci_left", "start": "start", "end": "end_", "ci_right": "ci_right"}


class Unreadable(ValueError):
    pass


def _is_ci_test(t):
    consts = {n.value for n in ast.walk(t) if isinstance(n, ast.Constant) and isinstance(n.value, str)}
    return {"ci_left", "ci_right"} <= consts


def find_block(fn):
    for n in ast.walk(fn):
        if isinstance(n, ast.If) and _is_ci_test(n.test):
            return n
    raise Unreadable("no `if \"ci_left\" in segments and \"ci_right\" in segments` block")


def _int_lit(n):
    if isinstance(n, ast.Constant) and isinstance(n.value, int) and not isinstance(n.value, bool):
        return n.value
    if isinstance(n, ast.UnaryOp) and isinstance(n.op, ast.USub):
        v = _int_lit(n.operand)
        return None if v is None else -v
    return None


def _lean_int(k):
    return f"({k})" if k < 0 else str(k)


def col(n, env, table="segments"):
    """Lean term of type List Int for a column expression"""
    if isinstance(n, ast.Name):
        if n.id in env:
            return env[n.id]
        raise Unreadable(f"unbound name {n.id}")
    if isinstance(n, ast.Attribute) and n.attr == "values":
        return col(n.value, env, table)
    if isinstance(n, ast.Call) and isinstance(n.func, ast.Attribute) and n.func.attr == "to_numpy" and not n.args:
        return col(n.func.value, env, table)
    if isinstance(n, ast.Attribute) and isinstance(n.value, ast.Name) and n.value.id == table and n.attr in COLS:
        return COLS[n.attr]
    if isinstance(n, ast.Subscript) and isinstance(n.value, ast.Name) and n.value.id == table \
            and isinstance(n.slice, ast.Constant) and n.slice.value in COLS:
        return COLS[n.slice.value]
    if isinstance(n, ast.Subscript) and isinstance(n.slice, ast.Slice) and n.slice.step is None:
        lo, hi = n.slice.lower, n.slice.upper
        if lo is None and hi is not None and _int_lit(hi) == -1:
            return f"(List.dropLast {col(n.value, env, table)})"
        if hi is None and lo is not None and _int_lit(lo) == 1:
            return f"(List.drop 1 {col(n.value, env, table)})"
        raise Unreadable("slice other than [:-1] / [1:]")
    if isinstance(n, ast.Subscript) and isinstance(n.value, ast.Attribute) and n.value.attr == "r_":
        parts = n.slice.elts if isinstance(n.slice, ast.Tuple) else [n.slice]
        return _concat(parts, env, table)
    if isinstance(n, ast.Call) and isinstance(n.func, ast.Attribute) and n.func.attr in ("concatenate", "hstack") \
            and len(n.args) == 1 and isinstance(n.args[0], (ast.Tuple, ast.List)) and not n.keywords:
        return _concat(n.args[0].elts, env, table)
    if isinstance(n, ast.UnaryOp) and isinstance(n.op, ast.USub):
        return f"(List.map (fun x => -x) {col(n.operand, env, table)})"
    if isinstance(n, ast.BinOp) and isinstance(n.op, ast.Mult):
        for k, other in ((_int_lit(n.left), n.right), (_int_lit(n.right), n.left)):
            if k is not None:
                return f"(List.map (fun x => {_lean_int(k)} * x) {col(other, env, table)})"
        raise Unreadable("product of two columns")
    if isinstance(n, ast.BinOp) and isinstance(n.op, (ast.Sub, ast.Add)):
        op = "-" if isinstance(n.op, ast.Sub) else "+"
        return f"(List.zipWith (fun x y => x {op} y) {col(n.left, env, table)} {col(n.right, env, table)})"
    raise Unreadable(f"column expression {ast.dump(n)[:80]}")


def _concat(parts, env, table):
    out = []
    for p in parts:
        k = _int_lit(p)
        if k is not None:
            out.append(f"[{_lean_int(k)}]")
        elif isinstance(p, (ast.List, ast.Tuple)) and all(_int_lit(e) is not None for e in p.elts):
            out.append("[" + ", ".join(_lean_int(_int_lit(e)) for e in p.elts) + "]")
        else:
            out.append(col(p, env, table))
    return "(" + " ++ ".join(out) + ")"


def read_columns(fn):
    """{output column: Lean term} of the block, in source order"""
    blk = find_block(fn)
    env, out, has_ci = {}, {}, None
    for st in blk.body:
        if not (isinstance(st, ast.Assign) and len(st.targets) == 1):
            raise Unreadable("statement other than a single assignment in the confidence-limit block")
        t = st.targets[0]
        if isinstance(t, ast.Name) and t.id == "has_ci":
            has_ci = isinstance(st.value, ast.Constant) and st.value.value is True
        elif isinstance(t, ast.Name):
            env[t.id] = col(st.value, env)
        elif isinstance(t, ast.Subscript) and isinstance(t.value, ast.Name) and t.value.id == "out_dframe" \
                and isinstance(t.slice, ast.Constant) and isinstance(t.slice.value, str):
            out[t.slice.value] = col(st.value, env)
        else:
            raise Unreadable("assignment target in the confidence-limit block")
    els = [st for st in blk.orelse if isinstance(st, ast.Assign) and isinstance(st.targets[0], ast.Name)
           and st.targets[0].id == "has_ci"]
    if has_ci is not True or len(els) != 1 or len(blk.orelse) != 1 or not (
            isinstance(els[0].value, ast.Constant) and els[0].value.value is False):
        raise Unreadable("has_ci must be True in the block and False in its else")
    return out


def read_info_fields(fn, names):
    """the f-strings appended to `fields` under `if has_ci:` as Lean string expressions over Int parameters `names`"""
    for n in ast.walk(fn):
        if isinstance(n, ast.If) and isinstance(n.test, ast.Name) and n.test.id == "has_ci" and not n.orelse:
            if len(n.body) != 1 or not (isinstance(n.body[0], ast.Expr) and isinstance(n.body[0].value, ast.Call)):
                raise Unreadable("`if has_ci:` body")
            c = n.body[0].value
            if not (isinstance(c.func, ast.Attribute) and c.func.attr == "extend" and isinstance(c.func.value, ast.Name)
                    and c.func.value.id == "fields" and len(c.args) == 1 and isinstance(c.args[0], (ast.List, ast.Tuple))):
                raise Unreadable("`if has_ci:` must extend `fields` with a list")
            res = []
            for e in c.args[0].elts:
                if not isinstance(e, ast.JoinedStr):
                    raise Unreadable("field that is not an f-string")
                parts = []
                for v in e.values:
                    if isinstance(v, ast.Constant):
                        parts.append(lstr(v.value))
                    elif isinstance(v, ast.FormattedValue) and v.conversion == -1 and v.format_spec is None \
                            and isinstance(v.value, ast.Attribute) and isinstance(v.value.value, ast.Name) \
                            and v.value.value.id == "out_row" and v.value.attr in names:
                        parts.append(f"toString {v.value.attr}")
                    else:
                        raise Unreadable("placeholder other than {out_row.<confidence column>}")
                res.append(" ++ ".join(parts))
            return res
    raise Unreadable("no `if has_ci:` in the loop")
