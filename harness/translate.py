"""Source -> Lean translator (Python `ast` only).

Regenerates lean/CnvVerif/Generated/Consts.lean from the current /repo working tree: every
numeric/string constant the properties name, the +-1 coordinate shifts of the readers and
writers, default argument values, the RNG-operation skeletons and the executor calls.  The
theorems in Props/ are stated about these generated definitions, so an edit to a constant in
/repo re-checks (and possibly breaks) the proofs themselves.

A float literal is generated twice: `X_dec` is the decimal written in the source (what the
property talks about) and `X` the exact binary value of the double (what Python compares with).
"""
from __future__ import annotations

import ast
import hashlib
import json
import os
import sys
from fractions import Fraction


def _literal(node):
    """a literal the extractors may meet in place of a name: numbers / strings, signed numbers, tuples / lists of them"""
    if isinstance(node, ast.Constant) and isinstance(node.value, (int, float, str)) and not isinstance(node.value, bool):
        return True
    if isinstance(node, ast.UnaryOp) and isinstance(node.op, (ast.USub, ast.UAdd)) and isinstance(node.operand, ast.Constant):
        return isinstance(node.operand.value, (int, float))
    if isinstance(node, (ast.Tuple, ast.List)):
        return all(_literal(e) for e in node.elts)
    return False


def _module_literals(tree, src):
    """module-level names bound exactly once, to a literal, and never rebound inside a function or class"""
    bound, stores = {}, {}
    for node in tree.body:
        if isinstance(node, ast.Assign) and len(node.targets) == 1 and isinstance(node.targets[0], ast.Name) and _literal(node.value):
            bound.setdefault(node.targets[0].id, []).append(node.value)
    for node in ast.walk(tree):
        if isinstance(node, ast.Name) and isinstance(node.ctx, (ast.Store, ast.Del)):
            stores[node.id] = stores.get(node.id, 0) + 1
        elif isinstance(node, ast.arg):
            stores[node.arg] = stores.get(node.arg, 0) + 2   # shadowed by a parameter somewhere: leave it alone
    return {k: (v[0], ast.get_source_segment(src, v[0])) for k, v in bound.items() if len(v) == 1 and stores.get(k, 0) == 1}


def inline_constants(tree, src, path):
    """Replace every use of a module-level constant (of this module, or `params.X` of the package's params.py) by the
    literal it names, so that `x * 1.4826` and `x * MAD_TO_STDEV` (with `MAD_TO_STDEV = 1.4826` at module level or in
    params.py) read the same to the extractors.  The literal keeps its own source text (`seg`)."""
    import copy
    own = _module_literals(tree, src)
    par = {}
    ppath = os.path.join(os.path.dirname(path), "params.py")
    for cand in (ppath, os.path.join(os.path.dirname(os.path.dirname(path)), "params.py"),
                 os.path.join(os.path.dirname(os.path.dirname(path)), "cnvlib", "params.py")):
        if os.path.exists(cand) and os.path.abspath(cand) != os.path.abspath(path):
            try:
                psrc = open(cand).read()
                par = _module_literals(ast.parse(psrc), psrc)
            except SyntaxError:
                par = {}
            break
    uses_params = any(isinstance(n, ast.ImportFrom) and any(a.name == "params" for a in n.names) for n in ast.walk(tree)) or \
        any(isinstance(n, ast.Import) and any(a.name.endswith(".params") for a in n.names) for n in ast.walk(tree))

    def lit(entry, at):
        node, text = entry
        new = copy.deepcopy(node)
        for sub in ast.walk(new):
            ast.copy_location(sub, at)
        new._lit_text = text
        return new

    class T(ast.NodeTransformer):
        def visit_Assign(self, node):
            # keep the defining assignment itself
            if len(node.targets) == 1 and isinstance(node.targets[0], ast.Name) and node.targets[0].id in own \
                    and node in tree.body:
                return node
            return self.generic_visit(node)

        def visit_Name(self, node):
            if isinstance(node.ctx, ast.Load) and node.id in own:
                return lit(own[node.id], node)
            return node

        def visit_Attribute(self, node):
            if uses_params and isinstance(node.ctx, ast.Load) and isinstance(node.value, ast.Name) and node.value.id == "params" \
                    and node.attr in par:
                return lit(par[node.attr], node)
            return self.generic_visit(node)
    return T().visit(tree)


_NP_BINOPS = {"add": ast.Add, "subtract": ast.Sub, "multiply": ast.Mult, "divide": ast.Div, "true_divide": ast.Div}
_NP_CMPOPS = {"equal": ast.Eq, "not_equal": ast.NotEq, "less": ast.Lt, "less_equal": ast.LtE, "greater": ast.Gt,
              "greater_equal": ast.GtE}


def normalize_spellings(tree):
    """numpy's function spellings of the arithmetic / comparison operators are read as the operators
    (`np.multiply(2.0, x)` as `2.0 * x`, `np.not_equal(a, b)` as `a != b`, `np.negative(x)` as `-x`), and
    `pattern.search(s) is None` as `not pattern.search(s)` -- so that the extractors see one spelling."""
    class N(ast.NodeTransformer):
        def visit_Call(self, node):
            node = self.generic_visit(node)
            f = node.func
            if isinstance(f, ast.Attribute) and f.attr in _METHOD_SIGNATURES and node.keywords \
                    and all(k.arg is not None for k in node.keywords):
                # `x.subdivide(avg_size=a, min_size=0)` is read as `x.subdivide(a, 0)`
                sig = _METHOD_SIGNATURES[f.attr]
                kw = {k.arg: k.value for k in node.keywords}
                rest = sig[len(node.args):]
                take = []
                for name in rest:
                    if name in kw:
                        take.append(kw.pop(name))
                    else:
                        break
                if not kw:
                    node = ast.copy_location(ast.Call(func=f, args=list(node.args) + take, keywords=[]), node)
            if isinstance(f, ast.Attribute) and isinstance(f.value, ast.Name) and f.value.id in ("np", "numpy") \
                    and not node.keywords:
                if f.attr in _NP_BINOPS and len(node.args) == 2:
                    return ast.copy_location(ast.BinOp(left=node.args[0], op=_NP_BINOPS[f.attr](), right=node.args[1]), node)
                if f.attr in _NP_CMPOPS and len(node.args) == 2:
                    return ast.copy_location(ast.Compare(left=node.args[0], ops=[_NP_CMPOPS[f.attr]()],
                                                         comparators=[node.args[1]]), node)
                if f.attr == "negative" and len(node.args) == 1:
                    return ast.copy_location(ast.UnaryOp(op=ast.USub(), operand=node.args[0]), node)
            return node

        def visit_Compare(self, node):
            node = self.generic_visit(node)
            if (len(node.ops) == 1 and isinstance(node.ops[0], (ast.Is, ast.IsNot)) and isinstance(node.comparators[0], ast.Constant)
                    and node.comparators[0].value is None and isinstance(node.left, ast.Call)
                    and isinstance(node.left.func, ast.Attribute) and node.left.func.attr in ("search", "match", "fullmatch")):
                if isinstance(node.ops[0], ast.Is):
                    return ast.copy_location(ast.UnaryOp(op=ast.Not(), operand=node.left), node)
                return node.left
            return node
    return ast.fix_missing_locations(N().visit(tree))


def expand(expr, fn, tree=None, _depth=0, keep=()):
    """`expr` (taken from the body of `fn`) with (a) every local name that `fn` binds exactly once by a plain
    assignment replaced by the expression it was bound to, and (b) every call `helper(a, b)` of a module-level
    function whose body is a single `return <expr>` replaced by that expression with the arguments substituted --
    so that a chain written in one expression, split into named steps, or moved into a small helper reads the same."""
    import copy
    if _depth > 8:
        return expr
    params = {a.arg for a in fn.args.args + fn.args.kwonlyargs}
    binds = {}
    for n in ast.walk(fn):
        if isinstance(n, ast.Assign) and len(n.targets) == 1 and isinstance(n.targets[0], ast.Name):
            binds.setdefault(n.targets[0].id, []).append(n.value)
        elif isinstance(n, (ast.AugAssign, ast.For, ast.With)):
            for t in ast.walk(n.target if hasattr(n, "target") else n):
                if isinstance(t, ast.Name) and isinstance(t.ctx, ast.Store):
                    binds.setdefault(t.id, []).extend([None, None])
    single = {k: v[0] for k, v in binds.items() if len(v) == 1 and v[0] is not None and k not in params and k not in keep}
    helpers = {}
    if tree is not None:
        for n in tree.body:
            if isinstance(n, ast.FunctionDef):
                body = [b for b in n.body if not (isinstance(b, ast.Expr) and isinstance(b.value, ast.Constant))]
                if len(body) == 1 and isinstance(body[0], ast.Return) and body[0].value is not None \
                        and not n.args.vararg and not n.args.kwarg:
                    helpers[n.name] = n

    class X(ast.NodeTransformer):
        def visit_Name(self, node):
            if isinstance(node.ctx, ast.Load) and node.id in single and single[node.id] is not expr:
                return expand(copy.deepcopy(single[node.id]), fn, tree, _depth + 1, keep)
            return node

        def visit_Call(self, node):
            node = self.generic_visit(node)
            if isinstance(node.func, ast.Name) and node.func.id in helpers and not node.keywords:
                h = helpers[node.func.id]
                names = [a.arg for a in h.args.args]
                if len(node.args) == len(names):
                    sub = dict(zip(names, node.args))

                    class S(ast.NodeTransformer):
                        def visit_Name(self, n2):
                            return copy.deepcopy(sub[n2.id]) if isinstance(n2.ctx, ast.Load) and n2.id in sub else n2
                    body = [b for b in h.body if isinstance(b, ast.Return)][0]
                    return S().visit(copy.deepcopy(body.value))
            return node
    return ast.fix_missing_locations(X().visit(copy.deepcopy(expr)))


_METHOD_SIGNATURES = {   # positional order of the keyword arguments the extractors meet
    "subdivide": ["avg_size", "min_size", "verbose"],
    "resize_ranges": ["bp", "chrom_sizes"],
    "into_ranges": ["other", "column", "default", "summary_func"],
}


def seg(src, node):
    """source text of a node; for a literal inlined by `inline_constants`, the literal's own text"""
    return getattr(node, "_lit_text", None) or ast.get_source_segment(src, node)


def parse(path, inline=True):
    src = open(path).read()
    tree = ast.parse(src)
    if inline:
        tree = normalize_spellings(inline_constants(tree, src, path))
    return tree, src


def module_consts(path):
    """evaluate simple module-level assignments (literals and arithmetic over earlier ones)"""
    tree, src = parse(path)
    env, text = {}, {}
    for node in tree.body:
        if isinstance(node, ast.Assign) and len(node.targets) == 1 and isinstance(node.targets[0], ast.Name):
            try:
                env[node.targets[0].id] = eval(
                    compile(ast.Expression(node.value), path, "eval"), {"__builtins__": {}}, dict(env))
                text[node.targets[0].id] = ast.get_source_segment(src, node.value)
            except Exception:
                pass
    return env, text


def find_func(tree, name, cls=None):
    for n in ast.walk(tree):
        if cls and isinstance(n, ast.ClassDef) and n.name == cls:
            for m in n.body:
                if isinstance(m, ast.FunctionDef) and m.name == name:
                    return m
        if not cls and isinstance(n, ast.FunctionDef) and n.name == name:
            return n
    raise KeyError(name)


def func_defaults(fn):
    args = fn.args.args
    d = fn.args.defaults
    out = {}
    for a, v in zip(args[len(args) - len(d):], d):
        try:
            out[a.arg] = ast.literal_eval(v)
        except Exception:
            out[a.arg] = ast.unparse(v)
    for a, v in zip(fn.args.kwonlyargs, fn.args.kw_defaults):
        if v is not None:
            try:
                out[a.arg] = ast.literal_eval(v)
            except Exception:
                out[a.arg] = ast.unparse(v)
    return out


def rat(x) -> str:
    f = Fraction(x)
    if f.denominator == 1:
        return f"({f.numerator} : Rat)" if f.numerator >= 0 else f"(({f.numerator}) : Rat)"
    return f"(({f.numerator} : Rat) / {f.denominator})"


def dec(text) -> str:
    """the decimal as written in the source"""
    t = text.strip().replace("_", "")
    neg = t.startswith("-")
    if neg:
        t = t[1:].strip()
    f = Fraction(t)
    if neg:
        f = -f
    return rat(f)


def lstr(s: str) -> str:
    return json.dumps(s)


class Out:
    def __init__(self, skip=()):
        self.lines = []
        self.info = {}
        self.skip = set(skip)

    def defn(self, name, typ, val, comment=None):
        if name in self.skip:  # defined by another generated file that this one imports
            return
        if comment:
            self.lines.append(f"/-- {comment} -/")
        self.lines.append(f"def {name} : {typ} := {val}")
        self.info[name] = val

    def flt(self, name, value, text, comment=None):
        """float constant: exact double + decimal as written"""
        self.defn(name, "Rat", rat(value), (comment or "") + f" (exact double of `{text}`)")
        try:
            self.defn(name + "_dec", "Rat", dec(text))
        except Exception:
            self.defn(name + "_dec", "Rat", rat(value))


def discover():
    """extractor modules: harness/extractors/*.py, each with NAME and extract(repo, out)"""
    import importlib
    here = os.path.join(os.path.dirname(os.path.abspath(__file__)), "extractors")
    mods = []
    for fn in sorted(os.listdir(here)):
        if fn.endswith(".py") and not fn.startswith("_"):
            mods.append(importlib.import_module(f"harness.extractors.{fn[:-3]}"))
    return mods


def restore_baseline(outdir):
    """copy the committed baseline of the generated files back into place; returns the names restored"""
    import shutil
    base = os.path.join(os.path.dirname(os.path.dirname(outdir)), "generated.baseline")
    names = []
    if os.path.isdir(base):
        for fn in sorted(os.listdir(base)):
            shutil.copy(os.path.join(base, fn), os.path.join(outdir, fn))
            names.append(fn)
    return names


def regenerate(repo, outdir, lock=False):
    """Regenerate every Generated/<NAME>.lean; `changed` = differs from the committed lock."""
    os.makedirs(outdir, exist_ok=True)
    lockpath = os.path.join(os.path.dirname(os.path.dirname(outdir)), "generated.lock.json")
    try:
        locked = json.load(open(lockpath))
    except Exception:
        locked = {}
    shas, errors, changed_files, ndefs = {}, [], [], 0
    for mod in discover():
        o = Out(getattr(mod, "SKIP_NAMES", ()))
        try:
            mod.extract(repo, o)
        except Exception as e:  # the source no longer has the shape the extractor knows
            errors.append(f"{mod.NAME}: {type(e).__name__}: {e}")
        body = (
            "/- GENERATED by harness/translate.py (" + mod.__name__ + ") from the /repo working tree. Do not edit. -/\n"
            + "".join(f"import {i}\n" for i in getattr(mod, "IMPORTS", []))
            + "namespace CnvVerif.Generated\n\n" + "\n".join(o.lines) + "\n\nend CnvVerif.Generated\n"
        )
        path = os.path.join(outdir, mod.NAME + ".lean")
        old = open(path).read() if os.path.exists(path) else None
        if old != body:
            open(path, "w").write(body)
        sha = hashlib.sha256(body.encode()).hexdigest()
        shas[mod.NAME + ".lean"] = sha
        ndefs += len(o.info)
        if locked.get(mod.NAME + ".lean") != sha:
            changed_files.append(mod.NAME + ".lean")
    if lock:
        json.dump(shas, open(lockpath, "w"), indent=1, sort_keys=True)
        changed_files = []
        # keep a copy of the baseline files: if an edit to /repo makes the regenerated model unbuildable, the
        # check falls back to these so that the driver and the spec oracle can still look for a failing input
        import shutil
        base = os.path.join(os.path.dirname(os.path.dirname(outdir)), "generated.baseline")
        shutil.rmtree(base, ignore_errors=True)
        os.makedirs(base)
        for name in shas:
            shutil.copy(os.path.join(outdir, name), os.path.join(base, name))
    info = {"sha256": shas, "changed": bool(changed_files), "changed_files": changed_files, "n_defs": ndefs}
    if errors:
        info["error"] = "; ".join(errors)
    if changed_files:
        info["note"] = "generated definitions differ from the committed baseline (generated.lock.json)"
    return info


if __name__ == "__main__":
    here = os.path.dirname(os.path.dirname(os.path.abspath(__file__)))
    repo = os.environ.get("VERIF_REPO", "/repo")
    print(regenerate(repo, os.path.join(here, "lean", "CnvVerif", "Generated"), lock="--lock" in sys.argv))
