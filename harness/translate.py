"""Source -> Lean translator (Python `ast` only).

Regenerates lean/CnvVerif/Generated/Consts.lean from the current /repo working tree: every
numeric/string constant the properties name, the +-1 coordinate shifts of the readers and
writers, default argument values, the RNG-operation skeletons and the executor calls.  The
theorems in Props/ are stated about these generated definitions, so an edit to a constant in
/repo re-checks (and possibly breaks) the proofs themselves.

A float literal is generated twice: `X_dec` is the decimal written in the source (what the
property talks about) and `X` the exact binary value of the double (what Python compares with).
"""
from __future__ import annotations

import ast
import hashlib
import json
import os
import sys
from fractions import Fraction


def parse(path):
    src = open(path).read()
    return ast.parse(src), src


def module_consts(path):
    """evaluate simple module-level assignments (literals and arithmetic over earlier ones)"""
    tree, src = parse(path)
    env, text = {}, {}
    for node in tree.body:
        if isinstance(node, ast.Assign) and len(node.targets) == 1 and isinstance(node.targets[0], ast.Name):
            try:
                env[node.targets[0].id] = eval(
                    compile(ast.Expression(node.value), path, "eval"), {"__builtins__": {}}, dict(env))
                text[node.targets[0].id] = ast.get_source_segment(src, node.value)
            except Exception:
                pass
    return env, text


def find_func(tree, name, cls=None):
    for n in ast.walk(tree):
        if cls and isinstance(n, ast.ClassDef) and n.name == cls:
            for m in n.body:
                if isinstance(m, ast.FunctionDef) and m.name == name:
                    return m
        if not cls and isinstance(n, ast.FunctionDef) and n.name == name:
            return n
    raise KeyError(name)


def func_defaults(fn):
    args = fn.args.args
    d = fn.args.defaults
    out = {}
    for a, v in zip(args[len(args) - len(d):], d):
        try:
            out[a.arg] = ast.literal_eval(v)
        except Exception:
            out[a.arg] = ast.unparse(v)
    for a, v in zip(fn.args.kwonlyargs, fn.args.kw_defaults):
        if v is not None:
            try:
                out[a.arg] = ast.literal_eval(v)
            except Exception:
                out[a.arg] = ast.unparse(v)
    return out


def rat(x) -> str:
    f = Fraction(x)
    if f.denominator == 1:
        return f"({f.numerator} : Rat)" if f.numerator >= 0 else f"(({f.numerator}) : Rat)"
    return f"(({f.numerator} : Rat) / {f.denominator})"


def dec(text) -> str:
    """the decimal as written in the source"""
    t = text.strip().replace("_", "")
    neg = t.startswith("-")
    if neg:
        t = t[1:].strip()
    f = Fraction(t)
    if neg:
        f = -f
    return rat(f)


def lstr(s: str) -> str:
    return json.dumps(s)


class Out:
    def __init__(self):
        self.lines = []
        self.info = {}

    def defn(self, name, typ, val, comment=None):
        if comment:
            self.lines.append(f"/-- {comment} -/")
        self.lines.append(f"def {name} : {typ} := {val}")
        self.info[name] = val

    def flt(self, name, value, text, comment=None):
        """float constant: exact double + decimal as written"""
        self.defn(name, "Rat", rat(value), (comment or "") + f" (exact double of `{text}`)")
        try:
            self.defn(name + "_dec", "Rat", dec(text))
        except Exception:
            self.defn(name + "_dec", "Rat", rat(value))


EXTRACTORS = []


def extractor(f):
    EXTRACTORS.append(f)
    return f


@extractor
def ex_params(repo, o: Out):
    env, text = module_consts(os.path.join(repo, "cnvlib/params.py"))
    for k in ("MIN_REF_COVERAGE", "MAX_REF_SPREAD", "NULL_LOG2_COVERAGE", "GC_MIN_FRACTION", "GC_MAX_FRACTION"):
        o.flt(k, env[k], text[k], f"cnvlib/params.py {k}")
    o.defn("INSERT_SIZE", "Int", str(int(env["INSERT_SIZE"])), "cnvlib/params.py INSERT_SIZE")
    o.defn("IGNORE_GENE_NAMES", "List String", "[" + ", ".join(lstr(s) for s in env["IGNORE_GENE_NAMES"]) + "]")
    o.defn("ANTITARGET_NAME", "String", lstr(env["ANTITARGET_NAME"]))
    o.defn("ANTITARGET_ALIASES", "List String", "[" + ", ".join(lstr(s) for s in env["ANTITARGET_ALIASES"]) + "]")
    par = env["PSEUDO_AUTSOMAL_REGIONS"]
    rows = []
    for g in sorted(par):
        for k in sorted(par[g]):
            rows.append(f"({lstr(g)}, {lstr(k)}, ({par[g][k][0]} : Int), ({par[g][k][1]} : Int))")
    o.defn("PAR_TABLE", "List (String × String × Int × Int)", "[" + ",\n  ".join(rows) + "]",
           "cnvlib/params.py PSEUDO_AUTSOMAL_REGIONS as (genome, region, start, end)")


def regenerate(repo, outdir, lock=False):
    o = Out()
    errors = []
    for ex in EXTRACTORS:
        try:
            ex(repo, o)
        except Exception as e:  # the source no longer has the shape the extractor knows
            errors.append(f"{ex.__name__}: {type(e).__name__}: {e}")
    body = (
        "/- GENERATED by harness/translate.py from the /repo working tree. Do not edit. -/\n"
        "namespace CnvVerif.Generated\n\n" + "\n".join(o.lines) + "\n\nend CnvVerif.Generated\n"
    )
    os.makedirs(outdir, exist_ok=True)
    path = os.path.join(outdir, "Consts.lean")
    old = open(path).read() if os.path.exists(path) else None
    if old != body:
        open(path, "w").write(body)
    sha = hashlib.sha256(body.encode()).hexdigest()
    lockpath = os.path.join(os.path.dirname(os.path.dirname(outdir)), "generated.lock.json")
    if lock:
        json.dump({"Consts.lean": sha}, open(lockpath, "w"))
    locked = json.load(open(lockpath)).get("Consts.lean") if os.path.exists(lockpath) else None
    info = {"sha256": sha, "changed": locked != sha, "n_defs": len(o.info)}
    if errors:
        info["error"] = "; ".join(errors)
    if info["changed"] and old is not None and locked is not None:
        # which definitions differ from the committed baseline is recorded for the replay file
        info["note"] = "generated constants differ from the committed baseline"
    return info


if __name__ == "__main__":
    here = os.path.dirname(os.path.dirname(os.path.abspath(__file__)))
    repo = os.environ.get("VERIF_REPO", "/repo")
    print(regenerate(repo, os.path.join(here, "lean", "CnvVerif", "Generated"), lock="--lock" in sys.argv))
