"""NOTE (integration, round 4): this file is the reader `harness/exprtrans.py` AS EXTENDED ON THE C05 GROWTH BRANCH (Boolean
parameters and masks with | & ~, `opaque=` sub-expressions as Boolean parameters, `frame[mask, "col"] op= e` conditional updates,
`s.count("c")` parameters, tuple results, `result=` / `params=` options).  The same class was extended in incompatible ways
by other growth branches, so instead of a semantic merge the C05 variant is kept as a module of its own and used ONLY by
`extractors/exprs_ref.py` (Generated/ExprsRef.lean).  Its reading rules are the ones in its docstring below and are part of the
trusted base like those of exprtrans.py.

Python function -> Lean definition, for the small pure arithmetic functions of cnvkit.

The accepted subset is deliberately narrow; anything outside it raises `Untranslatable`, which the check treats
as a broken tie (the generated file then fails to build, or the lock differs), never as silence.

Reading of the source
* every parameter and local is a rational number (`Rat`); array parameters are read ELEMENTWISE: the numpy code
  `x[mask] -= f(y[mask])` means "where mask holds, x becomes x - f(y)", so `a[mask]` is read as `a` and a masked
  augmented assignment as a conditional update (the functions translated here contain no reductions over arrays);
* `2 ** name` (the antilog of a log2 value) becomes a fresh parameter `name_pow2` -- the models work in ratio
  space, where the exact value of that double is an input;
* `len(name)` becomes the parameter `name_len`; `name.median()` the parameter `name_median`;
* truthiness of a number (`purity and purity < 1.0`) is `≠ 0`; `x is None` / `is not None` are resolved by the
  `given` argument (which optional parameters are supplied);
* `if cond: raise ...` guards and `assert` statements are dropped (the models state these as preconditions),
  unless the raise is the only way out of an else-branch, in which case the branch yields `default_on_raise`;
* `int(e)` truncates toward zero, `math.ceil`/`np.ceil` and `//` are exact on rationals, `round` is not accepted;
* float literals are the exact doubles.

Rules added for the table-updating functions of cnvlib/reference.py and CopyNumArray.expect_flat_log2 (round 4):
* BOOLEAN parameters (`bools=`): a flag or an elementwise mask; its truthiness is `= true`; masks combine with `|`,
  `&`, `~` (read as or / and / not); a trailing `.values` on a mask is dropped;
* `opaque=` maps the SOURCE TEXT of a sub-expression to the name of a Boolean parameter: the model takes that value as
  an input (`sexes.get(cnarr.sample_id)`: the truthiness of the sample's recorded sex; `self.chr_x_filter(
  diploid_parx_genome)`: the chromosome-class mask of the bin) -- what these expressions compute is modelled elsewhere;
* `frame["col"]` (a string-constant subscript of a name) is the elementwise variable `frame_col`; `frame["col"] = e` /
  `frame["col"] op= e` update it; `frame[mask, "col"] = e` / `op= e` and `arr[mask] = e` update it where the mask holds;
* `np.zeros(..)` is the elementwise 0; `name.count("c")` (a one-character string) is the parameter `name_count_c`;
* a `return a, b` yields a pair (`Rat × Rat`);
* a function that ends without a `return` yields the final value of the variable named by `result=` (in-place update);
* `params=` fixes the Lean signature (names and order) independently of the order of first use in the source; a variable
  read beyond it leaves the function untranslated.
"""
from __future__ import annotations

import ast
from fractions import Fraction


class Untranslatable(Exception):
    pass


def _rat(x):
    f = Fraction(x)
    if f.denominator == 1:
        return f"({f.numerator} : Rat)" if f.numerator >= 0 else f"(({f.numerator}) : Rat)"
    return f"(({f.numerator} : Rat) / {f.denominator})"


class Fn:
    def __init__(self, fn: ast.FunctionDef, given=(), absent=(), default_on_raise=None, rename=None, callees=None,
                 bools=(), opaque=None, result=None, params=None):
        self.callees = callees or {}
        self.bools = set(bools) | set((opaque or {}).values())   # Boolean parameters (flags / elementwise masks)
        self.opaque = dict(opaque or {})                          # source text -> Boolean parameter
        self.result = result                                      # variable returned by a function without `return`
        self.arity = None                                         # length of a returned tuple
        self.fixed_params = list(params) if params else None      # the Lean signature, fixed by the extractor
        self.fn = fn
        self.given = set(given)      # optional parameters known to be supplied (not None)
        self.absent = set(absent)    # optional parameters known to be None
        self.params = []             # Lean parameters in order of first use
        self.default_on_raise = default_on_raise
        self.rename = rename or {}

    # -- parameters ------------------------------------------------------------------------------
    def param(self, name):
        name = self.rename.get(name, name)
        if name not in self.params:
            self.params.append(name)
        return name

    # -- expressions -----------------------------------------------------------------------------
    def expr(self, e, env):
        if isinstance(e, ast.Constant):
            if isinstance(e.value, bool) or e.value is None:
                raise Untranslatable(f"constant {e.value!r} in arithmetic position")
            if isinstance(e.value, (int, float)):
                return _rat(e.value)
            raise Untranslatable(f"constant {e.value!r}")
        if isinstance(e, ast.Name):
            if e.id in env:
                return env[e.id]
            return self.param(e.id)
        if isinstance(e, ast.Subscript):
            # elementwise reading of `array[mask]`
            if isinstance(e.value, ast.Name) and isinstance(e.slice, ast.Name):
                return self.expr(e.value, env)
            col = self._column(e)
            if col is not None:
                return env[col] if col in env else self.param(col)
            raise Untranslatable("subscript " + ast.unparse(e))
        if isinstance(e, ast.UnaryOp):
            if isinstance(e.op, ast.USub):
                return f"(-{self.expr(e.operand, env)})"
            if isinstance(e.op, ast.UAdd):
                return self.expr(e.operand, env)
            raise Untranslatable(ast.unparse(e))
        if isinstance(e, ast.BinOp):
            if isinstance(e.op, ast.Pow):
                if isinstance(e.left, ast.Constant) and e.left.value == 2 and isinstance(e.right, ast.Name) \
                        and e.right.id not in env:
                    return self.param(e.right.id + "_pow2")
                if isinstance(e.right, ast.Constant) and isinstance(e.right.value, int) and e.right.value >= 0:
                    return f"({self.expr(e.left, env)} ^ {e.right.value})"
                raise Untranslatable("power " + ast.unparse(e))
            a, b = self.expr(e.left, env), self.expr(e.right, env)
            if isinstance(e.op, ast.Add):
                return f"({a} + {b})"
            if isinstance(e.op, ast.Sub):
                return f"({a} - {b})"
            if isinstance(e.op, ast.Mult):
                return f"({a} * {b})"
            if isinstance(e.op, ast.Div):
                return f"({a} / {b})"
            if isinstance(e.op, ast.FloorDiv):
                return f"(((({a}) / ({b})).floor : Int) : Rat)"
            raise Untranslatable(ast.unparse(e))
        if isinstance(e, ast.IfExp):
            return f"(if {self.cond(e.test, env)} then {self.expr(e.body, env)} else {self.expr(e.orelse, env)})"
        if isinstance(e, ast.Call):
            f = ast.unparse(e.func)
            args = e.args
            if f in ("abs", "np.abs", "np.absolute") and len(args) == 1:
                x = self.expr(args[0], env)
                return f"(if {x} < 0 then -{x} else {x})"
            if isinstance(e.func, ast.Attribute) and e.func.attr == "abs" and not args:
                x = self.expr(e.func.value, env)
                return f"(if {x} < 0 then -{x} else {x})"
            if isinstance(e.func, ast.Attribute) and e.func.attr == "median" and not args \
                    and isinstance(e.func.value, ast.Name):
                return self.param(e.func.value.id + "_median")
            if f in ("max", "np.maximum") and len(args) == 2:
                return f"(max {self.expr(args[0], env)} {self.expr(args[1], env)})"
            if f in ("min", "np.minimum") and len(args) == 2:
                return f"(min {self.expr(args[0], env)} {self.expr(args[1], env)})"
            binops = {"np.divide": "/", "np.true_divide": "/", "np.multiply": "*", "np.add": "+", "np.subtract": "-"}
            if f in binops and len(args) == 2 and not e.keywords:
                return f"({self.expr(args[0], env)} {binops[f]} {self.expr(args[1], env)})"
            if f == "np.square" and len(args) == 1:
                return f"({self.expr(args[0], env)} ^ 2)"
            if f == "np.negative" and len(args) == 1:
                return f"(-{self.expr(args[0], env)})"
            if f == "np.where" and len(args) == 3:
                return f"(if {self.cond(args[0], env)} then {self.expr(args[1], env)} else {self.expr(args[2], env)})"
            if f == "len" and len(args) == 1 and isinstance(args[0], ast.Name):
                return self.param(args[0].id + "_len")
            if f in ("np.zeros", "np.zeros_like"):
                return _rat(0)
            if isinstance(e.func, ast.Attribute) and e.func.attr == "count" and isinstance(e.func.value, ast.Name) \
                    and len(args) == 1 and isinstance(args[0], ast.Constant) and isinstance(args[0].value, str) \
                    and len(args[0].value) == 1 and args[0].value.isalnum() and not e.keywords:
                return self.param(e.func.value.id + "_count_" + args[0].value)
            if f in ("math.ceil", "np.ceil") and len(args) == 1:
                return f"((({self.expr(args[0], env)}).ceil : Int) : Rat)"
            if f in ("math.floor", "np.floor") and len(args) == 1:
                return f"((({self.expr(args[0], env)}).floor : Int) : Rat)"
            if f == "int" and len(args) == 1:
                x = self.expr(args[0], env)
                return f"(if {x} < 0 then ((({x}).ceil : Int) : Rat) else ((({x}).floor : Int) : Rat))"
            if f == "float" and len(args) == 1:
                return self.expr(args[0], env)
            if isinstance(e.func, ast.Name) and e.func.id in self.callees and not e.keywords:
                # a call to another plain function of the same module is inlined: its parameters are renamed to
                # the caller's variables when the arguments are plain parameters, bound as locals otherwise
                callee = self.callees[e.func.id]
                names = [a.arg for a in callee.args.args]
                if len(args) > len(names):
                    raise Untranslatable("call " + ast.unparse(e))
                import copy
                body = copy.deepcopy(callee.body)
                ren, inner_env = {}, {}
                for nm, a in zip(names, args):
                    if isinstance(a, ast.Name) and a.id not in env:
                        ren[nm] = a.id
                    else:
                        inner_env[nm] = self.expr(a, env)

                class R(ast.NodeTransformer):
                    def visit_Name(self, node):
                        if node.id in ren:
                            return ast.copy_location(ast.Name(id=ren[node.id], ctx=node.ctx), node)
                        return node
                body = [R().visit(st) for st in body]
                return self.block(body, inner_env)
            raise Untranslatable("call " + ast.unparse(e))
        raise Untranslatable(ast.unparse(e))

    @staticmethod
    def _column(e):
        """`frame["col"]` -> the variable name `frame_col`"""
        if isinstance(e, ast.Subscript) and isinstance(e.value, ast.Name) and isinstance(e.slice, ast.Constant) \
                and isinstance(e.slice.value, str) and e.slice.value.isidentifier():
            return e.value.id + "_" + e.slice.value
        return None

    def _boolish(self, e, env=None):
        """an expression over Boolean parameters / opaque Boolean sub-expressions / locals holding a mask"""
        env = env or {}
        if ast.unparse(e) in self.opaque:
            return True
        if isinstance(e, ast.Name):
            return env[e.id].startswith("MASK:") if e.id in env else e.id in self.bools
        if isinstance(e, ast.Attribute) and e.attr == "values":
            return self._boolish(e.value, env)
        if isinstance(e, ast.BinOp) and isinstance(e.op, (ast.BitOr, ast.BitAnd)):
            return self._boolish(e.left, env) and self._boolish(e.right, env)
        if isinstance(e, ast.UnaryOp) and isinstance(e.op, ast.Invert):
            return self._boolish(e.operand, env)
        return False

    def cond(self, e, env):
        if ast.unparse(e) in self.opaque:
            return f"({self.param(self.opaque[ast.unparse(e)])} = true)"
        if isinstance(e, ast.Attribute) and e.attr == "values" and self._boolish(e.value, env):
            return self.cond(e.value, env)
        if isinstance(e, ast.BinOp) and isinstance(e.op, (ast.BitOr, ast.BitAnd)) and self._boolish(e, env):
            op = " ∨ " if isinstance(e.op, ast.BitOr) else " ∧ "
            return "(" + self.cond(e.left, env) + op + self.cond(e.right, env) + ")"
        if isinstance(e, ast.UnaryOp) and isinstance(e.op, ast.Invert) and self._boolish(e.operand, env):
            return f"(¬ {self.cond(e.operand, env)})"
        if isinstance(e, ast.Name) and e.id not in env and e.id in self.bools:
            return f"({self.param(e.id)} = true)"
        if isinstance(e, ast.BoolOp):
            op = " ∧ " if isinstance(e.op, ast.And) else " ∨ "
            return "(" + op.join(self.cond(v, env) for v in e.values) + ")"
        if isinstance(e, ast.UnaryOp) and isinstance(e.op, ast.Not):
            return f"(¬ {self.cond(e.operand, env)})"
        if isinstance(e, ast.Compare):
            parts = []
            left = e.left
            for op, right in zip(e.ops, e.comparators):
                if isinstance(op, (ast.Is, ast.IsNot)) and isinstance(right, ast.Constant) and right.value is None \
                        and isinstance(left, ast.Name):
                    if left.id in self.given:
                        parts.append("False" if isinstance(op, ast.Is) else "True")
                    elif left.id in self.absent:
                        parts.append("True" if isinstance(op, ast.Is) else "False")
                    else:
                        raise Untranslatable(f"None-test of `{left.id}` not resolved by given/absent")
                else:
                    sym = {ast.Lt: "<", ast.LtE: "≤", ast.Gt: ">", ast.GtE: "≥", ast.Eq: "=", ast.NotEq: "≠"}.get(type(op))
                    if sym is None:
                        raise Untranslatable(ast.unparse(e))
                    parts.append(f"{self.expr(left, env)} {sym} {self.expr(right, env)}")
                left = right
            if len(parts) == 1 and parts[0] in ("True", "False"):
                return parts[0]
            return "(" + " ∧ ".join(parts) + ")"
        if isinstance(e, ast.Name):
            if e.id in env:
                if env[e.id].startswith("MASK:"):
                    return env[e.id][5:]
                if env[e.id] in ("True", "False"):
                    return env[e.id]
            elif e.id in self.absent:
                return "False"
            return f"({self.expr(e, env)} ≠ 0)"   # truthiness of a number
        if isinstance(e, ast.Constant) and isinstance(e.value, bool):
            return "True" if e.value else "False"
        raise Untranslatable("condition " + ast.unparse(e))

    # -- statements ------------------------------------------------------------------------------
    @staticmethod
    def _only_raises(stmts):
        return bool(stmts) and all(isinstance(s, (ast.Raise, ast.Expr)) for s in stmts) and any(
            isinstance(s, ast.Raise) for s in stmts)

    def _masked_target(self, t, env):
        """assignment targets of the table-updating functions: `frame["col"]` -> (frame_col, None);
        `frame[mask, "col"]` -> (frame_col, mask); `arr[mask]` with a Boolean mask -> (arr, mask)"""
        col = self._column(t)
        if col is not None:
            return col, None
        if isinstance(t, ast.Subscript) and isinstance(t.value, ast.Name):
            sl = t.slice
            if isinstance(sl, ast.Tuple) and len(sl.elts) == 2 and isinstance(sl.elts[1], ast.Constant) \
                    and isinstance(sl.elts[1].value, str) and sl.elts[1].value.isidentifier():
                return t.value.id + "_" + sl.elts[1].value, self.cond(sl.elts[0], env)
            if isinstance(sl, ast.Name) and env.get(sl.id, "").startswith("MASK:"):
                return t.value.id, env[sl.id][5:]
            if self._boolish(sl, env):
                return t.value.id, self.cond(sl, env)
        return None

    def block(self, stmts, env):
        if not stmts:
            if self.result is not None:
                return env[self.result] if self.result in env else self.param(self.result)
            raise Untranslatable("function falls off its end without a return")
        s, rest = stmts[0], stmts[1:]
        if isinstance(s, ast.Expr) and isinstance(s.value, ast.Constant):
            return self.block(rest, env)  # docstring
        if isinstance(s, ast.Assert):
            return self.block(rest, env)
        if isinstance(s, ast.Return):
            if s.value is None or (isinstance(s.value, ast.Constant) and s.value.value is None):
                if self.result is None:
                    raise Untranslatable("bare return")
                return env[self.result] if self.result in env else self.param(self.result)
            if isinstance(s.value, ast.Tuple):
                if self.arity not in (None, len(s.value.elts)):
                    raise Untranslatable("returns of different lengths")
                self.arity = len(s.value.elts)
                return "(" + ", ".join(self.expr(v, env) for v in s.value.elts) + ")"
            if self.arity is not None:
                raise Untranslatable("returns of different lengths")
            return self.expr(s.value, env)
        if isinstance(s, ast.Raise):
            if self.default_on_raise is None:
                raise Untranslatable("raise reached and no default_on_raise")
            return self.default_on_raise
        if isinstance(s, ast.Assign) and len(s.targets) == 1:
            t = s.targets[0]
            if isinstance(t, ast.Name):
                # a mask (comparison) assigned to a name is kept as a condition
                if isinstance(s.value, ast.Compare) or self._boolish(s.value, env):
                    env = dict(env)
                    env[t.id] = "MASK:" + self.cond(s.value, env)
                    return self.block(rest, env)
                env = dict(env)
                env[t.id] = self.expr(s.value, env)
                return self.block(rest, env)
            upd = self._masked_target(t, env)
            if upd is not None:
                var, mask = upd
                env = dict(env)
                new = self.expr(s.value, env)
                if mask is None:
                    env[var] = new
                else:
                    cur = env[var] if var in env else self.param(var)
                    env[var] = f"(if {mask} then {new} else {cur})"
                return self.block(rest, env)
            raise Untranslatable("assignment to " + ast.unparse(t))
        if isinstance(s, ast.AugAssign):
            op = {ast.Add: "+", ast.Sub: "-", ast.Mult: "*", ast.Div: "/"}.get(type(s.op))
            if op is None:
                raise Untranslatable(ast.unparse(s))
            t = s.target
            if isinstance(t, ast.Name):
                env = dict(env)
                env[t.id] = f"({self.expr(t, env)} {op} {self.expr(s.value, env)})"
                return self.block(rest, env)
            if isinstance(t, ast.Subscript) and isinstance(t.value, ast.Name) and isinstance(t.slice, ast.Name):
                mask = env.get(t.slice.id, "")
                if not mask.startswith("MASK:"):
                    raise Untranslatable("masked update with a mask that is not a comparison: " + ast.unparse(s))
                env = dict(env)
                cur = self.expr(t.value, env)
                env[t.value.id] = f"(if {mask[5:]} then ({cur} {op} {self.expr(s.value, env)}) else {cur})"
                return self.block(rest, env)
            upd = self._masked_target(t, env)
            if upd is not None:
                var, mask = upd
                env = dict(env)
                cur = env[var] if var in env else self.param(var)
                new = f"({cur} {op} {self.expr(s.value, env)})"
                env[var] = new if mask is None else f"(if {mask} then {new} else {cur})"
                return self.block(rest, env)
            raise Untranslatable(ast.unparse(s))
        if isinstance(s, ast.If):
            if self._only_raises(s.body) and not s.orelse:
                return self.block(rest, env)  # guard: a precondition of the model
            c = self.cond(s.test, env)
            if c == "True":
                return self.block(list(s.body) + rest, env)
            if c == "False":
                return self.block(list(s.orelse) + rest, env)
            th = self.block(list(s.body) + rest, dict(env))
            el = self.block(list(s.orelse) + rest, dict(env))
            return f"(if {c} then {th} else {el})"
        raise Untranslatable(type(s).__name__ + ": " + ast.unparse(s)[:80])

    def translate(self, lean_name, comment=None):
        # parameters in signature order first (so that the Lean signature is stable), then discovered ones
        body = self.block(list(self.fn.body), {})
        if "MASK:" in body:
            raise Untranslatable("a mask escaped into an arithmetic position")
        sig = [self.rename.get(a.arg, a.arg) for a in self.fn.args.args]
        ordered = [p for p in sig if p in self.params] + [p for p in self.params if p not in sig]
        if self.fixed_params is not None:
            # the signature is fixed by the extractor (order of first use in the source must not matter); a variable
            # the source uses beyond it makes the definition ill-formed, which the check reports
            extra = [p for p in ordered if p not in self.fixed_params]
            if extra:
                raise Untranslatable("the source reads variables outside the fixed signature: " + ", ".join(extra))
            ordered = list(self.fixed_params)
        # `2 ** x` parameters replace x itself when x is not otherwise used
        ps = " ".join(ordered)
        if self.bools or self.arity:
            bs = [p for p in ordered if p in self.bools]
            rs = [p for p in ordered if p not in self.bools]
            sigtxt = (f" ({' '.join(bs)} : Bool)" if bs else "") + (f" ({' '.join(rs)} : Rat)" if rs else "")
            typ = " × ".join(["Rat"] * (self.arity or 1))
            head = f"def {lean_name}{sigtxt} : {typ} :=\n  {body}"
        else:
            head = f"def {lean_name} ({ps} : Rat) : Rat :=\n  {body}" if ordered else f"def {lean_name} : Rat :=\n  {body}"
        doc = f"/-- {comment} -/\n" if comment else ""
        return doc + head, ordered


def emit(repo, o, specs):
    """translate each (file, function, lean name, Fn kwargs, comment); a function outside the subset leaves a
    comment instead of a definition, so that only the theorems about THAT function stop checking"""
    import os
    from .translate import parse, find_func
    for path, fname, lean, kw, comment in specs:
        try:
            tree, _src = parse(os.path.join(repo, path))
            fn = find_func(tree, fname)
            callees = {n.name: n for n in tree.body if isinstance(n, ast.FunctionDef) and n.name != fname}
            text, params = Fn(fn, callees=callees, **kw).translate(lean, comment)
        except (Untranslatable, KeyError, OSError, SyntaxError) as e:
            o.lines.append(f"-- NOT TRANSLATED: {path}:{fname}: {type(e).__name__}: {str(e)[:200]}".replace("\n", " "))
            o.info[lean] = {"error": str(e)[:200]}
            continue
        o.lines.append(text)
        o.info[lean] = {"params": params}
