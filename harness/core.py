"""Shared machinery for every property check (see DESIGN.md section 2).

translate -> build -> audit -> correspondence (real code vs Lean model + Lean spec oracle on the
real output) -> verdict -> evidence.
"""
from __future__ import annotations

import fcntl
import hashlib
import importlib
import json
import os
import random
import re
import subprocess
import sys
import time
import traceback
from concurrent.futures import ProcessPoolExecutor
from fractions import Fraction

sys.set_int_max_str_digits(0)  # exact rationals from the Lean driver can have thousands of digits

ROOT = os.path.dirname(os.path.dirname(os.path.abspath(__file__)))
LEAN_DIR = os.path.join(ROOT, "lean")
REPO = os.environ.get("VERIF_REPO", "/repo")
# evidence is only (re)written by runs against /repo itself; development runs against a scratch
# worktree (VERIF_REPO=...) or with a private driver (VERIF_MAIN=...) write elsewhere
EVID_DIR = os.path.join(ROOT, "evidence" if (REPO == "/repo" and not os.environ.get("VERIF_MAIN")) else ".dev-evidence")
REPLAY_DIR = os.path.join(ROOT, "replays")
FINDINGS = os.path.join(ROOT, "known_findings.json")
THEOREMS = os.path.join(LEAN_DIR, "theorems.json")
ALLOWED_AXIOMS = {"propext", "Classical.choice", "Quot.sound"}
FORBIDDEN = re.compile(
    r"\bsorry\b|\badmit\b|^\s*axiom\s|native_decide|bv_decide|implemented_by|\bunsafe\s|maxHeartbeats\s+0\b",
    re.M,
)
TRUSTED_BASE = [
    "Lean 4.33.0 kernel",
    "axioms allowed: propext, Classical.choice, Quot.sound (audited with #print axioms on every registered theorem)",
    "Mathlib v4.33.0 modules imported by Props/Lemmas files",
    "Lean interpreter running Main.lean (lake env lean --run) and Lean.Data.Json",
    "harness/translate.py (Python ast) regenerating CnvVerif/Generated/*.lean from /repo (constants, tables, regexes, RNG skeletons)",
            "harness/exprtrans.py: the reading of the Python subset in which the pure arithmetic functions are written (Generated/Exprs*.lean; rules listed at the top of the file)",
    "harness correspondence: generators, adapters to the real cnvlib/skgenome code, canonicaliser, comparator (float tolerance 1e-9, knife-edge rule)",
    "modelled, not verified: CPython, pandas/numpy semantics, IEEE-754 rounding, third-party scipy/pysam/pomegranate",
]


class Infra(Exception):
    """Infrastructure failure: exit 2, never a VIOLATION."""


# ---------------------------------------------------------------------------------------------
# helpers used by property modules


def frac(x) -> str:
    """exact rational string of a Python int/float/Fraction"""
    if isinstance(x, str):
        return x
    f = Fraction(x)
    return str(f.numerator) if f.denominator == 1 else f"{f.numerator}/{f.denominator}"


def unfrac(s) -> Fraction:
    if s is None:
        return None
    return Fraction(s)


def close(a: float, q, tol=1e-9) -> bool:
    """impl float `a` equals exact model value q up to relative/absolute tolerance"""
    if q is None or a is None:
        return q is None and (a is None)
    qf = float(Fraction(q))
    return abs(a - qf) <= tol * max(1.0, abs(qf))


def setup_repo_path():
    """make sure `import cnvlib` / `import skgenome` resolve to the working tree under test"""
    if REPO not in sys.path:
        sys.path.insert(0, REPO)
    os.environ.setdefault("CNVKIT_VERIF", "1")
    import warnings, logging

    warnings.simplefilter("ignore")
    logging.disable(logging.CRITICAL)


# ---------------------------------------------------------------------------------------------
# translate / build / audit


def run(cmd, cwd=None, timeout=3600, inp=None):
    """subprocess.run, but on timeout the whole process group dies (`lake env lean --run` is lake -> lean: killing
    only lake would leave the interpreter running)"""
    import signal
    p = subprocess.Popen(cmd, cwd=cwd, stdin=subprocess.PIPE if inp is not None else None, stdout=subprocess.PIPE,
                         stderr=subprocess.PIPE, text=True, start_new_session=True)
    _LIVE.add(p.pid)
    try:
        out, err = p.communicate(inp, timeout=timeout)
    except subprocess.TimeoutExpired:
        try:
            os.killpg(p.pid, signal.SIGKILL)
        except ProcessLookupError:
            pass
        p.communicate()
        raise
    finally:
        _LIVE.discard(p.pid)
    return subprocess.CompletedProcess(cmd, p.returncode, out, err)


_LIVE = set()  # process groups started by run() that are still alive (killed by shutdown_pool)


class BuildLock:
    def __enter__(self):
        os.makedirs(os.path.join(LEAN_DIR, ".lake"), exist_ok=True)
        self.f = open(os.path.join(LEAN_DIR, ".lake", "verif.lock"), "w")
        fcntl.flock(self.f, fcntl.LOCK_EX)
        return self

    def __exit__(self, *a):
        fcntl.flock(self.f, fcntl.LOCK_UN)
        self.f.close()


def translate():
    """regenerate lean/CnvVerif/Generated/*.lean from REPO; returns dict of info"""
    from . import translate as tr

    return tr.regenerate(REPO, os.path.join(LEAN_DIR, "CnvVerif", "Generated"))


def lake_build(targets, timeout=3000):
    with BuildLock():
        r = run(["lake", "build"] + list(targets), cwd=LEAN_DIR, timeout=timeout)
    return r.returncode == 0, (r.stdout + r.stderr)


def strip_comments(src: str) -> str:
    src = re.sub(r"/-.*?-/", "", src, flags=re.S)
    src = re.sub(r"--.*", "", src)
    return src


def _module_path(mod):
    return os.path.join(LEAN_DIR, *mod.split(".")) + ".lean"


def reachable_files(prop=None):
    """Lean files of this project imported (transitively) by the driver, the model root and every
    registered theorem module.  Work-in-progress files that nothing registered imports are not part
    of the deliverable and are not audited (they are not built by any check either)."""
    reg = json.load(open(THEOREMS))
    roots = ["CnvVerif", "Main"]
    for k, v in reg.items():
        if prop is None or k == prop:
            roots += v.get("modules") or []
    seen, todo = set(), list(roots)
    while todo:
        m = todo.pop()
        if m in seen:
            continue
        p = _module_path(m)
        if not os.path.exists(p):
            continue
        seen.add(m)
        for mm in re.findall(r"^\s*import\s+([A-Za-z0-9_.]+)", open(p).read(), re.M):
            if mm.startswith("CnvVerif") or mm == "Main":
                todo.append(mm)
    return sorted(_module_path(m) for m in seen)


def generated_deps(prop):
    """names of the Generated/*.lean files the property's registered theorem modules import (transitively)"""
    reg = json.load(open(THEOREMS))
    seen, todo = set(), list((reg.get(prop) or {}).get("modules") or [])
    while todo:
        m = todo.pop()
        if m in seen:
            continue
        p = _module_path(m)
        if not os.path.exists(p):
            continue
        seen.add(m)
        for mm in re.findall(r"^\s*import\s+([A-Za-z0-9_.]+)", open(p).read(), re.M):
            if mm.startswith("CnvVerif"):
                todo.append(mm)
    return sorted(m.split(".")[-1] + ".lean" for m in seen if m.startswith("CnvVerif.Generated."))


def grep_forbidden(prop=None):
    hits = []
    for p in reachable_files(prop):
        body = strip_comments(open(p).read())
        for m in FORBIDDEN.finditer(body):
            hits.append((os.path.relpath(p, LEAN_DIR), m.group(0).strip()))
    return hits


def theorems_for(prop):
    reg = json.load(open(THEOREMS))
    return reg.get(prop, {"module": None, "theorems": []})


def audit(prop):
    """returns (obligations, discharged, details, ok_build, log)"""
    reg = theorems_for(prop)
    mods = reg.get("modules") or ([reg["module"]] if reg.get("module") else [])
    names = reg["theorems"]
    if not mods:
        return 0, 0, {}, True, ""
    ok, log = lake_build(mods)
    bad_mods = []
    if not ok:
        # find out which of the property's theorem modules still build: their theorems remain discharged, and the
        # replay names exactly the obligations that no longer check
        good = []
        for m in mods:
            okm, _l = lake_build([m])
            (good if okm else bad_mods).append(m)
        if not good:
            return len(names), 0, {n: "module does not build" for n in names}, False, log
        mods = good
    src = "".join(f"import {m}\n" for m in mods) + "".join(
        f"#print axioms {n}\n" for n in names
    )
    os.makedirs(os.path.join(LEAN_DIR, ".lake", "audit"), exist_ok=True)
    path = os.path.join(LEAN_DIR, ".lake", "audit", f"Audit_{prop}_{os.getpid()}.lean")
    open(path, "w").write(src)
    try:
        r = run(["lake", "env", "lean", path], cwd=LEAN_DIR, timeout=1800)
    finally:
        os.unlink(path)
    out = r.stdout + r.stderr
    details = {}
    # parse: "'name' depends on axioms: [a, b]"  /  "'name' does not depend on any axioms"
    for m in re.finditer(
        r"'([^']+)' (does not depend on any axioms|depends on axioms: \[([^\]]*)\])", out
    ):
        nm = m.group(1)
        axs = [a.strip() for a in (m.group(3) or "").replace("\n", " ").split(",") if a.strip()]
        details[nm] = axs
    discharged = 0
    res = {}
    for n in names:
        if n not in details:
            res[n] = ("module does not build (one of " + ", ".join(bad_mods) + ")") if bad_mods else "missing: " + out[-300:]
        elif set(details[n]) - ALLOWED_AXIOMS:
            res[n] = "forbidden axioms: " + ",".join(sorted(set(details[n]) - ALLOWED_AXIOMS))
        else:
            res[n] = "ok: " + (",".join(details[n]) or "no axioms")
            discharged += 1
    return len(names), discharged, res, not bad_mods, (log if bad_mods else out)


def leanchecker(prop):
    reg = theorems_for(prop)
    mods = reg.get("modules") or ([reg["module"]] if reg.get("module") else [])
    if not mods:
        return True, ""
    r = run(["lake", "env", "leanchecker"] + mods, cwd=LEAN_DIR, timeout=3000)
    return r.returncode == 0, (r.stdout + r.stderr)[-2000:]


# ---------------------------------------------------------------------------------------------
# Lean driver


LEAN_SHARD_TIMEOUT = int(os.environ.get("VERIF_LEAN_TIMEOUT", "240"))


def _lean_driver_one(lines, timeout, limit=None):
    """one interpreter run over `lines`.  A run that exceeds the time limit is bisected: a single line on
    which the model does not terminate in time is answered with an error object (which every judge treats as
    a model/implementation disagreement), so a pathological input cannot hang the check.  Each level of the
    bisection gets half of the previous limit (not below 60 s): a healthy shard takes seconds, so the search for
    the offending line costs ten minutes, not forty."""
    limit = LEAN_SHARD_TIMEOUT if limit is None else limit
    inp = "\n".join(json.dumps(l, separators=(",", ":")) for l in lines) + "\n"
    main = os.environ.get("VERIF_MAIN", "Main.lean")  # development: a private driver file
    try:
        r = run(["lake", "env", "lean", "--run", main], cwd=LEAN_DIR, timeout=min(timeout, limit), inp=inp)
    except subprocess.TimeoutExpired:
        if len(lines) == 1:
            return [{"error": f"model evaluation exceeded {int(limit)} s on this input"}]
        mid = len(lines) // 2
        sub = max(60, limit / 2)
        return _lean_driver_one(lines[:mid], timeout, sub) + _lean_driver_one(lines[mid:], timeout, sub)
    outs = [l for l in r.stdout.split("\n") if l.strip()]
    if r.returncode != 0 or len(outs) != len(lines):
        raise Infra(
            f"lean driver failed rc={r.returncode} got {len(outs)}/{len(lines)} lines: {r.stderr[-2000:]}"
        )
    return [json.loads(o) for o in outs]


def lean_driver(lines, timeout=3000):
    """feed JSON lines to the Lean model driver, return parsed responses (the interpreter is
    single-threaded: large batches are split into contiguous shards evaluated concurrently)"""
    if not lines:
        return []
    size = sum(len(json.dumps(l)) for l in lines[:50]) / max(1, min(50, len(lines)))
    shards = 1
    if len(lines) >= 16 and (len(lines) >= 400 or size > 5000):
        shards = min(8, max(2, len(lines) // 8))
    if shards == 1:
        return _lean_driver_one(lines, timeout)
    from concurrent.futures import ThreadPoolExecutor
    n = len(lines)
    bounds = [(n * k // shards, n * (k + 1) // shards) for k in range(shards)]
    with ThreadPoolExecutor(shards) as ex:
        parts = list(ex.map(lambda b: _lean_driver_one(lines[b[0]:b[1]], timeout) if b[1] > b[0] else [], bounds))
    return [r for part in parts for r in part]


# ---------------------------------------------------------------------------------------------
# running the real code


def _impl_worker(args):
    modname, case = args
    setup_repo_path()
    mod = importlib.import_module(modname)
    try:
        return mod.run_impl(case)
    except BaseException as e:  # the real code raised: report kind, the model decides if expected
        return {"__error__": type(e).__name__, "msg": str(e)[:300],
                "tb": traceback.format_exc()[-1500:]}


_POOL = None


def run_impl_all(modname, cases, workers=None):
    workers = workers or min(16, os.cpu_count() or 4)
    if len(cases) < 8:
        return [_impl_worker((modname, c)) for c in cases]
    global _POOL
    if _POOL is None:
        _POOL = ProcessPoolExecutor(workers)
    chunk = max(1, len(cases) // (workers * 8))
    return list(_POOL.map(_impl_worker, [(modname, c) for c in cases], chunksize=chunk))


def shutdown_pool():
    """kill the worker processes (they would otherwise outlive os._exit and hold stdout open)"""
    global _POOL
    import signal
    for pid in list(_LIVE):
        try:
            os.killpg(pid, signal.SIGKILL)
        except Exception:
            pass
    if _POOL is not None:
        procs = list(getattr(_POOL, "_processes", {}).values())
        try:
            _POOL.shutdown(wait=False, cancel_futures=True)
        except Exception:
            pass
        for p in procs:
            try:
                p.kill()
            except Exception:
                pass
        _POOL = None


# ---------------------------------------------------------------------------------------------
# findings


def load_findings(prop):
    if not os.path.exists(FINDINGS):
        return []
    data = json.load(open(FINDINGS))
    return [f for f in data.get("findings", []) if f["property"] == prop]


# ---------------------------------------------------------------------------------------------
# the check itself


class Result:
    def __init__(self, case, impl, resp, spec_fail, disagree, skipped=None):
        self.case, self.impl, self.resp = case, impl, resp
        self.spec_fail = spec_fail  # list of clause names the real output violates
        self.disagree = disagree  # list of strings: model/impl mismatch descriptions
        self.skipped = skipped


def evaluate(mod, cases):
    """run real code + model on the cases; returns list[Result]"""
    impls = run_impl_all(mod.__name__, cases)
    lines = [mod.to_line(c, i) for c, i in zip(cases, impls)]
    resps = lean_driver(lines)
    out = []
    for c, i, r in zip(cases, impls, resps):
        if "error" in r and r.get("error", "").startswith(("parse", "unknown op")):
            raise Infra(f"driver protocol error: {r} for {json.dumps(c)[:300]}")
        spec_fail, disagree, skipped = mod.judge(c, i, r)
        out.append(Result(c, i, r, spec_fail, disagree, skipped))
    return out


def case_hash(case):
    return hashlib.sha1(json.dumps(case, sort_keys=True).encode()).hexdigest()[:12]


def shrink_case(mod, case, clause):
    """greedy delta-debugging on the real code with the Lean oracle"""
    if not hasattr(mod, "shrink"):
        return case
    cur = case
    budget = 40
    improved = True
    while improved and budget > 0:
        improved = False
        cands = list(mod.shrink(cur))[:60]
        if not cands:
            break
        budget -= 1
        try:
            res = evaluate(mod, cands)
        except Infra:
            break
        for r in res:
            if clause in r.spec_fail:
                cur = r.case
                improved = True
                break
    return cur


def write_replay(prop, kind, clause, result, extra=None):
    os.makedirs(REPLAY_DIR, exist_ok=True)
    h = case_hash(result.case) if result is not None else hashlib.sha1(
        json.dumps(extra, sort_keys=True, default=str).encode()).hexdigest()[:12]
    path = os.path.join(REPLAY_DIR, f"{prop}-{clause[:40].replace('/', '_')}-{h}.json")
    doc = {
        "property": prop,
        "kind": kind,
        "clause": clause,
        "replay_cmd": f"./check {prop} --replay {os.path.relpath(path, ROOT)}",
    }
    if result is not None:
        doc.update(case=result.case, impl_output=result.impl, model_response=result.resp,
                   disagreements=result.disagree, spec_failures=result.spec_fail)
    if extra:
        doc.update(extra)
    json.dump(doc, open(path, "w"), indent=1, default=str)
    return os.path.relpath(path, ROOT)


def run_check(prop, tier, seed, replay=None):
    t0 = time.time()
    if not os.path.isdir(os.path.join(REPO, "cnvlib")):
        raise Infra(f"VERIF_REPO={REPO} is not a cnvkit source tree")
    setup_repo_path()
    mod = importlib.import_module(f"harness.props.{prop}")
    violations = []  # (clause, replay_path, suffix)
    known_lines = []
    notes = {}

    # 1. translate
    try:
        tinfo = translate()
    except Exception as e:  # translator could not read the source: treated as a broken tie
        tinfo = {"error": f"{type(e).__name__}: {e}"}
    notes["translate"] = tinfo

    # 2. build model + driver (needed by everything)
    ok, log = lake_build(["CnvVerif", "Main"])
    model_broken = None
    fallback_note = None
    if not ok:
        if tinfo.get("changed") or tinfo.get("error"):
            # the regenerated constants/tables no longer fit the model: a proof obligation is broken.  Fall back to
            # the committed baseline of the generated files so that the driver and the Lean spec oracle can still
            # be run on the real code to look for a concrete failing input.
            from . import translate as tr
            restored = tr.restore_baseline(os.path.join(LEAN_DIR, "CnvVerif", "Generated"))
            ok2, log2 = lake_build(["CnvVerif", "Main"])
            if ok2:
                fallback_note = {"generated_model_does_not_build": log[-1500:], "restored_baseline_files": restored}
            else:
                model_broken = log[-3000:]
        else:
            raise Infra("lake build of the model failed:\n" + log[-3000:])
    notes["generated_fallback"] = fallback_note

    # 3. audit
    hits = grep_forbidden(prop)
    if hits:
        raise Infra(f"forbidden constructs in Lean sources: {hits}")
    if model_broken is None:
        n_obl, n_dis, adetails, build_ok, alog = audit(prop)
    else:
        n_obl, n_dis, adetails, build_ok, alog = (len(theorems_for(prop)["theorems"]), 0, {}, False, model_broken)
    # the regenerated model did not build and the committed baseline was restored: that breaks THIS property's
    # obligations only if its theorems depend on one of the generated files that changed
    fallback_hits = []
    if fallback_note is not None:
        deps = set(generated_deps(prop))
        fallback_hits = sorted(deps & set(tinfo.get("changed_files") or []))
        fallback_note["generated_files_this_property_depends_on"] = fallback_hits
    proof_broken = (n_dis != n_obl) or not build_ok or bool(fallback_hits)
    if proof_broken and not (tinfo.get("changed") or tinfo.get("error")):
        # proofs are broken although the generated files are what was committed: framework bug
        raise Infra("registered theorems do not check on unchanged Generated files:\n"
                    + json.dumps(adetails, indent=1)[:3000] + alog[-3000:])
    checker_note = None
    if tier == "thorough" and not proof_broken:
        okc, clog = leanchecker(prop)
        checker_note = "leanchecker ok" if okc else "leanchecker FAILED: " + clog
        if not okc:
            raise Infra(checker_note)

    if replay:
        doc = json.load(open(replay if os.path.isabs(replay) else os.path.join(ROOT, replay)))
        if "case" not in doc:
            print(f"replay file names a broken obligation, no input: {doc.get('clause')}")
            return 1 if proof_broken else 0
        res = evaluate(mod, [doc["case"]])[0]
        print(json.dumps({"impl": res.impl, "model": res.resp, "spec_fail": res.spec_fail,
                          "disagree": res.disagree}, indent=1, default=str)[:6000])
        if res.spec_fail or res.disagree:
            print(f"VIOLATION property={prop} replay={replay}")
            return 1
        print("replay: property holds on this input now")
        return 0

    # 4. correspondence
    rng = random.Random(seed * 7919 + (1 if tier == "thorough" else 0))
    findings = load_findings(prop)
    open_findings = [f for f in findings if f["status"] == "open"]
    cases = []
    if model_broken is None:
        cases = mod.corpus() if hasattr(mod, "corpus") else []
        for f in findings:
            if "witness" in f:
                w = dict(f["witness"])
                w["_finding"] = f["id"]
                cases.append(w)
        cases += mod.gen_cases(rng, tier)
        results = evaluate(mod, cases)
    else:
        results = []

    spec_bad = [r for r in results if r.spec_fail]
    disagree = [r for r in results if r.disagree and not r.spec_fail]
    skipped = [r for r in results if r.skipped]

    def matches_open(r):
        for f in open_findings:
            fn = getattr(mod, "classify_" + f["classifier"], None)
            if fn and any(c == f["clause"] for c in r.spec_fail) and fn(r.case, r.impl, r.resp):
                return f
        return None

    seen_known = {}
    real_bad = []
    for r in spec_bad:
        f = matches_open(r)
        if f is not None and set(r.spec_fail) <= {g["clause"] for g in open_findings
                                                  if getattr(mod, "classify_" + g["classifier"])(r.case, r.impl, r.resp)}:
            seen_known.setdefault(f["id"], f)
        else:
            real_bad.append(r)
    for f in open_findings:
        if f["id"] in seen_known:
            known_lines.append(f"KNOWN-FINDING: property={prop} {f['what']}")
        else:
            notes.setdefault("open_findings_not_reproduced", []).append(f["id"])

    search_info = None
    if (disagree or proof_broken) and not real_bad:
        # the tie or a proof obligation broke: search the real code for a failing input
        extra = mod.gen_cases(random.Random(seed + 10007), "search") if model_broken is None else []
        sres = evaluate(mod, extra) if extra else []
        for r in sres:
            if r.spec_fail and not matches_open(r):
                real_bad.append(r)
        search_info = {"searched": len(extra), "found": len(real_bad)}
        results += sres

    by_clause = {}
    for r in real_bad:
        for c in r.spec_fail:
            by_clause.setdefault(c, []).append(r)
    for clause, rs in list(by_clause.items())[:6]:
        rs.sort(key=lambda r: len(json.dumps(r.case)))
        small = shrink_case(mod, rs[0].case, clause)
        if small is not rs[0].case:
            rr = evaluate(mod, [small])[0]
            if clause not in rr.spec_fail:
                rr = rs[0]
        else:
            rr = rs[0]
        path = write_replay(prop, "property-fails-on-real-code", clause, rr)
        violations.append((clause, path, ""))

    if not real_bad:
        if disagree:
            disagree.sort(key=lambda r: len(json.dumps(r.case)))
            path = write_replay(prop, "correspondence-broken", "model-vs-impl", disagree[0],
                                {"n_disagreeing_cases": len(disagree), "search": search_info})
            violations.append(("correspondence", path, " no-failing-input-found"))
        elif proof_broken:
            path = write_replay(prop, "proof-obligation-broken", "theorems", None,
                                {"theorems": adetails, "log": alog[-3000:], "translate": tinfo,
                                 "search": search_info})
            violations.append(("proof", path, " no-failing-input-found"))

    # 5. evidence
    distinct = len({case_hash(r.case) for r in results if mod.nontrivial(r.case, r.impl, r.resp)})
    hist = {}
    for r in results:
        k = r.case.get("op", "?") + ":" + str(r.case.get("tag", ""))
        hist[k] = hist.get(k, 0) + 1
    errkinds = {}
    for r in results:
        if isinstance(r.impl, dict) and "__error__" in r.impl:
            errkinds[r.impl["__error__"]] = errkinds.get(r.impl["__error__"], 0) + 1
    samples = [{"case": r.case, "impl": r.impl, "model": r.resp.get("out")}
               for r in results[:: max(1, len(results) // 3)][:3]]
    samples = json.loads(json.dumps(samples, default=str)[:200000]) if len(json.dumps(samples, default=str)) < 200000 else samples[:1]
    level = getattr(mod, "LEVEL", "proof")
    ev = {
        "property_id": prop,
        "tier": tier,
        "seed": seed,
        "level": level,
        "coverage": {
            "obligations": n_obl,
            "discharged": n_dis,
            "checker_cmd": f"lake build {' '.join(theorems_for(prop).get('modules') or [str(theorems_for(prop).get('module'))])} && lake env lean Audit.lean (#print axioms)"
                           + (" && lake env leanchecker" if tier == "thorough" else ""),
            "trusted_base": TRUSTED_BASE + list(getattr(mod, "TRUSTED_EXTRA", [])),
            "theorems": adetails,
            "evaluations": len(results),
            "distinct_nontrivial": distinct,
            "rule": getattr(mod, "RULE", ""),
            "samples": samples or [{"note": "no cases"}],
            "input_histogram": hist,
            "impl_error_kinds": errkinds,
            "knife_edge_skipped": len(skipped),
            "model_vs_impl_disagreements": len(disagree),
            "spec_failures_on_impl": len(spec_bad),
            "known_findings_reproduced": sorted(seen_known),
            "search": search_info,
            "leanchecker": checker_note,
            "translate": tinfo,
            "generated_fallback": fallback_note,
            "exhaustive": bool(getattr(mod, "EXHAUSTIVE", {}).get(tier, False)),
        },
        "assumptions": list(getattr(mod, "ASSUMPTIONS", [])),
        "wall_s": round(time.time() - t0, 2),
        "violations": len(violations),
    }
    os.makedirs(EVID_DIR, exist_ok=True)
    json.dump(ev, open(os.path.join(EVID_DIR, f"{prop}.json"), "w"), indent=1, default=str)

    for l in known_lines:
        print(l)
    print(f"[{prop}] tier={tier} seed={seed} obligations={n_dis}/{n_obl} cases={len(results)} "
          f"nontrivial={distinct} disagreements={len(disagree)} spec_failures={len(spec_bad)} "
          f"known={len(seen_known)} wall={ev['wall_s']}s")
    for clause, path, suffix in violations:
        print(f"VIOLATION property={prop} replay={path}{suffix}")
    return 1 if violations else 0
