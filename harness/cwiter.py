"""C19 round 5b: op "cw_iter" -- smoothing.convolve_weighted(window, signal, weights, n_iter) called DIRECTLY for
n_iter = 0..4 (the smoother `savgol` reaches n_iter > 1 only on short signals).  Besides the model comparison
(lean/CnvVerif/Model/SmoothIterExt5b.lean, theorems Props/C19Iter.lean) the real function with n_iter = k is compared
with k real calls with n_iter = 1, each fed the (y, w) of the one before: "pass k+1 is the one-pass map applied to the
result of k passes" (C19.convolve_weighted_pass_succ) on the real code."""
from __future__ import annotations

from fractions import Fraction

from .core import frac

WINDOWS = [
    [-2.0, 3.0, 6.0, 7.0, 6.0, 3.0, -2.0],            # 7-point cubic (x 1/21 after window /= window.sum())
    [-3.0, 12.0, 17.0, 12.0, -3.0],                   # 5-point quadratic (x 1/35)
    [1.0, 2.0, 1.0],
    [1.0, 1.0, 1.0, 1.0, 1.0],
    [-21.0, 14.0, 39.0, 54.0, 59.0, 54.0, 39.0, 14.0, -21.0],   # 9-point quadratic (x 1/231)
]


def gen_case(rng):
    win = list(rng.choice(WINDOWS))
    n = rng.randint(len(win), 40)
    kind = rng.choice(["const", "const", "dyadic", "dyadic", "float"])
    if kind == "const":
        x = [rng.randint(-64, 64) / 8] * n
    elif kind == "dyadic":
        x = [rng.randint(-64, 64) / 8 for _ in range(n)]
    else:
        x = [rng.uniform(-4, 4) for _ in range(n)]
    wkind = rng.choice(["equal", "mild", "mild", "wild", "zeros"])
    if wkind == "equal":
        w = [rng.choice([1.0, 0.5, 3.0])] * n
    elif wkind == "mild":
        w = [rng.choice([1.0, 1.5, 2.0, 0.75]) for _ in range(n)]
    elif wkind == "wild":
        w = [rng.choice([0.25, 1.0, 4.0, 16.0]) for _ in range(n)]
    else:
        w = [rng.choice([0.0, 1.0, 1.0, 2.0]) for _ in range(n)]
    k = rng.choice([0, 1, 2, 2, 3, 3, 4])
    i = {"name": "convolve_weighted", "x": x, "w": w, "window": win, "n_iter": k, "malformed": False,
         "exact": False}
    if rng.random() < 0.04:
        i["w"] = w + [1.0]
        i["malformed"] = True
    return {"op": "cw_iter", "tag": f"cw_iter-{kind}-{wkind}-k{k}" + ("-malformed" if i["malformed"] else ""), "in": i}


def gen_cases(rng, tier):
    return [gen_case(rng) for _ in range({"quick": 120, "thorough": 600, "search": 200}[tier])]


def _num(v):
    import math
    v = float(v)
    return v if math.isfinite(v) else None


def run_impl(case):
    import warnings

    import numpy as np
    from cnvlib import smoothing as S

    i = case["in"]
    x, w, win, k = (np.asarray(i["x"], dtype=float), np.asarray(i["w"], dtype=float),
                    np.asarray(i["window"], dtype=float), i["n_iter"])
    with warnings.catch_warnings():
        warnings.simplefilter("ignore")
        with np.errstate(all="ignore"):
            y, wo = S.convolve_weighted(win.copy(), x.copy(), w.copy(), k)
            cy, cw = x.copy(), w.copy()
            for _ in range(k):
                cy, cw = S.convolve_weighted(win.copy(), cy, cw, 1)
    return {"y": [_num(v) for v in y], "w": [_num(v) for v in wo],
            "chain_y": [_num(v) for v in cy], "chain_w": [_num(v) for v in cw]}


def to_line(case, impl):
    i = case["in"]
    line = {"op": "cw_iter", "in": {"name": i["name"], "window": [frac(v) for v in i["window"]],
                                    "y": [frac(v) for v in i["x"]], "w": [frac(v) for v in i["w"]],
                                    "n_iter": i["n_iter"]}}
    if not (isinstance(impl, dict) and "__error__" in impl):
        line["impl"] = {"y": [None if v is None else frac(v) for v in impl["y"]],
                        "w": [None if v is None else frac(v) for v in impl["w"]]}
    return line


def _close(x, q, mag, tol=1e-9):
    if x is None or q is None:
        return x is None and q is None
    qf = float(Fraction(q))
    return abs(x - qf) <= tol * max(1.0, abs(qf), mag)


def judge(case, impl, resp):
    i = case["in"]
    out = resp.get("out")
    model_err = out.get("error") if isinstance(out, dict) else None
    if isinstance(impl, dict) and "__error__" in impl:
        e = impl["__error__"]
        if i.get("malformed"):
            return [], ([] if model_err == e else [f"impl raises {e}, model gives {str(out)[:80]}"]), None
        return ["raises_" + e], [], None
    if "error" in resp:
        return [], ["model error: " + resp["error"]], None
    if model_err is not None:
        return [], [f"model raises {model_err}, impl returns a value"], None
    spec = list(resp.get("spec") or [])
    disagree = []
    slack = float(Fraction(resp.get("slack", "1")))
    ymag = max([abs(v) for v in i["x"]] + [1.0])
    wmag = max([abs(v) for v in i["w"]] + [1.0])
    # the division D/N loses relative accuracy ~ eps/slack: the tolerance follows the smallest window sum
    tol = 1e-9 / max(slack, 1e-3) if slack >= 1e-6 else None
    if len(impl["w"]) != len(out["w"]) or not all(_close(a, b, wmag) for a, b in zip(impl["w"], out["w"])):
        disagree.append("convolve_weighted: returned weights != iterated convolution of the model "
                        "(C19.convolve_weighted_weights)")
    if tol is not None:
        if len(impl["y"]) != len(out["y"]) or not all(_close(a, b, ymag, tol) for a, b in zip(impl["y"], out["y"])):
            disagree.append(f"convolve_weighted(n_iter={i['n_iter']}): impl y != model")
        # the loop against the chain of one-pass calls, on the real code
        if impl["chain_w"] != impl["w"] or not all(_close(a, None if b is None else Fraction(b), ymag, tol)
                                                  for a, b in zip(impl["y"], impl["chain_y"])):
            disagree.append(f"convolve_weighted(n_iter={i['n_iter']}) != {i['n_iter']} calls with n_iter=1 chained "
                            "(C19.convolve_weighted_pass_succ)")
    skipped = None
    if tol is None and not disagree:
        spec = [s for s in spec if s == "weights_are_iterated_convolution"]
        skipped = f"knife-edge (window sum / weight {slack:.2e})"
    return spec, disagree, skipped
