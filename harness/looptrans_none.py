"""Generator loop read IN THE STATE THE SOURCE INITIALISES IT TO (`x = y = z = None` before the loop), with Python's
`TypeError` on arithmetic with `None` as part of the term.  Companion of harness/looptrans.py (same subset, same
library reading); used for `cnvlib/access.py:get_regions`, whose loop-carried `chrom = cursor = run_start = None` make
every sequence line that precedes the first header raise.  looptrans.py reads the loop for states in which the
arithmetic variables are numbers (precondition); this module reads the SAME loop body for the one state that
precondition excludes, so that the two generated definitions together cover every state reachable from the
initialisation (Props/C13SrcNone.lean proves that, and that the hand model's explicit `throw` is this behaviour).

Reading rules added here (trusted, on top of those of looptrans.py)
* the statements immediately before the loop, in the loop's own block, must be plain assignments (chained targets
  allowed, in any grouping / order) that give EVERY declared loop-carried variable the constant `None`; anything else
  is `Untranslatable` (the definitions are replaced by a comment plus a step that always fails with "NOT TRANSLATED",
  so that the driver still builds and exactly the theorems about them stop checking);
* a variable known to be `None` may be copied (`a = b`) and tested (`is None` / `is not None`, decided statically);
  as an operand of `+` / `-` (also through `+=`, broadcast with a vector, or inside the argument of an inlined helper)
  it raises: the statement becomes `.error "TypeError"` and nothing after it is read.  A `yield` before such a raise on
  the same path, a `None` inside a yielded tuple, or `None` in a comparison are outside the subset (`Untranslatable`);
* every `if` continues with the rest of the body in both branches; the step returns
  `Except String (yielded values × state)`, each state component an `Option` (`none` = still `None`).
"""
from __future__ import annotations

import ast
import os

from .exprtrans import Untranslatable
from .looptrans import Loop, lname, _is_none, find_loop


class PyTypeError(Exception):
    pass


class NoneLoop(Loop):
    def expr(self, e, env, want=None):
        if isinstance(e, ast.Name) and e.id in env and env[e.id][1] == "None":
            return "none", "None"
        if isinstance(e, ast.BinOp) and isinstance(e.op, (ast.Add, ast.Sub)):
            for side in (e.left, e.right):
                if not isinstance(side, ast.Constant) and self.expr(side, env)[1] == "None":
                    raise PyTypeError(ast.unparse(e))
        if isinstance(e, ast.Compare):
            raise Untranslatable("comparison in value position " + ast.unparse(e))
        return super().expr(e, env, want)

    def cond(self, e, env):
        for n in ast.walk(e):
            if isinstance(n, ast.Name) and n.id in env and env[n.id][1] == "None":
                raise Untranslatable("`None` in a condition: " + ast.unparse(e))
        return super().cond(e, env)

    def leaf(self, env, outs, mode):
        if mode == "final":
            return f"(.ok ({self.outs_join(outs)}))"
        parts = []
        for name, ty in self.state:
            t, cur = env[name]
            base = ty[len("Option "):] if ty.startswith("Option ") else ty
            if cur == "None":
                parts.append("none")
            elif cur == base:
                parts.append(f"some {t}")
            elif cur == "Option " + base:
                parts.append(t)
            else:
                raise Untranslatable(f"state variable {name} has type {cur}, declared {ty}")
        return f"(.ok ({self.outs_join(outs)}, ({', '.join(parts)})))"

    def _raise(self, outs):
        if outs:
            raise Untranslatable("a value is yielded before the TypeError on the same path")
        return '(.error "TypeError")'

    def block(self, stmts, env, outs, mode):
        if not stmts:
            return self.leaf(env, outs, mode)
        s, rest = stmts[0], list(stmts[1:])
        if self._is_noise(s):
            return self.block(rest, env, outs, mode)
        if isinstance(s, ast.Continue):
            if mode != "step":
                raise Untranslatable("continue outside the loop body")
            return self.leaf(env, outs, mode)
        if isinstance(s, ast.Expr) and isinstance(s.value, ast.Yield):
            try:
                t, ty = self.expr(s.value.value, env)
            except PyTypeError:
                return self._raise(outs)
            if "None" in ty:
                raise Untranslatable("`None` inside a yielded value: " + ast.unparse(s))
            return self.emit_out("[" + t + "]", rest, env, outs, mode)
        if isinstance(s, ast.AugAssign) and isinstance(s.target, ast.Name) and isinstance(s.op, (ast.Add, ast.Sub)):
            s = ast.Assign(targets=[ast.Name(id=s.target.id, ctx=ast.Store())],
                           value=ast.BinOp(left=ast.Name(id=s.target.id, ctx=ast.Load()), op=s.op, right=s.value))
        if isinstance(s, ast.Assign) and len(s.targets) == 1 and isinstance(s.targets[0], ast.Name):
            name, v = s.targets[0].id, s.value
            if _is_none(v) or (isinstance(v, ast.Name) and v.id in env and env[v.id][1] == "None"):
                env2 = dict(env)
                env2[name] = ("none", "None")
                return self.block(rest, env2, outs, mode)
            try:
                pre, env2 = self.assign(name, v, env)
            except PyTypeError:
                return self._raise(outs)
            return pre + self.block(rest, env2, outs, mode)
        if isinstance(s, ast.For) and self._yield_only([s]):
            try:
                term = self.for_zip(s, env)
            except PyTypeError:
                return self._raise(outs)
            return self.emit_out(term, rest, env, outs, mode)
        if isinstance(s, ast.If):
            nt = self._none_test(s.test)
            if nt is not None:
                var, is_not = nt
                ty = env[var][1]
                if ty == "None" or not ty.startswith("Option "):
                    known_some = ty != "None"
                    return self.block(list(s.body if known_some == is_not else s.orelse) + rest, env, outs, mode)
                t, v, some_env, none_env = self.split_none(var, env)
                a = self.block(list(s.body if is_not else s.orelse) + rest, some_env, outs, mode)
                b = self.block(list(s.orelse if is_not else s.body) + rest, none_env, outs, mode)
                return f"(match {t} with\n| some {v} =>\n{a}\n| none =>\n{b})"
            try:
                c = self.cond(s.test, env)
            except PyTypeError:
                return self._raise(outs)
            a = self.block(list(s.body) + rest, dict(env), outs, mode)
            b = self.block(list(s.orelse) + rest, dict(env), outs, mode)
            return f"(if {c} then\n{a}\nelse\n{b})"
        raise Untranslatable(type(s).__name__ + ": " + ast.unparse(s)[:80])

    def env_none(self):
        env = {}
        for name, ty in self.params + self.elem:
            env[name] = (lname(name), ty)
        for name, _ty in self.state:
            env[name] = ("none", "None")
        return env

    def translate_none(self, lean_name, loop, post, comment):
        stype = "(" + " × ".join(t if t.startswith("Option ") else f"Option ({t})" for _, t in self.state) + ")"
        step = self.block(list(loop.body), self.env_none(), [], "step")
        final = self.block(list(post), {k: v for k, v in self.env_none().items() if k not in dict(self.elem)}, [],
                           "final")
        ind = lambda s: "\n".join("  " + l for l in s.split("\n"))
        return "\n".join([
            f"/-- {comment}: one iteration of the loop while every loop-carried variable still is `None` -/",
            f"def {lean_name}_step {self.sig([self.params, self.elem])} :\n"
            f"    Except String (List {self.ytype} × {stype}) :=\n{ind(step)}",
            f"/-- {comment}: the statements after the loop when every loop-carried variable still is `None` -/",
            f"def {lean_name}_final {self.sig([self.params])} : Except String (List {self.ytype}) :=\n{ind(final)}"])


def init_before(fn, loop):
    """{name: value node} of the plain assignments that immediately precede `loop` in its own block"""
    def walk(stmts):
        for k, s in enumerate(stmts):
            if s is loop:
                return stmts[:k]
            for sub in ("body", "orelse", "finalbody"):
                inner = getattr(s, sub, None)
                if isinstance(inner, list) and inner and isinstance(inner[0], ast.stmt):
                    r = walk(inner)
                    if r is not None:
                        return r
        return None
    pre = walk(fn.body) or []
    init = {}
    for s in reversed(pre):
        if isinstance(s, ast.Expr) and isinstance(s.value, ast.Constant):
            continue
        if not (isinstance(s, ast.Assign) and all(isinstance(t, ast.Name) for t in s.targets)):
            break
        for t in s.targets:
            init.setdefault(t.id, s.value)
    return init


def emit_none_loop(repo, o, path, fname, lean, targets, state, elem, params, ytype, comment):
    from .translate import parse, find_func
    try:
        tree, _src = parse(os.path.join(repo, path))
        fn = find_func(tree, fname)
        loop, post = find_loop(fn, targets)
        init = init_before(fn, loop)
        for name, _ty in state:
            if name not in init or not _is_none(init[name]):
                raise Untranslatable(f"`{name}` is not initialised to None immediately before the loop")
        text = NoneLoop(tree, state, elem, params, ytype).translate_none(lean, loop, post, comment)
    except (Untranslatable, KeyError, OSError, SyntaxError) as e:
        o.lines.append(f"-- NOT TRANSLATED: {path}:{fname}: {type(e).__name__}: {str(e)[:200]}".replace("\n", " "))
        # the driver (Main) uses these names: keep them defined, as a step that always fails, so that the build of the
        # driver survives and exactly the theorems about the None state (Props/C13SrcNone.lean) stop checking
        stype = "(" + " × ".join(t if t.startswith("Option ") else f"Option ({t})" for _, t in state) + ")"
        sig = Loop.sig(None, [params, elem])
        o.lines.append(f"def {lean}_step {sig} :\n    Except String (List {ytype} × {stype}) :=\n"
                       f"  (.error \"NOT TRANSLATED\")")
        o.lines.append(f"def {lean}_final {Loop.sig(None, [params])} : Except String (List {ytype}) :=\n"
                       f"  (.error \"NOT TRANSLATED\")")
        o.info[lean] = {"error": str(e)[:200]}
        return
    o.lines.append(text)
    o.info[lean + "_step"] = {"init_none": [n for n, _ in state]}
    o.info[lean + "_final"] = {}
