"""C03, round 5b -- op `seg_baf`: the `variants=` branch of `do_segmentation` for the per-arm methods (none, haar):
which segment gets which BAF.  Model: Model/TileBafExt5b.lean (`C03Baf.doSegBaf` = tiling model + C18's
`bafByRanges` on the segmenter's pre-stretch ranges, column kept through `transfer_fields` and `concat`);
theorems: Props/C03Baf.lean.  The case is an ordinary `segment` case with `variants` (<= 50 SNVs per chromosome, so
`variants_in_segment` never re-splits); units / survive masks / runs are read exactly as for op `segment`, the real
`baf` column is compared with the model's and judged by the Lean oracle (`baf_of_own_range`).
Imported by harness/props/C03.py."""
from __future__ import annotations

import math
from fractions import Fraction

from .core import frac

TOL = Fraction(1, 10 ** 9)


def gen_case(rng, k):
    method = ("haar", "none", "haar")[k % 3]
    names = ["chr1", "chr2", "chr3"][: rng.choice([1, 2, 2, 3])]
    rows, snvs = [], []
    for c in names:
        n = rng.choice([6, 12, 25, 40, 60]) if k % 7 else rng.randint(104, 125)  # (> 100 bins: two arms possible)
        dead_front = rng.choice([0, 0, 1, 2])
        dead_back = rng.choice([0, 0, 1])
        pos, level, per = rng.choice([0, 500, 10000]), rng.choice([0.0, 0.5, -0.7]), 0
        gap_at = rng.randrange(n) if n > 100 else -1
        for j in range(n):
            if j and rng.random() < 0.09:
                level = round(level + rng.choice([-1.2, 0.9, 1.5, -0.8]), 2)
            ln = rng.choice([100, 200, 400])
            if j == gap_at:
                pos += 250000  # a centromere-sized hole
            lg = round(level + rng.gauss(0, 0.02), 3)
            depth = float(2 ** lg)
            if j < dead_front or j >= n - dead_back or rng.random() < 0.04:
                lg, depth = -25.0, 0.0  # dropped by skip_low
            rows.append([c, pos, pos + ln, "G%d" % (j // 4), lg, 1.0, depth])
            if per < 50 and rng.random() < (0.6 if n <= 40 else 0.3):
                snvs.append([c, rng.randint(pos, pos + ln - 1), rng.randint(8, 56) / 64.0])
                per += 1
            pos += ln + rng.choice([0, 0, 30])
            if per < 50 and rng.random() < 0.05:
                snvs.append([c, pos - 10, rng.randint(8, 56) / 64.0]) if pos - 10 >= rows[-1][2] else None
    if not snvs:
        snvs.append([rows[0][0], rows[0][1], 0.25])
    snvs = sorted({(s[0], s[1]): s for s in snvs}.values(), key=lambda s: (s[0], s[1]))
    i = {"bins": rows, "method": method, "skip_low": True, "skip_outliers": rng.choice([0, 10]), "min_weight": 0,
         "processes": rng.choice([1, 1, 2]), "index": ("default", "holes", "perm", "offset")[k % 4],
         "cols": ("api", "fix")[k % 2], "extra": None, "call": ("kw", "pos", "implicit")[k % 3],
         "variants": [list(s) for s in snvs]}
    if method == "haar":
        i["threshold"] = 0.01
    return {"op": "seg_baf", "tag": "baf-" + method, "in": i}


def _seg_case(case):
    return {"op": "segment", "tag": case.get("tag", ""), "in": case["in"]}


def _opt(x):
    x = float(x)
    return None if math.isnan(x) else frac(x)


def run_impl(case):
    from .props import C03
    i = case["in"]
    base = C03.run_impl(_seg_case(case))
    seg = C03._segment_api(i, C03._cna(i["bins"], i))
    if "baf" not in seg.data.columns:
        raise AssertionError("do_segmentation(variants=) returned no baf column")
    if C03._same_segs(C03._seg_rows(seg), base["segs"]) is not True:
        raise AssertionError("harness: do_segmentation is not repeatable on this case")
    return {"base": base, "baf": [_opt(v) for v in seg.data["baf"].values]}


def to_line(case, impl):
    from .props import C03
    i = case["in"]
    tbl = {"paired": False,
           "rows": [[s[0], s[1], s[1] + 1, "A", "G", False, [frac(0.5), frac(0.0), frac(0.0), frac(s[2])], None]
                    for s in i["variants"]]}
    if isinstance(impl, dict) and "__error__" in impl:
        seg = C03.to_line(_seg_case(case), impl)
        return {"op": "seg_baf", "in": dict(seg["in"], table=tbl)}
    seg = C03.to_line(_seg_case(case), impl["base"])
    return {"op": "seg_baf", "in": dict(seg["in"], table=tbl), "impl": impl["baf"]}


def _q(x):
    return None if x is None else Fraction(x)


def _close(a, b):
    if a is None or b is None:
        return a is None and b is None
    return abs(a - b) <= TOL * max(1, abs(b))


def judge(case, impl, resp):
    if isinstance(impl, dict) and "__error__" in impl:
        return ["raises_" + impl["__error__"]], [], None
    if "error" in resp:
        return [], ["model error: " + resp["error"]], None
    spec = list(resp.get("spec") or [])
    dis = []
    segs = impl["base"]["segs"]
    if [m[:3] for m in resp["out"]] != [s[:3] for s in segs]:
        dis.append("seg_baf: the model's segments are not the real segments (ranges differ)")
    mb, ib = [_q(x) for x in resp["baf"]], [_q(x) for x in impl["baf"]]
    if len(mb) != len(ib):
        dis.append(f"baf column: model {len(mb)} values, impl {len(ib)}")
    else:
        for k, (m, r) in enumerate(zip(mb, ib)):
            if not (_close(r, m) or (m is not None and _close(r, 1 - m))):
                dis.append(f"baf of segment {k} {segs[k][:3]}: model {m} impl {r}")
                break
    return spec, dis, None


def nontrivial(case, impl, resp):
    if isinstance(impl, dict) and "__error__" in impl:
        return False
    vals = {x for x in impl["baf"] if x is not None}
    return len(vals) > 1


def shrink(case):
    rows = case["in"]["bins"]
    n = len(rows)
    for frac_ in (2, 3):
        step = max(1, n // frac_)
        for a in range(0, n, step):
            c = {"op": case["op"], "tag": "shrunk", "in": dict(case["in"])}
            c["in"]["bins"] = rows[:a] + rows[a + step:]
            if c["in"]["bins"]:
                yield c
    v = case["in"]["variants"]
    for a in range(len(v)):
        if len(v) > 1:
            c = {"op": case["op"], "tag": "shrunk", "in": dict(case["in"])}
            c["in"]["variants"] = v[:a] + v[a + 1:]
            yield c
