"""Generator loop over table rows -> Lean SKELETON over named pieces (C06, `skgenome/subdivide.py:_split_targets`).

Companion of harness/exprtrans.py ("pieces") and harness/looptrans.py (generator loops with carried state).  The
arithmetic of `_split_targets` is already re-read, expression by expression, into `Generated/ExprsInterval.lean`
(`src_split_keeps`, `src_split_nbins`, `src_split_bin_end`).  This reader re-reads, on every run, the CONTROL
STRUCTURE around those expressions -- which test guards what, what is yielded where, the inner `for i in range(..)`
loop with its carried variable, the statement after it -- and writes it as Lean definitions that CALL the generated
pieces.  Props/C06SrcSplitLoop.lean proves that the model's `splitRow` / `subdivideTable` EQUAL this reading.

Reading of the source (trusted, like the rules at the top of exprtrans.py / looptrans.py)
* the function is a generator whose body is ONE `for row in <iterable>.itertuples(index=False):` loop that carries no
  variable from one row to the next (checked: no name stored in the body is read before it is stored); its output is
  the concatenation of the values yielded per row (`List.flatMap`).  `<iterable>` is recorded as text
  (`src_splitloop_rows_from`) and as the flag `src_splitloop_over_default_merge` (= it is the call `merge(<first
  parameter>)` with no further argument);
* a yielded value is a row tuple; it is read as the pair (start, end) it carries: `yield row` is `(row.start, row.end)`,
  `yield row._replace(start=a, end=b)` is `(a, b)`, a missing keyword keeps the field of `row` (namedtuple `_replace`;
  every other field is the row's own -- a `_replace` keyword other than start / end is outside the subset);
* an expression that IS (same AST node) the one a piece of `harness/extractors/exprs_interval.py` picks is written as
  the application of that generated piece to the row's fields / parameters (the piece itself reads locals such as
  `span`, `bin_size` through); assignments to locals that are only used inside pieces are therefore dropped;
* other expressions allowed: a name, `row.start` / `row.end`, an integer literal, `a == b` / `a != b` / `<` / `<=` ...
  between those;
* an `if` whose body yields nothing and stores no name that is read outside it (the `if verbose:` logging block) and
  expression statements (logging calls) are dropped;
* `for i in range(a, n): body` followed by the rest of the block is `Py.genLoop step final init (List.range' a (n - a))`
  (`Model/PyPrims.lean`): the carried variables are the names stored in `body` and read in `body` before being stored
  or read after the loop; `step` = the values yielded by one iteration and the carried variables afterwards, `final` =
  the values yielded by the statements after the loop.  `n` is an integer-valued number (a piece of type Rat): its
  `floor.toNat` is taken;
* numbers: row fields and `min_size` are `Int`, `avg_size` is `Rat`, the loop index is `Nat`, the value of a Rat piece
  is `Rat`; a variable is cast (`(x : Rat)`) where a Rat is expected.  Yielded pairs are `Rat × Rat`.
"""
from __future__ import annotations

import ast
import os

from .exprtrans import Untranslatable
from .extractors import exprs_interval

PIECES = {sp["lean"]: sp for sp in exprs_interval.SPECS if sp["func"] == "_split_targets"}
# Lean parameter of a piece -> how the skeleton supplies it
FIELD = {"row_start": ("row_start", "Int"), "row_end": ("row_end", "Int")}


def _stored(node):
    return {n.id for n in ast.walk(node) if isinstance(n, ast.Name) and isinstance(n.ctx, ast.Store)}


def _loaded(node):
    return {n.id for n in ast.walk(node) if isinstance(n, ast.Name) and isinstance(n.ctx, ast.Load)}


def _has_yield(node):
    return any(isinstance(n, (ast.Yield, ast.YieldFrom)) for n in ast.walk(node))


class Skeleton:
    def __init__(self, fn, prefix, info):
        self.fn = fn
        self.prefix = prefix
        self.info = info
        self.rowvar = None
        self.piece_nodes = {}
        for lean, sp in PIECES.items():
            node = sp["pick"](fn)
            if node is None:
                raise Untranslatable(f"piece {lean} not found")
            self.piece_nodes[id(node)] = lean
        self.piece_params = {lean: info[lean]["params"] for lean in PIECES if lean in info and "params" in info[lean]}
        if set(self.piece_params) != set(PIECES):
            raise Untranslatable("a piece of _split_targets was not translated")
        self.params = [("row_start", "Int"), ("row_end", "Int"), ("avg_size", "Rat"), ("min_size", "Int")]
        self.defs = []
        self.nloops = 0

    # ------------------------------------------------------------------------------------------ expressions
    def cast(self, term, typ, want):
        if typ == want:
            return term
        if want == "Rat" and typ in ("Int", "Nat"):
            return f"({term} : Rat)"
        raise Untranslatable(f"{term} : {typ} where {want} is expected")

    def piece(self, lean, env):
        want = PIECES[lean].get("num", "Rat")
        args = []
        for p in self.piece_params[lean]:
            if p in FIELD:
                t, ty = FIELD[p]
            elif p in env:
                t, ty = env[p]
            else:
                raise Untranslatable(f"piece {lean} needs {p}, not in scope")
            args.append(self.cast(t, ty, want))
        typ = "Bool" if PIECES[lean].get("kind") == "cond" else want
        return f"{lean} {' '.join(args)}", typ

    def expr(self, e, env):
        if id(e) in self.piece_nodes:
            return self.piece(self.piece_nodes[id(e)], env)
        if isinstance(e, ast.Name):
            if e.id in env:
                return env[e.id]
            raise Untranslatable("unknown name " + e.id)
        if isinstance(e, ast.Attribute) and isinstance(e.value, ast.Name) and e.value.id == self.rowvar \
                and e.attr in ("start", "end"):
            return "row_" + e.attr, "Int"
        if isinstance(e, ast.Constant) and isinstance(e.value, int) and not isinstance(e.value, bool):
            return str(e.value), "Lit"
        raise Untranslatable("expression " + ast.unparse(e))

    def cond(self, e, env):
        if id(e) in self.piece_nodes:
            t, ty = self.piece(self.piece_nodes[id(e)], env)
            if ty != "Bool":
                raise Untranslatable("a number used as a test")
            return f"{t} = true"
        if isinstance(e, ast.Compare) and len(e.ops) == 1:
            ops = {ast.Eq: "=", ast.NotEq: "≠", ast.Lt: "<", ast.LtE: "≤", ast.Gt: ">", ast.GtE: "≥"}
            op = ops.get(type(e.ops[0]))
            if op is None:
                raise Untranslatable("comparison " + ast.unparse(e))
            a, ta = self.expr(e.left, env)
            b, tb = self.expr(e.comparators[0], env)
            if ta == "Lit" and tb == "Lit":
                raise Untranslatable("literal comparison")
            if ta == "Lit":
                a, ta = f"({a} : {tb})", tb
            if tb == "Lit":
                b, tb = f"({b} : {ta})", ta
            if ta != tb:
                a, b = self.cast(a, ta, "Rat"), self.cast(b, tb, "Rat")
            return f"{a} {op} {b}"
        raise Untranslatable("test " + ast.unparse(e))

    def yielded(self, e, env):
        """(start, end) of a yielded row tuple"""
        if isinstance(e, ast.Name) and e.id == self.rowvar:
            s, t = ("row_start", "Int"), ("row_end", "Int")
        elif isinstance(e, ast.Call) and isinstance(e.func, ast.Attribute) and e.func.attr == "_replace" \
                and isinstance(e.func.value, ast.Name) and e.func.value.id == self.rowvar and not e.args:
            kws = {k.arg: k.value for k in e.keywords}
            if not set(kws) <= {"start", "end"}:
                raise Untranslatable("_replace of a field other than start / end")
            s = self.expr(kws["start"], env) if "start" in kws else ("row_start", "Int")
            t = self.expr(kws["end"], env) if "end" in kws else ("row_end", "Int")
        else:
            raise Untranslatable("yield " + ast.unparse(e))
        if "Lit" in (s[1], t[1]):
            raise Untranslatable("literal coordinate")
        return f"({self.cast(*s, 'Rat')}, {self.cast(*t, 'Rat')})"

    # ------------------------------------------------------------------------------------------ statements
    def droppable(self, st, rest, outer_reads):
        if isinstance(st, ast.Expr) and not _has_yield(st):
            return True
        if isinstance(st, ast.If) and not _has_yield(st):
            later = set().union(*[_loaded(s) for s in rest]) if rest else set()
            return not (_stored(st) & (later | outer_reads))
        return False

    def block(self, stmts, env, ind, after=None):
        """Lean term of type `List (Rat × Rat)` (or, with `after=(state names)`, the pair (yields, state)) for a
        statement list; `after` is used for the body of an inner loop"""
        pad = "  " * ind
        if not stmts:
            if after is not None:
                st = ", ".join(self.cast(*env[n], "Rat") for n in after)
                return f"{pad}([], {st})"
            return f"{pad}[]"
        st, rest = stmts[0], stmts[1:]
        outer_reads = set(after or ())
        if self.droppable(st, rest, outer_reads):
            return self.block(rest, env, ind, after)
        if isinstance(st, ast.Assign) and len(st.targets) == 1 and isinstance(st.targets[0], ast.Name):
            name = st.targets[0].id
            try:
                term, typ = self.expr(st.value, env)
            except Untranslatable:
                # a local that only pieces read through (span, bin_size): dropped; any other use fails at that use
                return self.block(rest, {k: v for k, v in env.items() if k != name}, ind, after)
            if typ == "Lit":
                raise Untranslatable("literal bound to a local")
            env2 = dict(env)
            env2[name] = (name, typ)
            return f"{pad}let {name} : {typ} := {term}\n" + self.block(rest, env2, ind, after)
        if isinstance(st, ast.Expr) and isinstance(st.value, ast.Yield) and st.value.value is not None:
            y = self.yielded(st.value.value, env)
            tail = self.block(rest, env, ind + 1, after)
            if after is not None:
                return f"{pad}(fun (r : List (Rat × Rat) × {self.state_type(after)}) => ({y} :: r.1, r.2)) (\n{tail})"
            return f"{pad}{y} :: (\n{tail})"
        if isinstance(st, ast.If):
            if rest and (_has_yield(st) or _stored(st) & set().union(*[_loaded(s) for s in rest])):
                # continuation style: the rest of the block follows both branches
                a = self.block(list(st.body) + rest, env, ind + 1, after)
                b = self.block(list(st.orelse) + rest, env, ind + 1, after)
            else:
                a = self.block(list(st.body), env, ind + 1, after)
                b = self.block(list(st.orelse), env, ind + 1, after)
            return f"{pad}if {self.cond(st.test, env)} then\n{a}\n{pad}else\n{b}"
        if isinstance(st, ast.For) and after is None:
            return self.inner_loop(st, rest, env, ind)
        raise Untranslatable("statement " + ast.unparse(st).split("\n")[0])

    def state_type(self, names):
        return " × ".join("Rat" for _ in names)

    def inner_loop(self, st, rest, env, ind):
        pad = "  " * ind
        it = st.iter
        if not (isinstance(st.target, ast.Name) and isinstance(it, ast.Call) and isinstance(it.func, ast.Name)
                and it.func.id == "range" and len(it.args) == 2 and not it.keywords and not st.orelse):
            raise Untranslatable("inner loop is not `for i in range(a, n)`")
        lo, tlo = self.expr(it.args[0], env)
        hi, thi = self.expr(it.args[1], env)
        if tlo != "Lit" or thi != "Rat":
            raise Untranslatable("range bounds")
        ivar = st.target.id
        # carried variables: stored in the body, and read in the body before being stored, or after the loop
        stored = _stored(ast.Module(body=list(st.body), type_ignores=[])) - {ivar}
        seen, early = set(), set()
        for s in st.body:
            early |= (_loaded(s) & stored) - seen
            seen |= _stored(s)
        late = set().union(*[_loaded(s) for s in rest]) if rest else set()
        carried = sorted((early | (late & stored)))
        if len(carried) != 1:
            raise Untranslatable(f"carried variables {carried}: exactly one is supported")
        for n in carried:
            if n not in env:
                raise Untranslatable(f"carried variable {n} is not initialised before the loop")
        self.nloops += 1
        if self.nloops > 1:
            raise Untranslatable("more than one inner loop")
        ps = " ".join(f"({n} : {t})" for n, t in self.params)
        pn = " ".join(n for n, _ in self.params)
        senv = {k: v for k, v in env.items() if k not in stored}
        for n in carried:
            senv[n] = (n, "Rat")
        senv[ivar] = (ivar, "Nat")
        # locals defined before the loop that the body reads (e.g. nbins) are re-bound inside the step from their pieces
        pre = "".join(f"  let {n} : {t} := {term}\n" for n, (term, t) in self.prebound.items() if n in senv)
        step = self.block(list(st.body), senv, 1, after=tuple(carried))
        fenv = {k: v for k, v in env.items() if k not in stored}
        for n in carried:
            fenv[n] = (n, "Rat")
        fin = self.block(rest, fenv, 1)
        cs = " ".join(f"({n} : Rat)" for n in carried)
        self.defs.append(
            f"/-- `_split_targets`, one iteration of `{ast.unparse(st).splitlines()[0]}`: the (start, end) yielded and "
            f"`{', '.join(carried)}` afterwards -/\n"
            f"def {self.prefix}_step {ps} {cs} ({ivar} : Nat) : List (Rat × Rat) × {self.state_type(carried)} :=\n{pre}{step}")
        self.defs.append(
            f"/-- `_split_targets`, the statements after the inner loop -/\n"
            f"def {self.prefix}_final {ps} {cs} : List (Rat × Rat) :=\n{pre}{fin}")
        init = ", ".join(self.cast(*env[n], "Rat") for n in carried)
        return (f"{pad}Py.genLoop ({self.prefix}_step {pn}) ({self.prefix}_final {pn}) {init} "
                f"(List.range' {lo} (({hi}).floor.toNat - {lo}))")

    # ------------------------------------------------------------------------------------------ the function
    def run(self):
        body = [s for s in self.fn.body if not (isinstance(s, ast.Expr) and isinstance(s.value, ast.Constant))]
        if len(body) != 1 or not isinstance(body[0], ast.For) or body[0].orelse:
            raise Untranslatable("the body is not one `for` loop")
        loop = body[0]
        it = loop.iter
        if not (isinstance(loop.target, ast.Name) and isinstance(it, ast.Call) and isinstance(it.func, ast.Attribute)
                and it.func.attr == "itertuples" and not it.args
                and [(k.arg, getattr(k.value, "value", None)) for k in it.keywords] == [("index", False)]):
            raise Untranslatable("the loop is not `for row in X.itertuples(index=False)`")
        self.rowvar = loop.target.id
        src = it.func.value
        first = self.fn.args.args[0].arg
        default_merge = (isinstance(src, ast.Call) and isinstance(src.func, ast.Name) and src.func.id == "merge"
                         and len(src.args) == 1 and not src.keywords and isinstance(src.args[0], ast.Name)
                         and src.args[0].id == first)
        # no variable carried from one row to the next
        seen = {self.rowvar}
        stored = _stored(loop)

        def check(stmts, seen):
            for s in stmts:
                if isinstance(s, (ast.If, ast.For)):
                    hd = s.test if isinstance(s, ast.If) else s.iter
                    bad = (_loaded(hd) & stored) - seen
                    if bad:
                        raise Untranslatable(f"{sorted(bad)} carried across rows")
                    inner = set(seen) | (_stored(s.target) if isinstance(s, ast.For) else set())
                    a = check(s.body, set(inner))
                    b = check(s.orelse, set(inner))
                    seen |= (a & b) if isinstance(s, ast.If) else set()
                else:
                    bad = (_loaded(s) & stored) - seen
                    if bad:
                        raise Untranslatable(f"{sorted(bad)} carried across rows")
                    seen |= _stored(s)
            return seen
        check(loop.body, set(seen))
        env = {"avg_size": ("avg_size", "Rat"), "min_size": ("min_size", "Int")}
        self.prebound = {}
        # remember how locals bound to pieces are defined, to re-bind them inside the step / final definitions
        for n in ast.walk(loop):
            if isinstance(n, ast.Assign) and len(n.targets) == 1 and isinstance(n.targets[0], ast.Name) \
                    and id(n.value) in self.piece_nodes:
                lean = self.piece_nodes[id(n.value)]
                try:
                    self.prebound[n.targets[0].id] = self.piece(lean, env)
                except Untranslatable:
                    pass    # needs a variable of the inner loop: not a local of the row
        row = self.block(list(loop.body), env, 1)
        ps = " ".join(f"({n} : {t})" for n, t in self.params)
        out = list(self.defs)
        out.append(f"/-- `_split_targets`, the body of `for {self.rowvar} in ...itertuples(index=False):` -- the (start, end) of "
                   f"the rows yielded for one row -/\n"
                   f"def {self.prefix}_row {ps} : List (Rat × Rat) :=\n{row}")
        text = ast.unparse(src).replace('"', "'")
        out.append(f"/-- what the loop runs over -/\ndef {self.prefix}_rows_from : String := \"{text}\"")
        out.append(f"/-- the loop runs over `merge({first})` with every option at its default -/\n"
                   f"def {self.prefix}_over_default_merge : Bool := {'true' if default_merge else 'false'}")
        return out


def emit_skeleton(repo, o, path, func, prefix):
    from .translate import parse, find_func
    try:
        tree, _src = parse(os.path.join(repo, path))
        fn = find_func(tree, func, None)
        info = {}

        class _O:
            lines = []
            info = {}
        tmp = _O()
        tmp.lines, tmp.info = [], {}
        from .exprtrans import emit_pieces
        # re-run the piece picks on THIS parse so that node identity is meaningful; the text of the pieces themselves
        # lives in Generated/ExprsInterval.lean
        emit_pieces(repo, tmp, [sp for sp in PIECES.values()])
        sk = Skeleton(fn, prefix, tmp.info)
        for d in sk.run():
            o.lines.append(d)
        o.info[prefix] = {"ok": True}
    except (Untranslatable, KeyError, OSError, SyntaxError, IndexError, AttributeError) as e:
        o.lines.append(f"-- NOT TRANSLATED: {path}:{func}:{prefix}: {type(e).__name__}: {str(e)[:200]}".replace("\n", " "))
        o.info[prefix] = {"error": str(e)[:200]}
