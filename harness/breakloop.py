"""Bounded `for _ in range(N)` loop with an early `break` -> Lean function with fuel (round 5, C19; companion of
harness/vectrans.py, same philosophy: a narrow subset, anything outside raises `Untranslatable`, and the extractor then
leaves a comment instead of a definition so that exactly the theorems about that function stop checking).

Reading of the source (trusted, like the rules at the top of exprtrans.py / vectrans.py)
* the function is read from its first non-docstring, non-`def` statement on; it must have the shape

      [if V is None: V = E0]*            -- prelude: an optional parameter gets its default VALUE
      for _ in range(N):                 -- the loop variable must not be used in the body
          x1 = e1; ...                   -- assignments
          if COND: break                 -- exactly one early exit, no `else`
          y1 = f1; ...                   -- assignments
      return R                           -- R a variable

* the LOOP-CARRIED state is the tuple of the variables assigned in the loop body, in order of first assignment.  A
  variable that is bound before the loop (a parameter, or the target of a prelude statement) is carried as a number; a
  variable that is NOT bound before the loop is carried as an `Option Rat`, `none` before the first iteration (Python:
  the name is unbound; reading it then raises `UnboundLocalError`, which is what `none` as the RESULT means).  Inside an
  iteration such a variable may only be read after it was assigned in the same iteration;
* the loop is the structural recursion `loop : Nat -> State -> State`, `loop 0 st = st`, `loop (n+1) st` = the body,
  where `break` returns the state reached at the break and the end of the body continues with `loop n`; `range(N)`
  runs it with fuel `N` (a `Nat`: a parameter, a literal, or `p + k` / `p - k` in truncated subtraction);
* expressions: names, number literals (exact doubles), `+ - * /`, unary minus, `abs(e)` / `np.abs(e)` / `np.fabs(e)`
  (`Desc.absR`), `np.median(v)` / `v.median()` of a vector PARAMETER (`Desc.median`), `max` / `min` of two numbers; a
  call `g(u, ..)` of a function NESTED in the translated one is read as an application of the function parameter `g`
  to the listed arguments (its body is tied separately; the closure variables it reads are not visible here);
* conditions: `<=, <, >=, >, ==, !=` between two numbers, `not`, `and`, `or`;
* assignments are `let`s (a re-assignment shadows).
"""
from __future__ import annotations

import ast
import os

from .exprtrans import Untranslatable, _rat


class BreakLoop:
    def __init__(self, fn: ast.FunctionDef, vectors=(), optional=(), nat=()):
        self.fn = fn
        self.vectors = set(vectors)      # parameters that are vectors (List Rat)
        self.optional = set(optional)    # parameters that may be None (Option Rat)
        self.nat = set(nat)              # parameters that are non-negative integers
        self.nested = {s.name: s for s in fn.body if isinstance(s, ast.FunctionDef)}
        self.used = []                   # free names, in order of first use

    # ------------------------------------------------------------------ expressions
    def use(self, name):
        if name not in self.used:
            self.used.append(name)
        return name

    def num(self, e, bound):
        if isinstance(e, ast.Constant) and isinstance(e.value, (int, float)) and not isinstance(e.value, bool):
            return _rat(e.value)
        if isinstance(e, ast.Name):
            if e.id in self.vectors or e.id in self.nested:
                raise Untranslatable(f"`{e.id}` used as a number")
            if e.id in bound:
                if bound[e.id] != "num":
                    raise Untranslatable(f"`{e.id}` may be unbound / None where it is read")
                return e.id
            raise Untranslatable(f"`{e.id}` is not bound where it is read")
        if isinstance(e, ast.UnaryOp) and isinstance(e.op, ast.USub):
            return f"(-{self.num(e.operand, bound)})"
        if isinstance(e, ast.BinOp) and type(e.op) in (ast.Add, ast.Sub, ast.Mult, ast.Div):
            op = {ast.Add: "+", ast.Sub: "-", ast.Mult: "*", ast.Div: "/"}[type(e.op)]
            return f"({self.num(e.left, bound)} {op} {self.num(e.right, bound)})"
        if isinstance(e, ast.Call) and not e.keywords:
            f = e.func
            dotted = (f.value.id + "." + f.attr) if isinstance(f, ast.Attribute) and isinstance(f.value, ast.Name) else None
            if (isinstance(f, ast.Name) and f.id == "abs" or dotted in ("np.abs", "np.fabs", "np.absolute")) and len(e.args) == 1:
                return f"(Desc.absR {self.num(e.args[0], bound)})"
            if dotted == "np.median" and len(e.args) == 1 and isinstance(e.args[0], ast.Name) and e.args[0].id in self.vectors:
                return f"(Desc.median {e.args[0].id})"
            if isinstance(f, ast.Attribute) and f.attr == "median" and not e.args and isinstance(f.value, ast.Name) \
                    and f.value.id in self.vectors:
                return f"(Desc.median {f.value.id})"
            if isinstance(f, ast.Name) and f.id in ("max", "min") and len(e.args) == 2:
                return f"({f.id} {self.num(e.args[0], bound)} {self.num(e.args[1], bound)})"
            if isinstance(f, ast.Name) and f.id in self.nested:
                want = [a.arg for a in self.nested[f.id].args.args]
                if len(e.args) != len(want):
                    raise Untranslatable(f"call of nested `{f.id}` with {len(e.args)} arguments")
                args = []
                for a in e.args:
                    if isinstance(a, ast.Name) and a.id in self.vectors:
                        args.append(a.id)
                    else:
                        args.append(self.num(a, bound))
                return f"({f.id} {' '.join(args)})"
        raise Untranslatable("expression outside the subset: " + ast.unparse(e))

    def cond(self, e, bound):
        if isinstance(e, ast.UnaryOp) and isinstance(e.op, ast.Not):
            return f"(¬ {self.cond(e.operand, bound)})"
        if isinstance(e, ast.BoolOp):
            op = " ∧ " if isinstance(e.op, ast.And) else " ∨ "
            return "(" + op.join(self.cond(v, bound) for v in e.values) + ")"
        if isinstance(e, ast.Compare) and len(e.ops) == 1:
            ops = {ast.LtE: "≤", ast.Lt: "<", ast.GtE: "≥", ast.Gt: ">", ast.Eq: "=", ast.NotEq: "≠"}
            if type(e.ops[0]) in ops:
                return f"({self.num(e.left, bound)} {ops[type(e.ops[0])]} {self.num(e.comparators[0], bound)})"
        raise Untranslatable("condition outside the subset: " + ast.unparse(e))

    def fuel(self, e):
        if isinstance(e, ast.Name) and e.id in self.nat:
            return e.id
        if isinstance(e, ast.Constant) and isinstance(e.value, int) and not isinstance(e.value, bool) and e.value >= 0:
            return str(e.value)
        if isinstance(e, ast.BinOp) and type(e.op) in (ast.Add, ast.Sub):
            return f"({self.fuel(e.left)} {'+' if isinstance(e.op, ast.Add) else '-'} {self.fuel(e.right)})"
        raise Untranslatable("range bound outside the subset: " + ast.unparse(e))

    # ------------------------------------------------------------------ statements
    @staticmethod
    def _assign(s):
        if isinstance(s, ast.Assign) and len(s.targets) == 1 and isinstance(s.targets[0], ast.Name):
            return s.targets[0].id, s.value
        raise Untranslatable("statement outside the subset: " + ast.unparse(s)[:80])

    def translate(self, lean, comment=None):
        fn = self.fn
        body = [s for s in fn.body if not isinstance(s, ast.FunctionDef)
                and not (isinstance(s, ast.Expr) and isinstance(s.value, ast.Constant) and isinstance(s.value.value, str))]
        params = [a.arg for a in fn.args.args] + [a.arg for a in fn.args.kwonlyargs]
        bound = {}
        for p in params:
            bound[p] = "vec" if p in self.vectors else "opt" if p in self.optional else "nat" if p in self.nat else "num"
        prelude = []
        i = 0
        while i < len(body) and isinstance(body[i], ast.If):
            s = body[i]
            t = s.test
            if not (isinstance(t, ast.Compare) and len(t.ops) == 1 and isinstance(t.ops[0], ast.Is)
                    and isinstance(t.left, ast.Name) and isinstance(t.comparators[0], ast.Constant)
                    and t.comparators[0].value is None and not s.orelse and len(s.body) == 1):
                raise Untranslatable("prelude statement outside the subset: " + ast.unparse(s)[:80])
            v, e = self._assign(s.body[0])
            if v != t.left.id or bound.get(v) != "opt":
                raise Untranslatable("prelude must default the optional parameter it tests")
            prelude.append(f"  let {v} : Rat := match {v} with | some v_ => v_ | none => {self.num(e, bound)}")
            bound[v] = "num"
            i += 1
        if not (i + 2 == len(body) and isinstance(body[i], ast.For) and isinstance(body[i + 1], ast.Return)):
            raise Untranslatable("expected `for ... in range(N): ...` followed by `return R` at the end of the function")
        loop, ret = body[i], body[i + 1]
        if loop.orelse or not isinstance(loop.target, ast.Name):
            raise Untranslatable("for-else / tuple loop target")
        it = loop.iter
        if not (isinstance(it, ast.Call) and isinstance(it.func, ast.Name) and it.func.id == "range" and len(it.args) == 1
                and not it.keywords):
            raise Untranslatable("loop is not over range(N)")
        fuel = self.fuel(it.args[0])
        lv = loop.target.id
        if any(isinstance(n, ast.Name) and n.id == lv for s in loop.body for n in ast.walk(s)):
            raise Untranslatable("the loop variable is used in the body")
        # split the body at the single `if COND: break`
        brk = [k for k, s in enumerate(loop.body) if isinstance(s, ast.If)]
        if len(brk) != 1:
            raise Untranslatable("expected exactly one `if COND: break` in the loop body")
        b = loop.body[brk[0]]
        if b.orelse or len(b.body) != 1 or not isinstance(b.body[0], ast.Break):
            raise Untranslatable("the `if` in the loop body must be `if COND: break`")
        before = [self._assign(s) for s in loop.body[:brk[0]]]
        after = [self._assign(s) for s in loop.body[brk[0] + 1:]]
        state = []
        for v, _ in before + after:
            if v not in state:
                if bound.get(v) in ("vec", "opt", "nat"):
                    raise Untranslatable(f"loop assigns the non-numeric `{v}`")
                state.append(v)
        carried_opt = [v for v in state if v not in bound]           # unbound before the loop
        sty = " × ".join("Option Rat" if v in carried_opt else "Rat" for v in state)
        inner = dict(bound)                                            # what may be read inside an iteration

        def proj(k):
            if len(state) == 1:
                return "st"
            return "st" + ".2" * k + (".1" if k < len(state) - 1 else "")

        def pack(env):
            return "(" + ", ".join((f"some {v}" if v in carried_opt else v) if env.get(v) == "num" else f"({proj(state.index(v))})"
                                   for v in state) + ")"

        lines = []
        for k, v in enumerate(state):
            if v not in carried_opt:
                lines.append(f"    let {v} : Rat := {proj(k)}")
        for v, e in before:
            lines.append(f"    let {v} : Rat := {self.num(e, inner)}")
            inner[v] = "num"
        c = self.cond(b.test, inner)
        lines.append(f"    if {c} then")
        lines.append(f"      {pack(inner)}")
        lines.append("    else")
        for v, e in after:
            lines.append(f"      let {v} : Rat := {self.num(e, inner)}")
            inner[v] = "num"
        if not (isinstance(ret.value, ast.Name) and ret.value.id in state):
            raise Untranslatable("`return` must name a loop-carried variable")
        r = ret.value.id
        # free parameters of the loop, in the order of the Python signature, nested functions first
        nested_used = [g for g in self.nested if any(isinstance(n, ast.Call) and isinstance(n.func, ast.Name) and n.func.id == g
                                                       for s in loop.body for n in ast.walk(s))]

        def nty(g):
            args = [a.arg for a in self.nested[g].args.args]
            return " → ".join(["List Rat" if a in self.vectors else "Rat" for a in args] + ["Rat"])

        names = {n.id for s in loop.body for n in ast.walk(s) if isinstance(n, ast.Name)}
        loop_params = [p for p in params if p in names and p not in state]
        lp = "".join(f" ({g} : {nty(g)})" for g in nested_used) + "".join(
            f" ({p} : {'List Rat' if p in self.vectors else 'Rat'})" for p in loop_params)
        la = "".join(f" {g}" for g in nested_used) + "".join(f" {p}" for p in loop_params)
        lines.append(f"      {lean}_loop{la} n {pack(inner)}")
        out = []
        out.append(f"/-- the `for {lv} in range({ast.unparse(it.args[0])})` loop of {comment or fn.name}: state ({', '.join(state)}), "
                   f"`none` = not yet bound -/")
        out.append(f"def {lean}_loop{lp} : Nat → {sty} → {sty}")
        out.append("  | 0, st => st")
        out.append("  | n + 1, st =>")
        out += lines
        out.append("")
        tys = {"vec": "List Rat", "opt": "Option Rat", "nat": "Nat", "num": "Rat"}
        pre_names = {n.id for s in body[:i] for n in ast.walk(s) if isinstance(n, ast.Name)}
        top = [p for p in params if p in names or p in pre_names or p in self.fuel_names(it.args[0])]
        tp = "".join(f" ({g} : {nty(g)})" for g in nested_used) + "".join(
            f" ({p} : {tys['vec' if p in self.vectors else 'opt' if p in self.optional else 'nat' if p in self.nat else 'num']})"
            for p in top)
        init = "(" + ", ".join("none" if v in carried_opt else v for v in state) + ")"
        k = state.index(r)
        res = f"({lean}_loop{la} {fuel} {init})" + (("" if len(state) == 1 else ".2" * k + (".1" if k < len(state) - 1 else "")))
        out.append(f"/-- {comment or fn.name}: `none` = the returned name was never bound (UnboundLocalError) -/")
        out.append(f"def {lean}{tp} : Option Rat :=")
        out += prelude
        out.append(f"  {res}" if r in carried_opt else f"  some {res}")
        return "\n".join(out), top

    @staticmethod
    def fuel_names(e):
        return {n.id for n in ast.walk(e) if isinstance(n, ast.Name)}


def emit(repo, o, specs):
    from .translate import parse, find_func
    for path, fname, lean, kw, comment in specs:
        try:
            tree, _src = parse(os.path.join(repo, path))
            text, params = BreakLoop(find_func(tree, fname), **kw).translate(lean, comment)
        except (Untranslatable, KeyError, OSError, SyntaxError) as e:
            o.lines.append(f"-- NOT TRANSLATED: {path}:{fname}: {type(e).__name__}: {str(e)[:200]}".replace("\n", " "))
            o.info[lean] = {"error": str(e)[:200]}
            continue
        o.lines.append(text + "\n")
        o.info[lean] = {"params": params}
