"""Python function -> Lean definition, for the small decision rules cnvkit writes over SETS / LISTS OF NAMES
(`drop_noncanonical_contigs`, `compare_chrom_names`, `filter_names`).  Companion of `exprtrans.py` (numbers);
same contract: anything outside the subset raises `Untranslatable`, the generated file then carries a comment
instead of a definition and exactly the theorems about that function stop checking.

Reading of the source (part of the trusted base)
* a set / list / generator of names is a Lean `List String` WITHOUT duplicates, in order of first appearance; the
  functions read here only test membership, emptiness, `any` / `all`, or take a `max` over it, and hand the
  collection on to `isin` / another membership test, so Python's undefined set order is immaterial;
* `[x for x in S if p]`, `set(x for x in S if p)`, `{x for x in S if p}` are `S.filter (fun x => p)` (the element
  expression must be the loop variable itself); `A - B` is `A.filter (· ∉ B)`, `A.intersection(B)` / `A & B` is
  `A.filter (· ∈ B)`, `A.isdisjoint(B)` is `A.all (· ∉ B)`;
* `any(p for x in S)` / `all(...)` are `S.any` / `S.all`; truthiness of a collection (`if ok_names:`) is "not
  empty"; `len(S)` is `S.length`, `len(name)` is `name.length`, `name.startswith(p)` is `name.startsWith p`;
* `max(map(len, S))` / `max(len(x) for x in S)` is `(S.map String.length).foldl max 0` (Python raises on an empty
  `S`; the caller's guard makes `S` non-empty -- stated where the theorem is);
* `f(name)` for a module-level predicate named in the spec's `preds` is a parameter `f : String → Bool`;
* names listed in the spec's `opaque` are inputs: statements binding them (e.g. by unpacking another function's
  result, or from a pandas column) are skipped, and they become parameters of the generated definition;
* comparisons of lengths are `decide (a > b)` etc.; `not` / `and` / `or` are the Boolean connectives;
* statements: plain assignment to a name, `if` / `else` (each branch continues with the rest of the body),
  `return`; docstrings and comments are skipped.  Three ways to read a function:
  - `value`      : what the function returns;
  - `local:NAME` : the value of local NAME after its last assignment (the body is cut after the last top-level
                   statement that stores NAME; later statements only consume it);
  - `isin_arg`   : the same for the local that the function hands to its single `.isin(<local>)` call;
  - `raise_cond` : the condition of the first top-level `if` whose body ends in `raise`.
"""
from __future__ import annotations

import ast

from .exprtrans import Untranslatable

COLL, STR, NAT, BOOL = "coll", "str", "nat", "bool"


class SetFn:
    def __init__(self, fn: ast.FunctionDef, params, preds=(), opaque=()):
        self.fn = fn
        self.ptypes = dict(params)          # name -> type tag of the declared inputs
        self.preds = set(preds)
        self.opaque = set(opaque)
        self.used_preds = []
        self.used_params = []
        self._fresh = 0

    # -- helpers -------------------------------------------------------------------------------------
    def _use(self, name):
        if name not in self.used_params:
            self.used_params.append(name)

    def _lookup(self, name, env):
        if name in env:
            return env[name]
        if name in self.ptypes:
            self._use(name)
            return name, self.ptypes[name]
        raise Untranslatable(f"name `{name}` is neither bound nor a declared input")

    def _comp(self, gens, env):
        """a single `for x in S [if p]*` clause -> (var, S_lean, [conditions])"""
        if len(gens) != 1 or gens[0].is_async or not isinstance(gens[0].target, ast.Name):
            raise Untranslatable("comprehension with several clauses / a pattern target")
        g = gens[0]
        src, t = self.expr(g.iter, env)
        if t != COLL:
            raise Untranslatable("comprehension over a non-collection: " + ast.unparse(g.iter))
        # bound variables get canonical names (x0, x1, ... by nesting depth): the generated term does not depend on
        # how the source calls its loop variables
        depth = env.get("$depth", 0)
        var = f"x{depth}"
        inner = dict(env)
        inner[g.target.id] = (var, STR)
        inner["$depth"] = depth + 1
        conds = [self.boolean(c, inner) for c in g.ifs]
        return g.target.id, var, src, conds, inner

    def _filter(self, elt, gens, env):
        pyvar, var, src, conds, _inner = self._comp(gens, env)
        if not (isinstance(elt, ast.Name) and elt.id == pyvar):
            raise Untranslatable("comprehension whose element is not its loop variable: " + ast.unparse(elt))
        out = src
        for c in conds:
            out = f"({out}.filter (fun {var} => {c}))"
        return out, COLL

    # -- expressions ---------------------------------------------------------------------------------
    def expr(self, e, env):
        if isinstance(e, ast.Name):
            return self._lookup(e.id, env)
        if isinstance(e, ast.Constant):
            if isinstance(e.value, bool):
                return ("true" if e.value else "false"), BOOL
            if isinstance(e.value, int) and e.value >= 0:
                return str(e.value), NAT
            if isinstance(e.value, str):
                return '"' + e.value.replace("\\", "\\\\").replace('"', '\\"') + '"', STR
            raise Untranslatable(f"constant {e.value!r}")
        if isinstance(e, (ast.ListComp, ast.SetComp, ast.GeneratorExp)):
            return self._filter(e.elt, e.generators, env)
        if isinstance(e, ast.BinOp) and isinstance(e.op, (ast.Sub, ast.BitAnd)):
            a, ta = self.expr(e.left, env)
            b, tb = self.expr(e.right, env)
            if ta == COLL and tb == COLL:
                neg = "!" if isinstance(e.op, ast.Sub) else ""
                return f"({a}.filter (fun y => {neg}({b}.contains y)))", COLL
            raise Untranslatable(ast.unparse(e))
        if isinstance(e, ast.IfExp):
            c = self.boolean(e.test, env)
            a, ta = self.expr(e.body, env)
            b, tb = self.expr(e.orelse, env)
            if ta != tb:
                raise Untranslatable("conditional expression with branches of different kinds")
            return f"(if {c} then {a} else {b})", ta
        if isinstance(e, (ast.BoolOp, ast.Compare)) or (isinstance(e, ast.UnaryOp) and isinstance(e.op, ast.Not)):
            return self.boolean(e, env), BOOL
        if isinstance(e, ast.Call):
            f = ast.unparse(e.func)
            args = e.args
            if e.keywords:
                raise Untranslatable("call with keywords: " + ast.unparse(e))
            if f in ("set", "list", "sorted", "frozenset", "tuple") and len(args) == 1:
                v, t = self.expr(args[0], env)
                if t != COLL:
                    raise Untranslatable(ast.unparse(e))
                return v, COLL
            if f == "len" and len(args) == 1:
                v, t = self.expr(args[0], env)
                if t in (COLL, STR):
                    return f"{v}.length", NAT
                raise Untranslatable(ast.unparse(e))
            if f == "max" and len(args) == 1:
                a = args[0]
                # max(map(len, S)) / max(len(x) for x in S)
                if isinstance(a, ast.Call) and ast.unparse(a.func) == "map" and len(a.args) == 2 \
                        and ast.unparse(a.args[0]) == "len":
                    v, t = self.expr(a.args[1], env)
                    if t == COLL:
                        return f"(({v}.map String.length).foldl max 0)", NAT
                if isinstance(a, (ast.GeneratorExp, ast.ListComp)):
                    pyvar, var, src, conds, _inner = self._comp(a.generators, env)
                    if not conds and ast.unparse(a.elt) == f"len({pyvar})":
                        return f"(({src}.map String.length).foldl max 0)", NAT
                raise Untranslatable(ast.unparse(e))
            if f in ("any", "all") and len(args) == 1 and isinstance(args[0], (ast.GeneratorExp, ast.ListComp)):
                _pyvar, var, src, conds, inner = self._comp(args[0].generators, env)
                body = self.boolean(args[0].elt, inner)
                for c in reversed(conds):
                    body = f"({c} && {body})" if f == "any" else f"(!{c} || {body})"
                return f"({src}.{f} (fun {var} => {body}))", BOOL
            if isinstance(e.func, ast.Name) and e.func.id in self.preds and len(args) == 1:
                v, t = self.expr(args[0], env)
                if t != STR:
                    raise Untranslatable(ast.unparse(e))
                if e.func.id not in self.used_preds:
                    self.used_preds.append(e.func.id)
                return f"({e.func.id} {v})", BOOL
            if isinstance(e.func, ast.Attribute) and len(args) == 1:
                recv, tr = self.expr(e.func.value, env)
                arg, ta = self.expr(args[0], env)
                m = e.func.attr
                if m == "startswith" and tr == STR and ta == STR:
                    return f"({recv}.startsWith {arg})", BOOL
                if tr == COLL and ta == COLL:
                    if m == "isdisjoint":
                        return f"({recv}.all (fun y => !({arg}.contains y)))", BOOL
                    if m == "intersection":
                        return f"({recv}.filter (fun y => ({arg}.contains y)))", COLL
                    if m == "difference":
                        return f"({recv}.filter (fun y => !({arg}.contains y)))", COLL
                    if m == "issubset":
                        return f"({recv}.all (fun y => ({arg}.contains y)))", BOOL
            raise Untranslatable("call " + ast.unparse(e))
        raise Untranslatable(ast.unparse(e))

    def boolean(self, e, env):
        """a Lean `Bool`"""
        if isinstance(e, ast.BoolOp):
            op = " && " if isinstance(e.op, ast.And) else " || "
            return "(" + op.join(self.boolean(v, env) for v in e.values) + ")"
        if isinstance(e, ast.UnaryOp) and isinstance(e.op, ast.Not):
            return f"(!{self.boolean(e.operand, env)})"
        if isinstance(e, ast.Compare):
            parts, left = [], e.left
            for op, right in zip(e.ops, e.comparators):
                a, ta = self.expr(left, env)
                b, tb = self.expr(right, env)
                if isinstance(op, (ast.In, ast.NotIn)) and ta == STR and tb == COLL:
                    parts.append(("!" if isinstance(op, ast.NotIn) else "") + f"({b}.contains {a})")
                else:
                    sym = {ast.Lt: "<", ast.LtE: "≤", ast.Gt: ">", ast.GtE: "≥", ast.Eq: "=", ast.NotEq: "≠"}.get(type(op))
                    if sym is None or ta != NAT or tb != NAT:
                        raise Untranslatable("comparison " + ast.unparse(e))
                    parts.append(f"decide ({a} {sym} {b})")
                left = right
            return parts[0] if len(parts) == 1 else "(" + " && ".join(parts) + ")"
        v, t = self.expr(e, env)
        if t == BOOL:
            return v
        if t == COLL:
            return f"(!{v}.isEmpty)"      # truthiness of a collection
        raise Untranslatable("truthiness of " + ast.unparse(e))

    # -- statements ----------------------------------------------------------------------------------
    def _skip(self, s):
        if isinstance(s, ast.Expr) and isinstance(s.value, ast.Constant):
            return True                                     # docstring
        if isinstance(s, ast.Assign):
            names = [n.id for t in s.targets for n in ast.walk(t) if isinstance(n, ast.Name)]
            if names and all(n in self.opaque for n in names):
                return True                                 # binds declared inputs only
        return False

    def block(self, stmts, env):
        if not stmts:
            raise Untranslatable("function falls off its end without a return")
        s, rest = stmts[0], stmts[1:]
        if self._skip(s):
            return self.block(rest, env)
        if isinstance(s, ast.Return) and s.value is not None:
            return self.expr(s.value, env)
        if isinstance(s, ast.Assign) and len(s.targets) == 1 and isinstance(s.targets[0], ast.Name):
            env = dict(env)
            env[s.targets[0].id] = self.expr(s.value, env)
            return self.block(rest, env)
        if isinstance(s, ast.If):
            c = self.boolean(s.test, env)
            a, ta = self.block(list(s.body) + rest, dict(env))
            b, tb = self.block(list(s.orelse) + rest, dict(env))
            if ta != tb:
                raise Untranslatable("branches of different kinds")
            return f"(if {c} then {a} else {b})", ta
        raise Untranslatable(type(s).__name__ + ": " + ast.unparse(s)[:80])

    # -- entry points --------------------------------------------------------------------------------
    def _body(self, mode):
        body = list(self.fn.body)
        if mode == "value":
            return body
        if mode == "isin_arg":
            calls = [n for n in ast.walk(self.fn) if isinstance(n, ast.Call) and isinstance(n.func, ast.Attribute)
                     and n.func.attr == "isin" and len(n.args) == 1 and isinstance(n.args[0], ast.Name)]
            if len(calls) != 1:
                raise Untranslatable("expected exactly one `.isin(<local>)` call")
            mode = "local:" + calls[0].args[0].id
        if mode.startswith("local:"):
            name = mode[6:]
            last = -1
            for k, st in enumerate(body):
                if any(isinstance(n, ast.Name) and n.id == name and isinstance(n.ctx, ast.Store) for n in ast.walk(st)):
                    last = k
            if last < 0:
                raise Untranslatable(f"local `{name}` is never assigned")
            return body[:last + 1] + [ast.Return(value=ast.Name(id=name, ctx=ast.Load()))]
        raise Untranslatable("mode " + mode)

    def translate(self, lean_name, mode, comment=None):
        if mode == "raise_cond":
            env = {}
            val = None
            for st in self.fn.body:
                if self._skip(st):
                    continue
                if isinstance(st, ast.If) and st.body and isinstance(st.body[-1], ast.Raise) and not st.orelse:
                    val = (self.boolean(st.test, env), BOOL)
                    break
                if isinstance(st, ast.Assign) and len(st.targets) == 1 and isinstance(st.targets[0], ast.Name):
                    env = dict(env)
                    env[st.targets[0].id] = self.expr(st.value, env)
                    continue
                raise Untranslatable("statement before the guard: " + ast.unparse(st)[:80])
            if val is None:
                raise Untranslatable("no `if ...: raise` guard")
        else:
            val = self.block(self._body(mode), {})
        text, typ = val
        lean_t = {COLL: "List String", STR: "String", NAT: "Nat", BOOL: "Bool"}
        sig = ""
        for p in self.used_preds:
            sig += f" ({p} : String → Bool)"
        declared = [p for p in self.ptypes if p in self.used_params]
        for p in declared:
            sig += f" ({p} : {lean_t[self.ptypes[p]]})"
        doc = f"/-- {comment} -/\n" if comment else ""
        return doc + f"def {lean_name}{sig} : {lean_t[typ]} :=\n  {text}", list(self.used_preds) + declared


def emit(repo, o, specs):
    """each spec: (file, function, lean name, mode, kwargs of SetFn, comment)"""
    import os
    from .translate import parse, find_func
    for path, fname, lean, mode, kw, comment in specs:
        try:
            tree, _src = parse(os.path.join(repo, path))
            fn = find_func(tree, fname)
            text, params = SetFn(fn, **kw).translate(lean, mode, comment)
        except (Untranslatable, KeyError, OSError, SyntaxError) as e:
            o.lines.append(f"-- NOT TRANSLATED: {path}:{fname}: {type(e).__name__}: {str(e)[:200]}".replace("\n", " "))
            o.info[lean] = {"error": str(e)[:200]}
            continue
        o.lines.append(text)
        o.info[lean] = {"params": params}
