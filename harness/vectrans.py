"""Python function over numpy vectors -> Lean definition (typed reading), for the estimators of cnvlib/descriptives.py.

`harness/exprtrans.py` reads functions whose arrays can be taken ELEMENTWISE.  The estimators reduce over their
arrays (median, sum, percentile, masks), so they are read here with types: every expression is a number (`Rat`), a
vector (`List Rat`), a Boolean mask (`List Bool`), a length / index (`Nat`), an index array (`List Nat`) or a
condition.  Anything outside the subset raises `Untranslatable` (the tie is then broken, never silent).

Reading of the source (part of the trusted base; the generated terms are short enough to be read against the source)
* statements: `x = e` is a `let` (re-binding a name shadows it); `x op= e` likewise; `if c: ... return` / `if c: x = e`
  are read as in exprtrans (the rest of the block is continued in both branches); docstrings, `assert` and
  `if c: raise` guards are dropped (preconditions of the model); `x is None` is resolved by `given` / `absent`;
* numbers: float literals are the exact doubles, integer literals integers; `len(v)` is a natural number, and
  sums / products / DIFFERENCES of lengths, indices and integer literals are taken in the natural numbers (`len(a) - 1`
  is only formed for non-empty arrays); every division is a division of rationals; `sys.float_info.epsilon` = 2^-52;
* vectors: `v op s`, `s op v` map over the vector, `v op w` combines two vectors of equal length position by position,
  `v ** k` (k an integer literal) maps; `v < s` (any comparison) is a mask; `v[mask]` keeps the entries where the mask
  holds (`Np.sel`); `v[order]` with an index array reorders (`Np.take`), `v[i]` with an index is the entry (0 when out
  of range -- the model states the range as a precondition);
* reductions and numpy calls: `np.median(v)` = `Desc.median`, `np.percentile(v, q)` = `Desc.quantile v (q/100)` (linear
  method), `np.sort` = `Desc.sortR`, `np.diff` = `Desc.diffs`, `np.abs` maps `Desc.absR`, `v.sum()` = `List.sum`,
  `mask.sum()` = number of `True`, `mask.any()`, `v.argmax()` = `Desc.argmax` (first maximum), `v.cumsum()` =
  `Np.cumsum`, `c.searchsorted(x, side=...)` = `Np.searchLeft` / `Np.searchRight` (first index with `c[i] >= x` /
  `c[i] > x`: the array is non-decreasing), `np.arange(a, b)` = `Np.arange`, `np.average(v, weights=w)` = `Np.average`
  (its ZeroDivisionError is a precondition), `max` / `min` of two numbers or two indices;
* third-party values that are inputs of the models stay inputs here: `order = a.argsort()` makes `order` a parameter
  (an index array), `np.sqrt(np.pi)` is the parameter `sqrt_pi`; a list named in `opaque` that is filled by a `for`
  loop of `append`s is a parameter (the loop is modelled by hand, e.g. the pairwise distances of `q_n`);
* `return np.sqrt(e)` returns `ScaleOut.root e` (the models never take roots: they return the radicand), any other
  return of such a function `ScaleOut.direct e`.
"""
from __future__ import annotations

import ast

from .exprtrans import Untranslatable, _rat

NUM, VEC, MASK, IDX, PERM, INT = "num", "vec", "mask", "idx", "perm", "int"
LEAN_T = {NUM: "Rat", VEC: "List Rat", MASK: "List Bool", IDX: "Nat", PERM: "List Nat", "bool": "Bool"}
_CMP = {ast.Lt: "<", ast.LtE: "≤", ast.Gt: ">", ast.GtE: "≥", ast.Eq: "=", ast.NotEq: "≠"}
_ARITH = {ast.Add: "+", ast.Sub: "-", ast.Mult: "*", ast.Div: "/"}


class VFn:
    def __init__(self, fn, types=None, given=(), absent=(), opaque=None):
        self.fn = fn
        self.types = dict(types or {})      # parameter name -> type (default: number)
        self.given, self.absent = set(given), set(absent)
        self.opaque = dict(opaque or {})    # local list filled by a loop -> parameter of that type
        self.params = []                    # (name, type) in order of first use
        self.returns_root = any(isinstance(n, ast.Return) and self._is_sqrt(n.value) for n in ast.walk(fn))

    # -- helpers ---------------------------------------------------------------------------------
    @staticmethod
    def _is_sqrt(e):
        return isinstance(e, ast.Call) and ast.unparse(e.func) in ("np.sqrt", "math.sqrt") and len(e.args) == 1

    def param(self, name, typ=None):
        typ = typ or self.types.get(name, NUM)
        for n, t in self.params:
            if n == name:
                return name, t
        self.params.append((name, typ))
        return name, typ

    @staticmethod
    def num(x):
        s, t = x
        if t == NUM:
            return s
        if t == INT:
            return f"({s} : Rat)" if not s.startswith("-") else f"(({s}) : Rat)"
        if t == IDX:
            return f"(({s} : Nat) : Rat)"
        raise Untranslatable(f"a number was expected, found a {t}: {s}")

    @staticmethod
    def idx(x):
        s, t = x
        if t == IDX:
            return s
        if t == INT and not s.startswith("-"):
            return s
        raise Untranslatable(f"an index / length was expected, found a {t}: {s}")

    @staticmethod
    def scalar(t):
        return t in (NUM, INT, IDX)

    # -- expressions -----------------------------------------------------------------------------
    def expr(self, e, env):
        if isinstance(e, ast.Constant):
            if isinstance(e.value, bool) or e.value is None or isinstance(e.value, str):
                raise Untranslatable(f"constant {e.value!r} in arithmetic position")
            if isinstance(e.value, int):
                return str(e.value), INT
            return _rat(e.value), NUM
        if isinstance(e, ast.Name):
            if e.id in env:
                return env[e.id]
            if e.id in self.opaque:
                return self.param(e.id, self.opaque[e.id])
            return self.param(e.id)
        if isinstance(e, ast.Attribute):
            if ast.unparse(e) == "sys.float_info.epsilon":
                return "Desc.FLOAT_EPS", NUM
            raise Untranslatable("attribute " + ast.unparse(e))
        if isinstance(e, ast.UnaryOp) and isinstance(e.op, (ast.USub, ast.UAdd)):
            x = self.expr(e.operand, env)
            if isinstance(e.op, ast.UAdd):
                return x
            if x[1] == VEC:
                return f"({x[0]}.map (fun v => -v))", VEC
            return f"(-{self.num(x)})", NUM
        if isinstance(e, ast.Subscript):
            v = self.expr(e.value, env)
            if v[1] != VEC or isinstance(e.slice, ast.Slice):
                raise Untranslatable("subscript " + ast.unparse(e))
            k = self.expr(e.slice, env)
            if k[1] == MASK:
                return f"(Np.sel {v[0]} {k[0]})", VEC
            if k[1] == PERM:
                return f"(Np.take {v[0]} {k[0]})", VEC
            if k[1] in (IDX, INT):
                return f"(Desc.nth {v[0]} {self.idx(k)})", NUM
            raise Untranslatable("subscript " + ast.unparse(e))
        if isinstance(e, ast.BinOp):
            if isinstance(e.op, ast.Pow):
                if not (isinstance(e.right, ast.Constant) and isinstance(e.right.value, int) and e.right.value >= 0):
                    raise Untranslatable("power " + ast.unparse(e))
                x = self.expr(e.left, env)
                if x[1] == VEC:
                    return f"({x[0]}.map (fun v => v ^ {e.right.value}))", VEC
                return f"({self.num(x)} ^ {e.right.value})", NUM
            op = _ARITH.get(type(e.op))
            if op is None:
                raise Untranslatable(ast.unparse(e))
            a, b = self.expr(e.left, env), self.expr(e.right, env)
            if a[1] == VEC and b[1] == VEC:
                return f"(List.zipWith (fun u v => u {op} v) {a[0]} {b[0]})", VEC
            if a[1] == VEC and self.scalar(b[1]):
                return f"({a[0]}.map (fun v => v {op} {self.num(b)}))", VEC
            if self.scalar(a[1]) and b[1] == VEC:
                return f"({b[0]}.map (fun v => {self.num(a)} {op} v))", VEC
            if self.scalar(a[1]) and self.scalar(b[1]):
                if op != "/" and a[1] in (IDX, INT) and b[1] in (IDX, INT) and IDX in (a[1], b[1]):
                    return f"({self.idx(a)} {op} {self.idx(b)})", IDX      # lengths and indices: natural numbers
                return f"({self.num(a)} {op} {self.num(b)})", NUM
            raise Untranslatable(f"{a[1]} {op} {b[1]}: " + ast.unparse(e))
        if isinstance(e, ast.Compare):
            if len(e.ops) == 1:
                a, b = self.expr(e.left, env), self.expr(e.comparators[0], env)
                sym = _CMP.get(type(e.ops[0]))
                if sym and a[1] == VEC and self.scalar(b[1]):
                    return f"({a[0]}.map (fun v => decide (v {sym} {self.num(b)})))", MASK
                if sym and self.scalar(a[1]) and b[1] == VEC:
                    return f"({b[0]}.map (fun v => decide ({self.num(a)} {sym} v)))", MASK
            raise Untranslatable("comparison in value position: " + ast.unparse(e))
        if isinstance(e, ast.Call):
            return self.call(e, env)
        raise Untranslatable(ast.unparse(e))

    def call(self, e, env):
        f = ast.unparse(e.func)
        args, kws = e.args, {k.arg: k.value for k in e.keywords}
        if isinstance(e.func, ast.Attribute) and not f.startswith(("np.", "numpy.", "math.", "sys.")):
            recv = self.expr(e.func.value, env)
            m = e.func.attr
            if m == "sum" and not args and not kws:
                if recv[1] == VEC:
                    return f"({recv[0]}).sum", NUM
                if recv[1] == MASK:
                    return f"(List.count true {recv[0]})", IDX
            if m == "argmax" and not args and not kws and recv[1] == VEC:
                return f"(Desc.argmax {recv[0]})", IDX
            if m == "cumsum" and not args and not kws and recv[1] == VEC:
                return f"(Np.cumsum {recv[0]})", VEC
            if m == "searchsorted" and len(args) == 1 and recv[1] == VEC and set(kws) <= {"side"}:
                side = kws.get("side")
                side = side.value if isinstance(side, ast.Constant) else ("left" if side is None else None)
                if side in ("left", "right"):
                    fn = "Np.searchLeft" if side == "left" else "Np.searchRight"
                    return f"({fn} {recv[0]} {self.num(self.expr(args[0], env))})", IDX
            raise Untranslatable("method call " + ast.unparse(e))
        one = self.expr(args[0], env) if len(args) >= 1 and not (f in ("np.sqrt", "math.sqrt")) else None
        if f in ("np.median",) and len(args) == 1 and not kws and one[1] == VEC:
            return f"(Desc.median {one[0]})", NUM
        if f in ("np.abs", "np.absolute", "abs", "np.fabs") and len(args) == 1 and not kws:
            if one[1] == VEC:
                return f"({one[0]}.map Desc.absR)", VEC
            return f"(Desc.absR {self.num(one)})", NUM
        if f in ("np.sort",) and len(args) == 1 and not kws and one[1] == VEC:
            return f"(Desc.sortR {one[0]})", VEC
        if f in ("np.diff",) and len(args) == 1 and not kws and one[1] == VEC:
            return f"(Desc.diffs {one[0]})", VEC
        if f in ("np.sum", "sum") and len(args) == 1 and not kws and one[1] == VEC:
            return f"({one[0]}).sum", NUM
        if f == "len" and len(args) == 1 and one[1] in (VEC, PERM, MASK):
            return f"{one[0]}.length", IDX
        if f in ("np.percentile",) and len(args) == 2 and not kws and one[1] == VEC:
            q = self.expr(args[1], env)
            return f"(Desc.quantile {one[0]} ({self.num(q)} / 100))", NUM
        if f in ("np.average",) and len(args) == 1 and set(kws) == {"weights"} and one[1] == VEC:
            w = self.expr(kws["weights"], env)
            if w[1] == VEC:
                return f"(Np.average {one[0]} {w[0]})", NUM
        if f in ("np.arange",) and len(args) == 2 and not kws:
            return f"(Np.arange {self.idx(one)} {self.idx(self.expr(args[1], env))})", VEC
        if f in ("max", "min", "np.maximum", "np.minimum") and len(args) == 2 and not kws:
            two = self.expr(args[1], env)
            g = "max" if "max" in f else "min"
            if one[1] in (IDX, INT) and two[1] in (IDX, INT) and IDX in (one[1], two[1]):
                return f"({g} {self.idx(one)} {self.idx(two)})", IDX
            if self.scalar(one[1]) and self.scalar(two[1]):
                return f"({g} {self.num(one)} {self.num(two)})", NUM
        if f in ("np.sqrt", "math.sqrt") and len(args) == 1 and ast.unparse(args[0]) in ("np.pi", "math.pi"):
            return self.param("sqrt_pi", NUM)
        if f == "float" and len(args) == 1 and self.scalar(one[1]):
            return self.num(one), NUM
        raise Untranslatable("call " + ast.unparse(e))

    # -- conditions ------------------------------------------------------------------------------
    def cond(self, e, env):
        if isinstance(e, ast.BoolOp):
            op = " ∧ " if isinstance(e.op, ast.And) else " ∨ "
            return "(" + op.join(self.cond(v, env) for v in e.values) + ")"
        if isinstance(e, ast.UnaryOp) and isinstance(e.op, ast.Not):
            return f"(¬ {self.cond(e.operand, env)})"
        if isinstance(e, ast.Compare):
            parts, left = [], e.left
            for op, right in zip(e.ops, e.comparators):
                if isinstance(op, (ast.Is, ast.IsNot)) and isinstance(right, ast.Constant) and right.value is None \
                        and isinstance(left, ast.Name):
                    if left.id in self.given:
                        parts.append("False" if isinstance(op, ast.Is) else "True")
                    elif left.id in self.absent:
                        parts.append("True" if isinstance(op, ast.Is) else "False")
                    else:
                        raise Untranslatable(f"None-test of `{left.id}` not resolved by given/absent")
                else:
                    sym = _CMP.get(type(op))
                    a, b = self.expr(left, env), self.expr(right, env)
                    if sym is None or not (self.scalar(a[1]) and self.scalar(b[1])):
                        raise Untranslatable("condition " + ast.unparse(e))
                    if a[1] in (IDX, INT) and b[1] in (IDX, INT) and IDX in (a[1], b[1]):
                        parts.append(f"{self.idx(a)} {sym} {self.idx(b)}")
                    else:
                        parts.append(f"{self.num(a)} {sym} {self.num(b)}")
                left = right
            if len(parts) == 1 and parts[0] in ("True", "False"):
                return parts[0]
            return "(" + " ∧ ".join(parts) + ")"
        if isinstance(e, ast.Call) and isinstance(e.func, ast.Attribute) and e.func.attr == "any" and not e.args:
            m = self.expr(e.func.value, env)
            if m[1] == MASK:
                return f"({m[0]}.any id = true)"
        if isinstance(e, ast.Name) and e.id not in env and self.types.get(e.id) == "bool":
            return f"({self.param(e.id, 'bool')[0]} = true)"
        if isinstance(e, ast.Constant) and isinstance(e.value, bool):
            return "True" if e.value else "False"
        raise Untranslatable("condition " + ast.unparse(e))

    # -- statements ------------------------------------------------------------------------------
    @staticmethod
    def _only_raises(stmts):
        return bool(stmts) and all(isinstance(s, (ast.Raise, ast.Expr)) for s in stmts) and any(
            isinstance(s, ast.Raise) for s in stmts)

    def _fills_opaque(self, s):
        """`for ...:` whose body (possibly nested loops) only appends to a list named in `opaque`"""
        if not isinstance(s, ast.For) or s.orelse:
            return False
        for b in s.body:
            if isinstance(b, ast.For):
                if not self._fills_opaque(b):
                    return False
            elif not (isinstance(b, ast.Expr) and isinstance(b.value, ast.Call) and isinstance(b.value.func, ast.Attribute)
                      and b.value.func.attr == "append" and isinstance(b.value.func.value, ast.Name)
                      and b.value.func.value.id in self.opaque):
                return False
        return True

    def ret(self, e, env):
        if self.returns_root:
            if self._is_sqrt(e):
                return f"Desc.ScaleOut.root {self.num(self.expr(e.args[0], env))}"
            return f"Desc.ScaleOut.direct {self.num(self.expr(e, env))}"
        return self.num(self.expr(e, env))

    def block(self, stmts, env, ind):
        pad = "  " * ind
        if not stmts:
            raise Untranslatable("function falls off its end without a return")
        s, rest = stmts[0], stmts[1:]
        if isinstance(s, ast.Expr) and isinstance(s.value, ast.Constant):
            return self.block(rest, env, ind)
        if isinstance(s, (ast.Assert, ast.FunctionDef)):
            return self.block(rest, env, ind)
        if isinstance(s, ast.Return):
            return pad + self.ret(s.value, env)
        if isinstance(s, ast.Assign) and len(s.targets) == 1 and isinstance(s.targets[0], ast.Name):
            name = s.targets[0].id
            if name in self.opaque:
                return self.block(rest, env, ind)
            v = s.value
            if isinstance(v, ast.Call) and isinstance(v.func, ast.Attribute) and v.func.attr == "argsort" and not v.args \
                    and not v.keywords:
                self.expr(v.func.value, env)          # the sorted array must be readable
                self.param(name, PERM)
                return self.block(rest, env, ind)
            val = self.expr(v, env)
            if val[1] == INT:
                val = (self.num(val), NUM)
            env = dict(env)
            env[name] = (name, val[1])
            return f"{pad}let {name} : {LEAN_T[val[1]]} := {val[0]}\n" + self.block(rest, env, ind)
        if isinstance(s, ast.AugAssign) and isinstance(s.target, ast.Name) and type(s.op) in _ARITH:
            new = ast.Assign(targets=[ast.Name(id=s.target.id, ctx=ast.Store())],
                             value=ast.BinOp(left=ast.Name(id=s.target.id, ctx=ast.Load()), op=s.op, right=s.value))
            return self.block([ast.fix_missing_locations(ast.copy_location(new, s))] + rest, env, ind)
        if isinstance(s, ast.For) and self._fills_opaque(s):
            return self.block(rest, env, ind)
        if isinstance(s, ast.If):
            if self._only_raises(s.body) and not s.orelse:
                return self.block(rest, env, ind)
            c = self.cond(s.test, env)
            if c == "True":
                return self.block(list(s.body) + rest, env, ind)
            if c == "False":
                return self.block(list(s.orelse) + rest, env, ind)
            th = self.block(list(s.body) + rest, dict(env), ind + 1)
            el = self.block(list(s.orelse) + rest, dict(env), ind + 1)
            return f"{pad}if {c} then\n{th}\n{pad}else\n{el}"
        raise Untranslatable(type(s).__name__ + ": " + ast.unparse(s)[:80])

    def translate(self, lean_name, comment=None):
        body = self.block(list(self.fn.body), {}, 1)
        sig = [a.arg for a in self.fn.args.args]
        names = [n for n, _t in self.params]
        ordered = [p for p in sig if p in names] + [p for p in names if p not in sig]
        tmap = dict(self.params)
        ps = " ".join(f"({p} : {LEAN_T[tmap[p]]})" for p in ordered)
        rt = "Desc.ScaleOut" if self.returns_root else "Rat"
        doc = f"/-- {comment} -/\n" if comment else ""
        return doc + f"def {lean_name} {ps} : {rt} :=\n{body}", [(p, tmap[p]) for p in ordered]


def emit(repo, o, specs):
    """translate each (file, function, lean name, VFn kwargs, comment); a function outside the subset leaves a comment
    instead of a definition, so that only the theorems about THAT function stop checking"""
    import os
    from .translate import parse, find_func
    for path, fname, lean, kw, comment in specs:
        try:
            tree, _src = parse(os.path.join(repo, path))
            text, params = VFn(find_func(tree, fname), **kw).translate(lean, comment)
        except (Untranslatable, KeyError, OSError, SyntaxError) as e:
            o.lines.append(f"-- NOT TRANSLATED: {path}:{fname}: {type(e).__name__}: {str(e)[:200]}".replace("\n", " "))
            o.info[lean] = {"error": str(e)[:200]}
            continue
        o.lines.append(text + "\n")
        o.info[lean] = {"params": params}
