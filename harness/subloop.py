"""Body of the keeper loop of `skgenome/subtract.py:_subtraction` -> Lean (C06): which of the four `np.r_` assemblies is
taken when, and what is yielded.

Companion of harness/splitloop.py (same philosophy).  Re-read on every run; Props/C06SrcSubLoop.lean proves that the
model's `subtractRow` (Model/Interval.lean) EQUALS the generated definition.

Reading of the source (trusted, like the rules at the top of exprtrans.py / looptrans.py)
* the function is a generator whose body is ONE loop `for keeper, rows in <iterable>:` carrying nothing from one
  iteration to the next (checked); its output is the concatenation of what each iteration yields.  `<iterable>` is
  recorded as text and as the flag `<prefix>_over_by_ranges_outer` (= it is `by_ranges(<2nd param>, <1st param>, "outer",
  True)`);
* `keeper` is a row tuple read as its (start, end): `keeper.start`, `keeper.end` are `Int`s; a yielded row is read as
  the pair (start, end) it carries -- `yield keeper` / `yield keeper._replace(start=a, end=b)` (every other field is the
  keeper's; a `_replace` of another field is outside the subset);
* `rows` (a DataFrame) is read as its two columns `ex_start`, `ex_end : List Int` (equal lengths): `rows.start.values`,
  `rows.end.values` are the lists, `rows.start.iat[0]` is `ex_start.headD 0`, `rows.end.iat[-1]` is `ex_end.getLastD 0`
  (pandas raises on an empty frame; the source only takes them under `if len(rows):`), `len(rows)` is the length,
  `x[:-1]` is `dropLast`, `x[1:]` is `drop 1`, `np.r_[a, b, …]` is the concatenation in which a scalar is a one-element
  list;
* `if len(rows):` is `length ≠ 0`; `a and b` on Booleans is `&&`; comparisons are on integers;
* assignments are `let`s; an `if` / `elif` chain continues with the REST of the block in every branch (continuation
  style), `continue` ends the iteration (nothing more is yielded); expression statements (logging) are dropped;
* `for a, b in zip(u, v): <block>` is `(List.zip u v).flatMap (fun p => <block with a = p.1, b = p.2>)`.
"""
from __future__ import annotations

import ast
import os

from .exprtrans import Untranslatable


def _stored(node):
    return {n.id for n in ast.walk(node) if isinstance(n, ast.Name) and isinstance(n.ctx, ast.Store)}


def _loaded(node):
    return {n.id for n in ast.walk(node) if isinstance(n, ast.Name) and isinstance(n.ctx, ast.Load)}


def _has_yield(node):
    return any(isinstance(n, (ast.Yield, ast.YieldFrom)) for n in ast.walk(node))


class Body:
    def __init__(self, fn, prefix):
        self.fn = fn
        self.prefix = prefix
        self.keeper = None
        self.rows = None
        self.nfresh = 0

    # ------------------------------------------------------------------------------------------ expressions
    def column(self, e):
        """`rows.start` / `rows.end` -> the Lean list"""
        if isinstance(e, ast.Attribute) and isinstance(e.value, ast.Name) and e.value.id == self.rows \
                and e.attr in ("start", "end"):
            return "ex_" + e.attr
        return None

    def expr(self, e, env):
        """(term, type) with type in Int, List, Bool, Lit"""
        if isinstance(e, ast.Name):
            if e.id in env:
                return env[e.id]
            raise Untranslatable("unknown name " + e.id)
        if isinstance(e, ast.Constant) and isinstance(e.value, int) and not isinstance(e.value, bool):
            return str(e.value), "Lit"
        if isinstance(e, ast.Attribute):
            if isinstance(e.value, ast.Name) and e.value.id == self.keeper and e.attr in ("start", "end"):
                return "keeper_" + e.attr, "Int"
            if e.attr == "values" and self.column(e.value):
                return self.column(e.value), "List"
        if isinstance(e, ast.Subscript):
            sl = e.slice
            # rows.start.iat[0] / rows.end.iat[-1]
            if isinstance(e.value, ast.Attribute) and e.value.attr == "iat" and self.column(e.value.value):
                col = self.column(e.value.value)
                if isinstance(sl, ast.Constant) and sl.value == 0:
                    return f"{col}.headD 0", "Int"
                if isinstance(sl, ast.UnaryOp) and isinstance(sl.op, ast.USub) and isinstance(sl.operand, ast.Constant) \
                        and sl.operand.value == 1:
                    return f"{col}.getLastD 0", "Int"
                raise Untranslatable("iat index " + ast.unparse(sl))
            # np.r_[a, b]
            if isinstance(e.value, ast.Attribute) and e.value.attr == "r_" and isinstance(e.value.value, ast.Name) \
                    and e.value.value.id in ("np", "numpy"):
                items = sl.elts if isinstance(sl, ast.Tuple) else [sl]
                parts = []
                for it in items:
                    t, ty = self.expr(it, env)
                    if ty == "Int":
                        parts.append(f"[{t}]")
                    elif ty == "List":
                        parts.append(t)
                    else:
                        raise Untranslatable("np.r_ item " + ast.unparse(it))
                return "(" + " ++ ".join(parts) + ")", "List"
            if isinstance(sl, ast.Slice) and sl.step is None:
                t, ty = self.expr(e.value, env)
                if ty != "List":
                    raise Untranslatable("slice of a non-list")
                lo, hi = sl.lower, sl.upper
                if lo is None and isinstance(hi, ast.UnaryOp) and isinstance(hi.op, ast.USub) \
                        and isinstance(hi.operand, ast.Constant) and hi.operand.value == 1:
                    return f"({t}).dropLast", "List"
                if hi is None and isinstance(lo, ast.Constant) and isinstance(lo.value, int) and lo.value >= 0:
                    return f"({t}).drop {lo.value}", "List"
                raise Untranslatable("slice " + ast.unparse(e))
        if isinstance(e, ast.Call) and isinstance(e.func, ast.Name) and e.func.id == "len" and len(e.args) == 1 \
                and not e.keywords:
            a = e.args[0]
            if isinstance(a, ast.Name) and a.id == self.rows:
                return "ex_start.length", "Nat"
            t, ty = self.expr(a, env)
            if ty == "List":
                return f"({t}).length", "Nat"
        if isinstance(e, (ast.Compare, ast.BoolOp)) or (isinstance(e, ast.UnaryOp) and isinstance(e.op, ast.Not)):
            return f"decide ({self.cond(e, env)})", "Bool"
        raise Untranslatable("expression " + ast.unparse(e))

    def cond(self, e, env):
        """a Lean Prop"""
        if isinstance(e, ast.BoolOp):
            parts = [self.expr(v, env) for v in e.values]
            if all(ty == "Bool" for _, ty in parts):
                op = " && " if isinstance(e.op, ast.And) else " || "
                return "(" + op.join(t for t, _ in parts) + ") = true"
            op = " ∧ " if isinstance(e.op, ast.And) else " ∨ "
            return op.join(f"({self.cond(v, env)})" for v in e.values)
        if isinstance(e, ast.UnaryOp) and isinstance(e.op, ast.Not):
            return f"¬ ({self.cond(e.operand, env)})"
        if isinstance(e, ast.Compare) and len(e.ops) == 1:
            ops = {ast.Eq: "=", ast.NotEq: "≠", ast.Lt: "<", ast.LtE: "≤", ast.Gt: ">", ast.GtE: "≥"}
            op = ops.get(type(e.ops[0]))
            if op is None:
                raise Untranslatable("comparison " + ast.unparse(e))
            a, ta = self.expr(e.left, env)
            b, tb = self.expr(e.comparators[0], env)
            if ta == "Lit" and tb in ("Int", "Nat"):
                a, ta = f"({a} : {tb})", tb
            if tb == "Lit" and ta in ("Int", "Nat"):
                b, tb = f"({b} : {ta})", ta
            if ta != tb or ta not in ("Int", "Nat"):
                raise Untranslatable("comparison of " + ta + " with " + tb)
            return f"{a} {op} {b}"
        t, ty = self.expr(e, env)
        if ty == "Bool":
            return f"{t} = true"
        if ty == "Nat":
            return f"{t} ≠ 0"           # truthiness of a length
        raise Untranslatable("test " + ast.unparse(e))

    def yielded(self, e, env):
        if isinstance(e, ast.Name) and e.id == self.keeper:
            return "(keeper_start, keeper_end)"
        if isinstance(e, ast.Call) and isinstance(e.func, ast.Attribute) and e.func.attr == "_replace" \
                and isinstance(e.func.value, ast.Name) and e.func.value.id == self.keeper and not e.args:
            kws = {k.arg: k.value for k in e.keywords}
            if not set(kws) <= {"start", "end"}:
                raise Untranslatable("_replace of a field other than start / end")
            s = self.expr(kws["start"], env) if "start" in kws else ("keeper_start", "Int")
            t = self.expr(kws["end"], env) if "end" in kws else ("keeper_end", "Int")
            if s[1] != "Int" or t[1] != "Int":
                raise Untranslatable("coordinate that is not an integer")
            return f"({s[0]}, {t[0]})"
        raise Untranslatable("yield " + ast.unparse(e))

    # ------------------------------------------------------------------------------------------ statements
    def block(self, stmts, env, ind):
        pad = "  " * ind
        if not stmts:
            return f"{pad}[]"
        st, rest = stmts[0], stmts[1:]
        if isinstance(st, ast.Expr) and not _has_yield(st):
            return self.block(rest, env, ind)
        if isinstance(st, ast.Continue):
            return f"{pad}[]"
        if isinstance(st, ast.Assign) and len(st.targets) == 1 and isinstance(st.targets[0], ast.Name):
            name = st.targets[0].id
            term, typ = self.expr(st.value, env)
            if typ == "Lit":
                raise Untranslatable("literal bound to a local")
            lt = {"List": "List Int"}.get(typ, typ)
            env2 = dict(env)
            env2[name] = (name + "_" if name in ("end", "start") else name, typ)
            return f"{pad}let {env2[name][0]} : {lt} := {term}\n" + self.block(rest, env2, ind)
        if isinstance(st, ast.Expr) and isinstance(st.value, ast.Yield) and st.value.value is not None:
            return f"{pad}{self.yielded(st.value.value, env)} :: (\n{self.block(rest, env, ind + 1)})"
        if isinstance(st, ast.If):
            a = self.block(list(st.body) + rest, env, ind + 1)
            b = self.block(list(st.orelse) + rest, env, ind + 1)
            return f"{pad}if {self.cond(st.test, env)} then\n{a}\n{pad}else\n{b}"
        if isinstance(st, ast.For) and not st.orelse:
            it = st.iter
            if not (isinstance(it, ast.Call) and isinstance(it.func, ast.Name) and it.func.id == "zip"
                    and len(it.args) == 2 and not it.keywords and isinstance(st.target, ast.Tuple)
                    and len(st.target.elts) == 2 and all(isinstance(x, ast.Name) for x in st.target.elts)):
                raise Untranslatable("inner loop is not `for a, b in zip(u, v)`")
            u, tu = self.expr(it.args[0], env)
            v, tv = self.expr(it.args[1], env)
            if tu != "List" or tv != "List":
                raise Untranslatable("zip of non-lists")
            a, b = (x.id for x in st.target.elts)
            if (_stored(ast.Module(body=list(st.body), type_ignores=[])) - {a, b}) & \
                    (set().union(*[_loaded(s) for s in rest]) if rest else set()):
                raise Untranslatable("the inner loop carries a variable out")
            self.nfresh += 1
            p = "p" if self.nfresh == 1 else f"p{self.nfresh}"
            env2 = dict(env)
            env2[a] = (f"{p}.1", "Int")
            env2[b] = (f"{p}.2", "Int")
            inner = self.block(list(st.body), env2, ind + 2)
            tail = self.block(rest, env, ind + 1)
            return (f"{pad}(List.zip {u} {v}).flatMap (fun ({p} : Int × Int) =>\n{inner}) ++ (\n{tail})")
        raise Untranslatable("statement " + ast.unparse(st).split("\n")[0])

    # ------------------------------------------------------------------------------------------ the function
    def run(self):
        body = [s for s in self.fn.body if not (isinstance(s, ast.Expr) and isinstance(s.value, ast.Constant))]
        if len(body) != 1 or not isinstance(body[0], ast.For) or body[0].orelse:
            raise Untranslatable("the body is not one `for` loop")
        loop = body[0]
        tg = loop.target
        if not (isinstance(tg, ast.Tuple) and len(tg.elts) == 2 and all(isinstance(x, ast.Name) for x in tg.elts)):
            raise Untranslatable("the loop is not `for keeper, rows in ...`")
        self.keeper, self.rows = tg.elts[0].id, tg.elts[1].id
        # nothing carried from one iteration to the next: every name stored in the body is stored before it is read on
        # every path -- guaranteed here because an unbound name is `unknown name` for `expr`, branch by branch
        if {self.keeper, self.rows} & _stored(ast.Module(body=list(loop.body), type_ignores=[])):
            raise Untranslatable("the loop variables are rebound")
        term = self.block(list(loop.body), {}, 1)
        it = loop.iter
        args = [a.arg for a in self.fn.args.args]
        over = (isinstance(it, ast.Call) and isinstance(it.func, ast.Name) and it.func.id == "by_ranges"
                and not it.keywords and len(it.args) == 4 and len(args) >= 2
                and isinstance(it.args[0], ast.Name) and it.args[0].id == args[1]
                and isinstance(it.args[1], ast.Name) and it.args[1].id == args[0]
                and isinstance(it.args[2], ast.Constant) and it.args[2].value == "outer"
                and isinstance(it.args[3], ast.Constant) and it.args[3].value is True)
        text = ast.unparse(it).replace('"', "'")
        return [
            f"/-- `_subtraction`, the body of `for {self.keeper}, {self.rows} in ...:` -- the (start, end) of the rows yielded for "
            f"one keeper and the start / end columns of its excluded rows -/\n"
            f"def {self.prefix}_body (keeper_start keeper_end : Int) (ex_start ex_end : List Int) : List (Int × Int) :=\n{term}",
            f"/-- what the loop runs over -/\ndef {self.prefix}_rows_from : String := \"{text}\"",
            f"/-- the loop runs over `by_ranges(other, table, \"outer\", True)` -/\n"
            f"def {self.prefix}_over_by_ranges_outer : Bool := {'true' if over else 'false'}",
        ]


def emit_body(repo, o, path, func, prefix):
    from .translate import parse, find_func
    try:
        tree, _src = parse(os.path.join(repo, path))
        fn = find_func(tree, func, None)
        for d in Body(fn, prefix).run():
            o.lines.append(d)
        o.info[prefix] = {"ok": True}
    except (Untranslatable, KeyError, OSError, SyntaxError, IndexError, AttributeError) as e:
        o.lines.append(f"-- NOT TRANSLATED: {path}:{func}:{prefix}: {type(e).__name__}: {str(e)[:200]}".replace("\n", " "))
        o.info[prefix] = {"error": str(e)[:200]}
