"""Step plan of an imperative Python function -> Lean `List <Step>` over named Bool atoms (source reader next to
dectrans.py, which follows ONE returned value; this one follows the ORDER AND GUARDS OF THE EFFECTS of a procedure that
rewrites a table in place -- used for cnvlib/call.py:do_call, Generated/ExprsDoCall.lean).

Reading of the source (part of the trusted base)
* the function body is a sequence of statements; every statement that is not skipped must be in the STEP vocabulary
  (normalised source text `ast.unparse(stmt)` -> constructor name, or -> None = "contributes no effect", stated by the
  extractor); a statement that is in neither is `Untranslatable` (the definition is replaced by a comment and the theorems
  about it stop checking) -- never silently dropped;
* skipped without a vocabulary entry: the docstring, `pass`, and expression statements that call `logging.<level>(..)`;
* `if c: A else: B` (an `elif` is the `else: if` it abbreviates) reads `(if c then plan A else plan B) ++ plan rest`; when
  A or B ends the function (`raise` / `return` somewhere inside) the rest is continued inside both arms instead:
  `if c then plan (A ; rest) else plan (B ; rest)`, and nothing follows a `raise` / `return`;
* a condition is a combination by `and` / `or` / `not` of ATOMS, looked up by their source text (dectrans.Dec.cond: a local
  bound once at the top level is read through);
* `raise E(..)` is the step the vocabulary gives for the text `raise E`; `return x` the one for `return x`;
* a `for` loop is ONE step, looked up by its header `for <target> in <iter>`; its body is read by the same rules into a
  separate definition (one iteration), with its own atoms;
* no `while` / `try` / `with` / nested function.
"""
from __future__ import annotations

import ast

from .dectrans import Dec
from .exprtrans import Untranslatable


def _is_logging(s):
    return (isinstance(s, ast.Expr) and isinstance(s.value, ast.Call) and isinstance(s.value.func, ast.Attribute)
            and isinstance(s.value.func.value, ast.Name) and s.value.func.value.id == "logging")


def _is_doc(s):
    return isinstance(s, ast.Expr) and isinstance(s.value, ast.Constant) and isinstance(s.value.value, str)


def _ends(stmts):
    return any(isinstance(n, (ast.Raise, ast.Return)) for s in stmts for n in ast.walk(s))


class Plan:
    def __init__(self, fn, atoms, steps, ctor_type):
        self.dec = Dec(fn, dict(atoms), {})
        self.dec.once = {}          # effects are followed, not values: no read-through of locals in statements
        self.steps = dict(steps)
        self.typ = ctor_type
        self.loops = []             # (step name, For node) met on the way

    def step(self, s):
        if isinstance(s, ast.Raise):
            exc = s.exc.func if isinstance(s.exc, ast.Call) else s.exc
            key = "raise " + ast.unparse(exc)
        elif isinstance(s, ast.For):
            if s.orelse:
                raise Untranslatable("for .. else")
            key = f"for {ast.unparse(s.target)} in {ast.unparse(s.iter)}"
        else:
            key = ast.unparse(s)
        if key not in self.steps:
            raise Untranslatable(f"statement `{key[:120]}` is not in the vocabulary")
        name = self.steps[key]
        if isinstance(s, ast.For) and name is not None:
            self.loops.append((name, s))
        return name

    def plan(self, stmts):
        """Lean term of type List <Step>"""
        parts = []
        stmts = list(stmts)
        while stmts:
            s = stmts.pop(0)
            if _is_doc(s) or isinstance(s, ast.Pass) or _is_logging(s):
                continue
            if isinstance(s, ast.If):
                c = self.dec.cond(s.test)
                if _ends(s.body) or _ends(s.orelse):
                    parts.append(f"(if {c} then {self.plan(list(s.body) + stmts)} else {self.plan(list(s.orelse) + stmts)})")
                    stmts = []
                    break
                parts.append(f"(if {c} then {self.plan(s.body)} else {self.plan(s.orelse)})")
                continue
            if isinstance(s, (ast.While, ast.Try, ast.With, ast.FunctionDef, ast.ClassDef)):
                raise Untranslatable(type(s).__name__ + " in a step plan")
            name = self.step(s)
            if name is not None:
                parts.append(f"[{self.typ}.{name}]")
            if isinstance(s, (ast.Raise, ast.Return)):
                break
        if not parts:
            return f"([] : List {self.typ})"
        return "(" + " ++ ".join(parts) + ")"


def emit_plan(o, fn, lean, atoms, steps, typ, comment=None, where="", body=None):
    """append `def lean (atoms.. : Bool) : List typ := <plan>`; returns the loops met [(step, For node)] or None"""
    try:
        p = Plan(fn, atoms, steps, typ)
        term = p.plan(fn.body if body is None else body)
        names = []
        for _t, a in atoms:
            if a not in names:
                names.append(a)
        unused = [a for a in names if a not in p.dec.used_atoms]
    except (Untranslatable, KeyError, RecursionError) as e:
        o.lines.append(f"-- NOT TRANSLATED: {where} -> {lean}: {type(e).__name__}: {str(e)[:200]}".replace("\n", " "))
        o.info[lean] = {"error": str(e)[:200]}
        return None
    if comment:
        o.lines.append(f"/-- {comment} -/")
    sig = f"({' '.join(names)} : Bool) " if names else ""
    o.lines.append(f"def {lean} {sig}: List {typ} :=\n  {term}")
    o.info[lean] = {"atoms": names, "unused": unused}
    return p.loops
