"""cnvlib/smoothing.py:_pad_array -> Generated/ExprsPad.lean (see harness/padslices.py for the reading of the step -1 slices).
Props/C19SrcPad.lean proves the generated concatenation equal to the model's `Smooth.padArray` for every wing >= 1."""
from ..padslices import emit

NAME = "ExprsPad"
IMPORTS = ["CnvVerif.Model.PadExt5"]
SPECS = [("cnvlib/smoothing.py", "_pad_array", "src_pad_array", "smoothing._pad_array: mirrored edges")]


def extract(repo, o):
    emit(repo, o, SPECS)
