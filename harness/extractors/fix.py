"""cnvlib/fix.py constants -> Generated/FixConsts.lean"""
import ast
import os
from ..translate import seg, parse, find_func, rat, dec

NAME = "FixConsts"


def extract(repo, o):
    tree, src = parse(os.path.join(repo, "cnvlib/fix.py"))
    fn = find_func(tree, "apply_weights")
    args = fn.args.args
    d = fn.args.defaults
    for a, v in zip(args[len(args) - len(d):], d):
        if a.arg == "epsilon":
            o.flt("WEIGHT_EPSILON", ast.literal_eval(v), seg(src, v), "apply_weights epsilon (minimum bin weight)")
    # `x = 0.9` emphasis of the reference-spread weight
    # (whatever the local is called: the factor of `fancy_wt` in `<e> * fancy_wt + (1 - <e>) * simple_wt`)
    from ..translate import expand
    emph = None
    for n in ast.walk(fn):
        if isinstance(n, ast.BinOp) and isinstance(n.op, ast.Add) and isinstance(n.left, ast.BinOp) \
                and isinstance(n.left.op, ast.Mult) and isinstance(n.left.right, ast.Name) and n.left.right.id == "fancy_wt":
            emph = expand(n.left.left, fn, tree)
    if emph is None:
        # the same sum written the other way round: `(1 - <e>) * simple_wt + fancy_wt * <e>` / `fancy_wt * <e> + ...`
        for n in ast.walk(fn):
            if isinstance(n, ast.BinOp) and isinstance(n.op, ast.Mult):
                for a, b in ((n.left, n.right), (n.right, n.left)):
                    if isinstance(a, ast.Name) and a.id == "fancy_wt" and emph is None:
                        emph = expand(b, fn, tree)
    if emph is None:
        for n in ast.walk(fn):
            if isinstance(n, ast.Assign) and isinstance(n.targets[0], ast.Name) and n.targets[0].id == "x":
                emph = n.value
    if emph is not None and isinstance(emph, ast.Constant):
        o.flt("WEIGHT_REF_EMPHASIS", ast.literal_eval(emph), seg(src, emph), "apply_weights x")
    # upper clip of the weights: `weights.clip(epsilon, 1.0)`
    for n in ast.walk(fn):
        if isinstance(n, ast.Call) and isinstance(n.func, ast.Attribute) and n.func.attr == "clip" and len(n.args) == 2:
            o.flt("WEIGHT_MAX", ast.literal_eval(n.args[1]), seg(src, n.args[1]), "apply_weights clip upper bound")
    # do_fix: which corrections each class gets (positional booleans of the two load_adjust_coverages calls)
    fd = find_func(tree, "do_fix")
    calls = [n for n in ast.walk(fd) if isinstance(n, ast.Call) and isinstance(n.func, ast.Name)
             and n.func.id == "load_adjust_coverages"]
    calls.sort(key=lambda n: n.lineno)
    for name, c in zip(("TARGET", "ANTITARGET"), calls):
        flags = [ast.unparse(a) for a in c.args[2:6]]
        o.defn(f"FIX_{name}_FLAGS", "List String", "[" + ", ".join('"%s"' % f for f in flags) + "]",
               "skip_low, fix_gc, fix_edge, fix_rmask arguments of load_adjust_coverages")
    # center_by_window seed
    fc = find_func(tree, "center_by_window")
    seeds = [ast.literal_eval(n.args[0]) for n in ast.walk(fc) if isinstance(n, ast.Call)
             and isinstance(n.func, ast.Attribute) and n.func.attr == "seed"]
    o.defn("CENTER_BY_WINDOW_SEEDS", "List Nat", "[" + ", ".join(str(s) for s in seeds) + "]",
           "np.random.seed(...) calls in center_by_window")
