"""Pieces of skgenome's interval arithmetic -> Generated/ExprsInterval.lean (C06).

The functions themselves are generators over DataFrames (loops, `yield`, `np.r_`), outside the expression subset; what
is read on every run are their ARITHMETIC PIECES and DECISIONS (harness/exprtrans.py, "pieces"): the bin count and
the cut position of `_split_targets`, the gap test of `merge` / `_nonoverlapping_groups` / `flatten`, the edge tests
and the keep-test of `_subtraction`, the clip expression and the drop test of `resize_ranges`.  Props/C06Src.lean proves
that the hand-written model functions are built from exactly these pieces, so an edit to one of them in /repo changes
the generated term and breaks that obligation.  The control flow around the pieces stays with the correspondence run.

ATOMS (elementwise reading, trusted): the verbatim column expressions below stand for one number per row / per call.
"""
import ast

from ..exprtrans import emit_pieces

NAME = "ExprsInterval"


def _assign(name):
    def pick(fn):
        vals = [n.value for n in ast.walk(fn) if isinstance(n, ast.Assign) and len(n.targets) == 1
                and isinstance(n.targets[0], ast.Name) and n.targets[0].id == name]
        return vals[0] if len(vals) == 1 else None
    return pick


def _calls(node):
    return {ast.unparse(n.func) for n in ast.walk(node) if isinstance(n, ast.Call)}


def _assign_or(name, pred):
    """the value bound to `name`; when the local has been renamed, the ONE assignment whose value satisfies `pred`"""
    def pick(fn):
        got = _assign(name)(fn)
        if got is not None:
            return got
        vals = [n.value for n in ast.walk(fn) if isinstance(n, ast.Assign) and len(n.targets) == 1
                and isinstance(n.targets[0], ast.Name) and pred(n.value)]
        return vals[0] if len(vals) == 1 else None
    return pick


def _names(node):
    return {n.id for n in ast.walk(node) if isinstance(n, ast.Name)} | \
           {n.attr for n in ast.walk(node) if isinstance(n, ast.Attribute)}


def _if_test(*mentions, nth=0):
    """the test of the nth `if` (source order) whose test mentions all the given names"""
    def pick(fn):
        tests = [n for n in ast.walk(fn) if isinstance(n, ast.If) and set(mentions) <= _names(n.test)]
        tests.sort(key=lambda n: (n.lineno, n.col_offset))
        return tests[nth].test if len(tests) > nth else None
    return pick


def _all_receiver(nth=0):
    """`X` of the nth `if X.all(): return table` -- the elementwise fast-path test"""
    def pick(fn):
        out = []
        for n in ast.walk(fn):
            if isinstance(n, ast.If) and isinstance(n.test, ast.Call) and isinstance(n.test.func, ast.Attribute) \
                    and n.test.func.attr == "all" and not n.test.args:
                out.append(n)
        out.sort(key=lambda n: n.lineno)
        return out[nth].test.func.value if len(out) > nth else None
    return pick


def _compare_in_assign(name):
    """the comparison inside the value bound to `name` (`group_keys = np.r_[False, gap_sizes > -bp].cumsum()`)"""
    def pick(fn):
        val = _assign(name)(fn)
        if val is None:
            return None
        cmps = [n for n in ast.walk(val) if isinstance(n, ast.Compare)]
        return cmps[0] if len(cmps) == 1 else None
    return pick


def _keyword_of_call(method, kw):
    """the value of keyword `kw` in the one call `.method(...)` of the function (`table.assign(start=..., end=...)`)"""
    def pick(fn):
        calls = [n for n in ast.walk(fn) if isinstance(n, ast.Call) and isinstance(n.func, ast.Attribute)
                 and n.func.attr == method]
        if len(calls) != 1:
            return None
        vals = [k.value for k in calls[0].keywords if k.arg == kw]
        return vals[0] if len(vals) == 1 else None
    return pick


GAP_ATOMS = {"table.start.values[1:]": "start_next", "table.end.cummax().values[:-1]": "end_cummax_prev"}
SUB_ATOMS = {"rows_to_exclude.start.iat[0]": "first_excluded_start", "rows_to_exclude.end.iat[-1]": "last_excluded_end"}
RESIZE_ATOMS = {"table['start']": "start", "table['end']": "end_", "self.chromosome.map(chrom_sizes)": "chrom_size"}

SPECS = [
    # -- subdivide._split_targets ------------------------------------------------------------------------------
    dict(path="skgenome/subdivide.py", func="_split_targets", lean="src_split_nbins",
         pick=_assign_or("nbins", lambda v: "round" in _calls(v)),
         order=["row_start", "row_end", "avg_size"],
         comment="_split_targets: `nbins = int(round(span / avg_size)) or 1` with `span = row.end - row.start` read through"),
    dict(path="skgenome/subdivide.py", func="_split_targets", lean="src_split_bin_end",
         pick=_assign_or("bin_end", lambda v: "int" in _calls(v) and "round" not in _calls(v)),
         order=["row_start", "row_end", "avg_size", "i"],
         comment="_split_targets: `bin_end = row.start + int(i * bin_size)`, `bin_size = span / nbins` read through"),
    dict(path="skgenome/subdivide.py", func="_split_targets", lean="src_split_keeps", kind="cond", num="Int",
         pick=_if_test("min_size"), order=["row_start", "row_end", "min_size"],
         comment="_split_targets: `if span >= min_size:` (regions below the minimum size yield nothing)"),
    # -- merge.py: the gap test ------------------------------------------------------------------------------------
    dict(path="skgenome/merge.py", func="_nonoverlapping_groups", lean="src_merge_new_group", kind="cond", num="Int",
         pick=_compare_in_assign("group_keys"), atoms=GAP_ATOMS, order=["start_next", "end_cummax_prev", "bp"],
         comment="_nonoverlapping_groups: a new group starts where `gap_sizes > -bp`, "
                 "`gap_sizes = table.start.values[1:] - table.end.cummax().values[:-1]`"),
    dict(path="skgenome/merge.py", func="merge", lean="src_merge_fast_path", kind="cond", num="Int",
         pick=_all_receiver(), atoms=GAP_ATOMS, order=["start_next", "end_cummax_prev", "bp"],
         comment="merge: the table is returned as it is when `(gap_sizes > -bp).all()`"),
    dict(path="skgenome/merge.py", func="flatten", lean="src_flatten_fast_path", kind="cond", num="Int",
         pick=_all_receiver(), atoms=GAP_ATOMS, order=["start_next", "end_cummax_prev"],
         comment="flatten: the table is returned as it is when every start is >= the running maximum of the earlier ends"),
    dict(path="skgenome/merge.py", func="_flatten_tuples", lean="src_flatten_in_play", kind="cond", num="Int",
         pick=lambda fn: next((c.ifs[0] for n in ast.walk(fn) if isinstance(n, ast.Assign)
                               and isinstance(n.targets[0], ast.Name) and n.targets[0].id == "rows_in_play"
                               and isinstance(n.value, ast.ListComp) for c in n.value.generators if len(c.ifs) == 1), None),
         order=["row_start", "row_end", "bp_start", "bp_end"],
         comment="_flatten_tuples: a row is in play on the piece [bp_start, bp_end) when it spans it"),
    # -- subtract._subtraction ---------------------------------------------------------------------------------------
    dict(path="skgenome/subtract.py", func="_subtraction", lean="src_subtract_keep_left", kind="cond", num="Int",
         pick=_assign("keep_left"), atoms=SUB_ATOMS, order=["keeper_start", "first_excluded_start"],
         comment="_subtraction: keep_left"),
    dict(path="skgenome/subtract.py", func="_subtraction", lean="src_subtract_keep_right", kind="cond", num="Int",
         pick=_assign("keep_right"), atoms=SUB_ATOMS, order=["keeper_end", "last_excluded_end"],
         comment="_subtraction: keep_right"),
    dict(path="skgenome/subtract.py", func="_subtraction", lean="src_subtract_keep_piece", kind="cond", num="Int",
         pick=_if_test("end", "start"), order=["start", "end_"], atoms={"end": "end_"},
         comment="_subtraction: a (start, end) pair is yielded `if end > start`"),
    # -- GenomicArray.resize_ranges ---------------------------------------------------------------------------------------
    dict(path="skgenome/gary.py", func="resize_ranges", cls="GenomicArray", lean="src_resize_start", num="Int",
         pick=_keyword_of_call("assign", "start"), atoms=RESIZE_ATOMS, given=["chrom_sizes"], keep=["limits"],
         order=["start", "bp", "chrom_size"], comment="resize_ranges with chrom_sizes: the new start"),
    dict(path="skgenome/gary.py", func="resize_ranges", cls="GenomicArray", lean="src_resize_end", num="Int",
         pick=_keyword_of_call("assign", "end"), atoms=RESIZE_ATOMS, given=["chrom_sizes"], keep=["limits"],
         order=["end_", "bp", "chrom_size"], comment="resize_ranges with chrom_sizes: the new end"),
    dict(path="skgenome/gary.py", func="resize_ranges", cls="GenomicArray", lean="src_resize_start_nosizes", num="Int",
         pick=_keyword_of_call("assign", "start"), atoms=RESIZE_ATOMS, absent=["chrom_sizes"], keep=["limits"],
         order=["start", "bp"], comment="resize_ranges without chrom_sizes: the new start"),
    dict(path="skgenome/gary.py", func="resize_ranges", cls="GenomicArray", lean="src_resize_end_nosizes", num="Int",
         pick=_keyword_of_call("assign", "end"), atoms=RESIZE_ATOMS, absent=["chrom_sizes"], keep=["limits"],
         order=["end_", "bp"], comment="resize_ranges without chrom_sizes: the new end"),
    dict(path="skgenome/gary.py", func="resize_ranges", cls="GenomicArray", lean="src_resize_drops", kind="cond", num="Int",
         pick=_if_test("bp"), order=["bp"], comment="resize_ranges: rows are dropped only `if bp < 0:`"),
    dict(path="skgenome/gary.py", func="resize_ranges", cls="GenomicArray", lean="src_resize_ok_size", kind="cond", num="Int",
         pick=_assign("ok_size"), atoms=RESIZE_ATOMS, keep=["table"], order=["start", "end_"],
         comment="resize_ranges: ... those with `end - start > 0` are kept"),
]


def extract(repo, o):
    emit_pieces(repo, o, SPECS)
