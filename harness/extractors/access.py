"""cnvlib/antitarget.py contig-name rule, cnvlib/access.py defaults -> Generated/AccessConsts.lean

`re_noncanonical` is a `"|".join((...))` of small patterns used with `.search`.  Each top-level
alternative is translated to `(anchoredAtStart, atoms, anchoredAtEnd)` where an atom is
`some c` (the literal character c) or `none` (the class `\\d`).  Any other regex construct means the
source no longer has the shape this extractor (and the Lean matcher in Model/Access.lean) knows:
the extractor raises, which the check treats as a broken tie.
"""
import ast
import os
from ..translate import parse, find_func, func_defaults

NAME = "AccessConsts"

_META = set(".[](){}*+?")


def _pattern_string(tree):
    for node in tree.body:
        if isinstance(node, ast.Assign) and len(node.targets) == 1 and \
                getattr(node.targets[0], "id", None) == "re_noncanonical":
            call = node.value  # re.compile(<expr>)
            if not (isinstance(call, ast.Call) and getattr(call.func, "attr", None) == "compile"
                    and len(call.args) == 1 and not call.keywords):
                raise ValueError("re_noncanonical is not a plain re.compile(pattern)")
            arg = call.args[0]
            if isinstance(arg, ast.Constant) and isinstance(arg.value, str):
                return arg.value
            if (isinstance(arg, ast.Call) and getattr(arg.func, "attr", None) == "join"
                    and isinstance(arg.func.value, ast.Constant) and isinstance(arg.args[0], (ast.Tuple, ast.List))):
                parts = [ast.literal_eval(e) for e in arg.args[0].elts]
                return arg.func.value.value.join(parts)
            raise ValueError("re_noncanonical pattern has an unknown shape")
    raise KeyError("re_noncanonical")


def _alternative(alt):
    """one alternative -> (anchor_start, [atoms], anchor_end); atom = str (literal) | None (\\d)"""
    a_start = alt.startswith("^")
    if a_start:
        alt = alt[1:]
    atoms = []
    i = 0
    a_end = False
    while i < len(alt):
        c = alt[i]
        if c == "\\":
            if i + 1 >= len(alt):
                raise ValueError("dangling backslash")
            n = alt[i + 1]
            if n == "d":
                atoms.append(None)
            elif not n.isalnum():
                atoms.append(n)
            else:
                raise ValueError(f"unsupported escape \\{n}")
            i += 2
            continue
        if c == "$" and i == len(alt) - 1:
            a_end = True
            i += 1
            continue
        if c in _META or c in "^$|":
            raise ValueError(f"unsupported regex construct {c!r} in {alt!r}")
        atoms.append(c)
        i += 1
    if not atoms:
        raise ValueError("empty alternative")
    return a_start, atoms, a_end


def _lean_char(c):
    if c == "'":
        return "'\\''"
    if c == "\\":
        return "'\\\\'"
    if not (32 <= ord(c) < 127):
        raise ValueError("non-printable literal in contig rule")
    return f"'{c}'"


def extract(repo, o):
    tree, _src = parse(os.path.join(repo, "cnvlib/antitarget.py"))
    pat = _pattern_string(tree)
    alts = [_alternative(a) for a in pat.split("|")]
    rows = []
    for a_start, atoms, a_end in alts:
        at = ", ".join("none" if a is None else f"some {_lean_char(a)}" for a in atoms)
        rows.append(f"({'true' if a_start else 'false'}, [{at}], {'true' if a_end else 'false'})")
    o.defn("NONCANONICAL_RULE", "List (Bool × List (Option Char) × Bool)", "[" + ",\n  ".join(rows) + "]",
           "cnvlib/antitarget.py re_noncanonical (used with .search): one entry per alternative, "
           "(anchored at start, atoms: some c = literal c / none = \\\\d, anchored at end)")
    # the function that applies it must still be `not re_noncanonical.search(name)`
    fn = find_func(tree, "is_canonical_contig_name")
    body = [s for s in fn.body if not isinstance(s, ast.Expr)]
    if len(body) != 1 or ast.unparse(body[0]) != "return not re_noncanonical.search(name)":
        raise ValueError("is_canonical_contig_name no longer is `not re_noncanonical.search(name)`")
    tree2, _ = parse(os.path.join(repo, "cnvlib/access.py"))
    d = func_defaults(find_func(tree2, "do_access"))
    o.defn("ACCESS_DEFAULT_MIN_GAP", "Int", str(int(d["min_gap_size"])), "do_access default min_gap_size")
    o.defn("ACCESS_DEFAULT_SKIP_NONCANONICAL", "Bool", "true" if d["skip_noncanonical"] else "false",
           "do_access default skip_noncanonical")
