"""Source expressions -> Generated/ExprsMirror.lean (see harness/exprtrans.py for the reading of the Python subset).
Props prove that the hand-written model functions equal these generated ones, so an edit to a formula in /repo
changes the generated term and breaks that proof obligation."""
from ..exprtrans import emit

NAME = "ExprsMirror"
SPECS = [
    ("cnvlib/vary.py", "_mirrored_baf", "src_mirrored_baf_auto", {"absent": ["above_half"]},
     "vary._mirrored_baf(vals) with above_half left to the median test, one element"),
]


def extract(repo, o):
    emit(repo, o, SPECS)
