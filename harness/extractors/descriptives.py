"""cnvlib/descriptives.py and cnvlib/smoothing.py constants -> Generated/DescConsts.lean (property C19)"""
import ast
import os
from ..translate import seg as _seg, parse, find_func, func_defaults, rat

NAME = "DescConsts"


def _default_node(fn, name):
    args = fn.args.args
    d = fn.args.defaults
    for a, v in zip(args[len(args) - len(d):], d):
        if a.arg == name:
            return v
    raise KeyError(name)


def _body_nodes(fn):
    """nodes of the function body without the docstring and without nested defaults"""
    body = fn.body
    if body and isinstance(body[0], ast.Expr) and isinstance(getattr(body[0], "value", None), ast.Constant) \
            and isinstance(body[0].value.value, str):
        body = body[1:]
    for stmt in body:
        yield from ast.walk(stmt)


def _float_consts(fn):
    return [n for n in _body_nodes(fn) if isinstance(n, ast.Constant) and isinstance(n.value, float)]


def _only(xs, what):
    if len(xs) != 1:
        raise ValueError(f"expected exactly one {what}, found {len(xs)}")
    return xs[0]


def _percentile_args(fn):
    out = []
    for n in _body_nodes(fn):
        if isinstance(n, ast.Call) and isinstance(n.func, ast.Attribute) and n.func.attr == "percentile":
            out.append(n.args[1])
    return out


def extract(repo, o):
    tree, src = parse(os.path.join(repo, "cnvlib/descriptives.py"))
    seg = lambda n: _seg(src, n)

    fn = find_func(tree, "biweight_location")
    for nm, key in (("BILOC_C", "c"), ("BILOC_EPS", "epsilon")):
        v = _default_node(fn, key)
        o.flt(nm, float(ast.literal_eval(v)), seg(v), f"biweight_location default {key}")
    o.defn("BILOC_MAX_ITER", "Nat", str(int(func_defaults(fn)["max_iter"])), "biweight_location default max_iter")

    fn = find_func(tree, "biweight_midvariance")
    for nm, key in (("BIVAR_C", "c"), ("BIVAR_EPS", "epsilon")):
        v = _default_node(fn, key)
        o.flt(nm, float(ast.literal_eval(v)), seg(v), f"biweight_midvariance default {key}")
    k = _only(_float_consts(fn), "float constant in biweight_midvariance")
    o.flt("MAD_SCALE_BIVAR", k.value, seg(k), "biweight_midvariance: MAD fallback scale")

    k = _only(_float_consts(find_func(tree, "median_absolute_deviation")), "float constant in median_absolute_deviation")
    o.flt("MAD_SCALE", k.value, seg(k), "median_absolute_deviation scale_to_sd factor")
    k = _only(_float_consts(find_func(tree, "weighted_mad")), "float constant in weighted_mad")
    o.flt("MAD_SCALE_WEIGHTED", k.value, seg(k), "weighted_mad scale_to_sd factor")

    fn = find_func(tree, "interquartile_range")
    sub = _only([n for n in _body_nodes(fn) if isinstance(n, ast.BinOp) and isinstance(n.op, ast.Sub)],
                "subtraction in interquartile_range")
    hi = sub.left.args[1]
    lo = sub.right.args[1]
    o.defn("IQR_Q_HI", "Nat", str(int(ast.literal_eval(hi))), "interquartile_range: percentile taken first (minuend)")
    o.defn("IQR_Q_LO", "Nat", str(int(ast.literal_eval(lo))), "interquartile_range: percentile subtracted")

    fn = find_func(tree, "q_n")
    q = _only(_percentile_args(fn), "percentile call in q_n")
    o.defn("QN_Q", "Nat", str(int(ast.literal_eval(q))), "q_n: percentile of the pairwise distances")
    cmps = [n for n in _body_nodes(fn) if isinstance(n, ast.Compare)]
    small = _only([c for c in cmps if len(c.ops) == 1 and isinstance(c.ops[0], ast.LtE)], "`n <= k` in q_n")
    chains = [c for c in cmps if len(c.ops) == 2 and all(isinstance(x, ast.Lt) for x in c.ops)]
    if chains:
        mid = _only(chains, "`k < n < m` in q_n")
        mid_lo, large = mid.left, mid.comparators[1]
    else:
        # `elif n < m` after `if n <= k`: the lower bound of the middle branch is the first test's k
        singles = [c for c in cmps if len(c.ops) == 1 and isinstance(c.ops[0], ast.Lt) and isinstance(c.left, ast.Name)
                   and isinstance(c.comparators[0], ast.Constant)]
        mid = _only(singles, "`k < n < m` (or `n < m` after `n <= k`) in q_n")
        mid_lo, large = small.comparators[0], mid.comparators[0]
    o.defn("QN_N_SMALL", "Nat", str(int(ast.literal_eval(small.comparators[0]))), "q_n: `n <= QN_N_SMALL` uses the constant scale")
    o.defn("QN_N_MID_LO", "Nat", str(int(ast.literal_eval(mid_lo))), "q_n: `QN_N_MID_LO < n < QN_N_LARGE` uses 1 + QN_NUM/n")
    o.defn("QN_N_LARGE", "Nat", str(int(ast.literal_eval(large))))
    fl = _float_consts(fn)
    if len(fl) != 3:
        raise ValueError(f"q_n: expected 3 float constants (small-sample scale, 1.0 + k/n, 1.0), found {len(fl)}")
    o.flt("QN_SCALE_SMALL", fl[0].value, seg(fl[0]), "q_n: scale for n <= QN_N_SMALL")
    o.flt("QN_SCALE_MID_BASE", fl[1].value, seg(fl[1]), "q_n: base of the mid-sample scale")
    o.flt("QN_SCALE_LARGE", fl[2].value, seg(fl[2]), "q_n: scale for n >= QN_N_LARGE")
    div = _only([n for n in _body_nodes(fn) if isinstance(n, ast.BinOp) and isinstance(n.op, ast.Div)
                 and isinstance(n.left, ast.Constant)], "`k / n` in q_n")
    o.defn("QN_NUM", "Nat", str(int(div.left.value)), "q_n: numerator of the mid-sample correction")

    tree, src = parse(os.path.join(repo, "cnvlib/smoothing.py"))
    fn = find_func(tree, "_width2wing")
    o.defn("MIN_WING", "Nat", str(int(func_defaults(fn)["min_wing"])), "_width2wing default min_wing")
    fn = find_func(tree, "savgol")
    d = func_defaults(fn)
    o.defn("SAVGOL_WINDOW_WIDTH", "Nat", str(int(d["window_width"])), "savgol default window_width")
    o.defn("SAVGOL_ORDER", "Nat", str(int(d["order"])), "savgol default order")
    caps = [n for n in _body_nodes(fn) if isinstance(n, ast.Call) and isinstance(n.func, ast.Name) and n.func.id == "min"
            and n.args and isinstance(n.args[0], ast.Constant) and isinstance(n.args[0].value, int)]
    o.defn("SAVGOL_MAX_ITER", "Nat", str(int(_only(caps, "`min(k, ...)` iteration cap in savgol").args[0].value)),
           "savgol: cap on the number of iterations")
