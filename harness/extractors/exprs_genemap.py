"""skgenome/gary.py _get_gene_map -> Generated/ExprsGeneMap.lean (dict-loop reading, see harness/dicttrans.py).

Props/C16SrcGeneMap.lean proves that the hand-written model of the gene map (`GeneExt.insert`, `rowStep`, `geneMap`) IS
these generated definitions, and Props/C16GeneMap.lean that the map so built is the one `Genes.byGeneChrom` iterates."""
import os

from ..dicttrans import emit_dict_loop
from ..translate import find_func, parse

NAME = "ExprsGeneMap"
IMPORTS = ["CnvVerif.Model.PyDictExt5"]
PATH = "skgenome/gary.py"


def extract(repo, o):
    def fn():
        tree, _src = parse(os.path.join(repo, PATH))
        return find_func(tree, "_get_gene_map", cls="GenomicArray")
    emit_dict_loop(o, fn, "src_gene_map", "gary._get_gene_map")
