"""cnvlib/segmentation/haar.py, hmm.py, __init__.py constants -> Generated/HaarConsts.lean

What the C11 model and theorems need that is written as a literal in the source:

* the level loop of `haarSeg`: for every `level` of `range(haarStartLevel, haarEndLevel + 1)` (defaults of the
  signature) the value of `stepHalfSize = 2**level` and of the window handed to `UnifyLevels`
  (`2 ** (level - 1)`), evaluated from the source expressions -> `HAAR_LEVEL_TABLE`;
* `FDRThres`: the `M < 2` guard, the value returned under it and the `1e-16` bump of the no-passing-p branch;
* the default `haar` threshold of `do_segmentation`;
* `by_arm` is covered by C03 (Generated/Consts); not repeated here;
* `hmm_get_model`: for each method branch the state names, the state means and the `frozen` flags of the
  `pom.NormalDistribution(mean, stdev, frozen=...)` list.
"""
import ast
import os
from ..translate import seg, parse, find_func, func_defaults, lstr

NAME = "HaarConsts"


def _eval(node, env):
    return eval(compile(ast.Expression(node), "<haar>", "eval"), {"__builtins__": {"range": range}}, dict(env))


def _haar_levels(fn, src, o):
    dfl = func_defaults(fn)
    env = {"haarStartLevel": dfl["haarStartLevel"], "haarEndLevel": dfl["haarEndLevel"]}
    o.defn("HAAR_START_LEVEL", "Nat", str(int(dfl["haarStartLevel"])), "haarSeg default haarStartLevel")
    o.defn("HAAR_END_LEVEL", "Nat", str(int(dfl["haarEndLevel"])), "haarSeg default haarEndLevel")
    loops = [n for n in ast.walk(fn) if isinstance(n, ast.For) and isinstance(n.target, ast.Name)
             and n.target.id == "level"]
    if len(loops) != 1:
        raise ValueError("haarSeg: expected exactly one `for level in ...` loop")
    loop = loops[0]
    levels = [int(v) for v in _eval(loop.iter, env)]
    step = None
    window = None
    for n in ast.walk(loop):
        if isinstance(n, ast.Assign) and len(n.targets) == 1 and isinstance(n.targets[0], ast.Name) \
                and n.targets[0].id == "stepHalfSize":
            step = n.value
        if isinstance(n, ast.Call) and getattr(n.func, "id", "") == "UnifyLevels":
            window = n.args[2]
    if step is None or window is None:
        raise ValueError("haarSeg: stepHalfSize assignment / UnifyLevels call not found in the level loop")
    rows = []
    for lv in levels:
        e = dict(env, level=lv)
        h = _eval(step, e)
        e["stepHalfSize"] = h
        w = _eval(window, e)
        if int(h) != h or int(w) != w or h < 0 or w < 0:
            raise ValueError("haarSeg: non-natural step / window")
        rows.append(f"({lv}, {int(h)}, {int(w)})")
    o.defn("HAAR_LEVEL_TABLE", "List (Nat × Nat × Nat)", "[" + ", ".join(rows) + "]",
           f"haarSeg level loop `for level in {seg(src, loop.iter)}`: "
           f"(level, stepHalfSize = {seg(src, step)}, "
           f"UnifyLevels window = {seg(src, window)})")
    # which convolution feeds the peak finder / which array the threshold is applied to
    calls = [seg(src, n) for n in ast.walk(loop)
             if isinstance(n, ast.Call) and getattr(n.func, "id", "") in ("HaarConv", "FindLocalPeaks", "FDRThres")]
    o.defn("HAAR_LOOP_CALLS", "List String", "[" + ", ".join(lstr(c) for c in calls) + "]",
           "HaarConv / FindLocalPeaks / FDRThres calls of the level loop, in source order")


def _fdr(fn, src, o):
    guard = None
    for n in fn.body:
        if isinstance(n, ast.If) and isinstance(n.test, ast.Compare) and getattr(n.test.left, "id", "") == "M" \
                and isinstance(n.test.ops[0], ast.Lt) and n.body and isinstance(n.body[0], ast.Return):
            guard = n
            break
    if guard is None:
        # no `if M < k: return c` any more: the model then never takes the fixed threshold (M < 0 is never true)
        o.defn("HAAR_FDR_MIN_M", "Nat", "0", "FDRThres: NO `if M < k: return c` guard found in the source")
        o.defn("HAAR_FDR_SMALL_T", "Rat", "(0 : Rat)", "FDRThres: (no guard)")
    else:
        o.defn("HAAR_FDR_MIN_M", "Nat", str(int(ast.literal_eval(guard.test.comparators[0]))),
               "FDRThres: `if M < k` guard (fewer peaks than k -> fixed threshold)")
        o.defn("HAAR_FDR_SMALL_T", "Rat", f"({int(ast.literal_eval(guard.body[0].value))} : Rat)",
               "FDRThres: threshold returned under the guard")
    bumps = []
    for n in ast.walk(fn):
        if isinstance(n, ast.Assign) and getattr(n.targets[0], "id", "") == "T" and isinstance(n.value, ast.BinOp) \
                and isinstance(n.value.op, ast.Add) and isinstance(n.value.right, ast.Constant):
            bumps.append(n.value.right)
    if len(bumps) != 1:
        raise ValueError("FDRThres: expected exactly one `T = x_sorted[0] + eps`")
    o.flt("HAAR_FDR_EPS", bumps[0].value, seg(src, bumps[0]), "FDRThres: T = x_sorted[0] + eps when no p-value passes")
    cmps = [seg(src, n) for n in ast.walk(fn) if isinstance(n, ast.Compare)]
    o.defn("HAAR_FDR_COMPARES", "List String", "[" + ", ".join(lstr(c) for c in cmps) + "]", "comparisons in FDRThres, in walk order")


def _hmm(fn, src, o):
    """walk the if/elif/else chain on `method`"""
    chain = [n for n in fn.body if isinstance(n, ast.If) and isinstance(n.test, ast.Compare)
             and getattr(n.test.left, "id", "") == "method"]
    if len(chain) != 1:
        raise ValueError("hmm_get_model: method if-chain not found")
    branches = []
    node = chain[0]
    while True:
        key = ast.literal_eval(node.test.comparators[0])
        branches.append((key, node.body))
        if len(node.orelse) == 1 and isinstance(node.orelse[0], ast.If):
            node = node.orelse[0]
        else:
            branches.append(("hmm", node.orelse))
            break
    for key, body in branches:
        tag = {"hmm-germline": "GERMLINE", "hmm-tumor": "TUMOR", "hmm": "FLEX"}[key]
        names, dists = None, None
        for st in body:
            if isinstance(st, ast.Assign) and getattr(st.targets[0], "id", "") == "state_names":
                names = ast.literal_eval(st.value)
            if isinstance(st, ast.Assign) and getattr(st.targets[0], "id", "") == "distributions":
                dists = st.value.elts
        if names is None or dists is None:
            raise ValueError(f"hmm_get_model[{key}]: state_names / distributions not found")
        means, decs, frozen = [], [], []
        from ..translate import rat, dec
        for d in dists:
            if getattr(d.func, "attr", "") != "NormalDistribution":
                raise ValueError("hmm_get_model: not a NormalDistribution")
            means.append(rat(float(ast.literal_eval(d.args[0]))))
            decs.append(dec(seg(src, d.args[0])))
            if getattr(d.args[1], "id", "") != "stdev":
                raise ValueError("hmm_get_model: second argument is not the common stdev")
            fr = [k.value for k in d.keywords if k.arg == "frozen"]
            frozen.append(bool(ast.literal_eval(fr[0])) if fr else False)
        o.defn(f"HMM_{tag}_STATES", "List String", "[" + ", ".join(lstr(s) for s in names) + "]", f"hmm_get_model, method {key!r}: state names")
        o.defn(f"HMM_{tag}_MEANS", "List Rat", "[" + ", ".join(means) + "]", f"method {key!r}: state means (exact doubles)")
        o.defn(f"HMM_{tag}_MEANS_dec", "List Rat", "[" + ", ".join(decs) + "]", f"method {key!r}: state means as written")
        o.defn(f"HMM_{tag}_FROZEN", "List Bool", "[" + ", ".join("true" if f else "false" for f in frozen) + "]", f"method {key!r}: frozen flags")


def extract(repo, o):
    tree, src = parse(os.path.join(repo, "cnvlib/segmentation/haar.py"))
    _haar_levels(find_func(tree, "haarSeg"), src, o)
    _fdr(find_func(tree, "FDRThres"), src, o)
    tree, src = parse(os.path.join(repo, "cnvlib/segmentation/__init__.py"))
    ds = find_func(tree, "do_segmentation")
    thr = None
    for n in ast.walk(ds):
        if isinstance(n, ast.Dict):
            for k, v in zip(n.keys, n.values):
                if isinstance(k, ast.Constant) and k.value == "haar":
                    thr = v
    if thr is None:
        raise ValueError("do_segmentation: default threshold table has no 'haar' entry")
    o.flt("HAAR_DEFAULT_Q", ast.literal_eval(thr), seg(src, thr), "do_segmentation: default threshold (FDR q) of method 'haar'")
    tree, src = parse(os.path.join(repo, "cnvlib/segmentation/hmm.py"))
    _hmm(find_func(tree, "hmm_get_model"), src, o)
