"""Source expressions of the chromosomal-sex code (cnvlib/cnary.py) -> Generated/ExprsSex.lean.

Read on every run (rules: harness/exprtrans.py, classes FnOpt / BoolFn, plus the shape reading below):
* `shift_xx`, `expect_flat_log2`, `chr_x_filter`, `chr_y_filter`: elementwise over flags and masks (BoolFn);
* `compare_chrom` (nested in `compare_sex_chromosomes`): the two `compare_to_auto(vals + shift, ...)` calls and the
  None-tests on their statistics, with `compare_to_auto` and `+` on value arrays abstract;
* `compare_sex_chromosomes`: the shift arguments of the chrX and chrY calls of `compare_chrom`, how the two ratios are
  combined into the score and the comparison that is returned.  Shape reading: the score is the name compared in the
  first element of the returned tuple; it is initialised from the chrX call and updated ONCE under
  `if len(<chrY bins>):` -- `score *= y`, `score = score * y` or `score = y * score`, in the branch where an
  `np.isfinite` guard is true (the guard itself is read as true: model values are finite; see `_score_update`).
Props/C15Src.lean proves the hand-written model equal to these definitions.
"""
import ast
import os

from ..exprtrans import BoolFn, FnOpt, Untranslatable, _rat

NAME = "ExprsSex"
PATH = "cnvlib/cnary.py"


def _fail(o, lean, what, e):
    o.lines.append(f"-- NOT TRANSLATED: {PATH}:{what}: {type(e).__name__}: {str(e)[:200]}".replace("\n", " "))
    o.info[lean] = {"error": str(e)[:200]}


def _boolfn(o, tree, fname, lean, comment, **kw):
    from ..translate import find_func
    try:
        text, params = BoolFn(find_func(tree, fname, cls="CopyNumArray"), **kw).translate(lean, comment)
    except (Untranslatable, KeyError) as e:
        return _fail(o, lean, fname, e)
    o.lines.append(text)
    o.info[lean] = {"params": params}


def _compare_chrom(o, cc):
    """def src_compare_chrom {α} (compare_to_auto : α → Option Rat × Rat) (add : α → Rat → α) (vals : α) (shifts… : Rat)"""
    lean = "src_compare_chrom"
    sig = [a.arg for a in cc.args.args]
    probe = FnOpt(cc, opaque={"compare_to_auto"}, decimal_floats=True)
    probe_given = None
    # first pass: find the opaque calls and the names of their statistics
    try:
        probe.given = set()
        try:
            probe.block(list(cc.body), {})
        except Untranslatable:
            pass   # the None-tests are unresolved in the probe; the calls have been collected by then
        calls = probe.opaque_calls
        if len(calls) != 2 or any(len(t) != 2 for t, _c in calls):
            raise Untranslatable("expected two `stat, diff = compare_to_auto(...)` assignments")
        vals = sig[0]
        binds = []
        for k, (targets, call) in enumerate(calls):
            a0 = call.args[0]
            if not (isinstance(a0, ast.BinOp) and isinstance(a0.op, (ast.Add, ast.Sub)) and isinstance(a0.left, ast.Name)
                    and a0.left.id == vals):
                raise Untranslatable("first argument of compare_to_auto is not `vals ± shift`: " + ast.unparse(a0))
            sh = FnOpt(cc, decimal_floats=True).expr(a0.right, {})
            if isinstance(a0.op, ast.Sub):
                sh = f"(-{sh})"
            binds.append((targets, f"compare_to_auto (add {vals} {sh})"))
        stat_names = [t[0] for t, _c in calls]
        arms = []
        for pres in ((True, True), (True, False), (False, True), (False, False)):
            given = {n for n, p in zip(stat_names, pres) if p}
            absent = {n for n, p in zip(stat_names, pres) if not p}
            f = FnOpt(cc, opaque={"compare_to_auto"}, given=given, absent=absent, decimal_floats=True)
            body = f.block(list(cc.body), {})
            pats = ", ".join(f"some {n}" if p else "none" for n, p in zip(stat_names, pres))
            arms.append(f"  | {pats} => {body}")
        shifts = [p for p in sig if p in probe.params or any(p in b for _t, b in binds)]
        shifts = [p for p in sig[1:] if any(f" {p}" in b or f"-{p}" in b for _t, b in binds)]
        lines = ["/-- cnary.compare_sex_chromosomes.compare_chrom: `compare_to_auto` (statistic or None, median difference) and "
                 "`+` on the value array are abstract; further pass-through arguments are not read -/",
                 f"def {lean} {{α : Type}} (compare_to_auto : α → Option Rat × Rat) (add : α → Rat → α) ({vals} : α) "
                 f"({' '.join(shifts)} : Rat) : Rat :="]
        for k, (targets, b) in enumerate(binds):
            lines.append(f"  let r{k} := {b}")
            lines.append(f"  let {targets[1]} := r{k}.2")
        lines.append("  match " + ", ".join(f"r{k}.1" for k in range(2)) + " with")
        lines += arms
    except (Untranslatable, KeyError, IndexError) as e:
        return _fail(o, lean, "compare_chrom", e), None
    o.lines.append("\n".join(lines))
    o.info[lean] = {"params": shifts}
    return None, [sig.index(p) for p in shifts]


def _const_or_flagexpr(e, fn_body, flags):
    """a shift argument: a signed number, or a name bound (possibly by tuple assignment) to numbers chosen by a flag"""
    def num(x):
        if isinstance(x, ast.UnaryOp) and isinstance(x.op, (ast.USub, ast.UAdd)) and isinstance(x.operand, ast.Constant):
            return _rat(-x.operand.value if isinstance(x.op, ast.USub) else x.operand.value)
        if isinstance(x, ast.Constant) and isinstance(x.value, (int, float)) and not isinstance(x.value, bool):
            return _rat(x.value)
        return None

    def flag(t):
        if isinstance(t, ast.Name):
            flags.append(t.id)
            return t.id
        if isinstance(t, ast.UnaryOp) and isinstance(t.op, ast.Not) and isinstance(t.operand, ast.Name):
            flags.append(t.operand.id)
            return f"(!{t.operand.id})"
        raise Untranslatable("flag " + ast.unparse(t))

    def val(x, idx=None):
        n = num(x)
        if n is not None and idx is None:
            return n
        if isinstance(x, ast.Tuple) and idx is not None:
            return val(x.elts[idx])
        if isinstance(x, ast.IfExp):
            return f"(if {flag(x.test)} then {val(x.body, idx)} else {val(x.orelse, idx)})"
        raise Untranslatable("shift value " + ast.unparse(x))
    n = num(e)
    if n is not None:
        return n
    if isinstance(e, ast.Name):
        for s in fn_body:
            if isinstance(s, ast.Assign) and len(s.targets) == 1:
                t = s.targets[0]
                if isinstance(t, ast.Name) and t.id == e.id:
                    return val(s.value)
                if isinstance(t, ast.Tuple):
                    ids = [x.id if isinstance(x, ast.Name) else None for x in t.elts]
                    if e.id in ids:
                        return val(s.value, ids.index(e.id))
    raise Untranslatable("shift argument " + ast.unparse(e))


def _score_update(csc, score):
    """The one update of the score under `if len(<chrY bins>):` -> (statement, operator, operand).
    Reading rule (round 5b): `score <op>= y`, `score = score <op> y` and, for the commutative `*` / `+`,
    `score = y <op> score` are the same update.  It may stand under a guard `np.isfinite(..)` in the branch where the
    guard is TRUE (`if isfinite(..): upd`, `if not isfinite(..): pass / else: upd`); an update in the branch where the
    guard is false, in the `else` of the `len` test, or under any other nested condition is not read (Untranslatable)."""
    def as_update(n):
        if isinstance(n, ast.AugAssign) and isinstance(n.target, ast.Name) and n.target.id == score:
            return n, n.op, n.value
        if isinstance(n, ast.Assign) and len(n.targets) == 1 and isinstance(n.targets[0], ast.Name) \
                and n.targets[0].id == score and isinstance(n.value, ast.BinOp):
            b = n.value
            if isinstance(b.left, ast.Name) and b.left.id == score:
                return n, b.op, b.right
            if isinstance(b.right, ast.Name) and b.right.id == score and isinstance(b.op, (ast.Mult, ast.Add)):
                return n, b.op, b.left
            raise Untranslatable("score reassigned by an expression that is not `score <op> ratio`: " + ast.unparse(n))
        return None

    def stores(stmts):
        return any(as_update(m) is not None for b in stmts for m in ast.walk(b)
                   if isinstance(m, (ast.Assign, ast.AugAssign)))

    def finite_guard(t):
        """+1: `isfinite(..)`, -1: `not isfinite(..)`, 0: something else"""
        if isinstance(t, ast.UnaryOp) and isinstance(t.op, ast.Not):
            return -finite_guard(t.operand)
        if isinstance(t, ast.Call) and ast.unparse(t.func).split(".")[-1] == "isfinite":
            return 1
        return 0

    found = []

    def scan(stmts):
        for st in stmts:
            u = as_update(st) if isinstance(st, (ast.Assign, ast.AugAssign)) else None
            if u is not None:
                found.append(u)
            elif isinstance(st, ast.If):
                g = finite_guard(st.test)
                yes, no = (st.body, st.orelse) if g > 0 else (st.orelse, st.body)
                if g == 0:
                    if stores(st.body) or stores(st.orelse):
                        raise Untranslatable("score updated under a condition that is not np.isfinite: " + ast.unparse(st.test))
                    continue
                if stores(no):
                    raise Untranslatable("score updated when the chrY ratio is NOT finite")
                scan(yes)
            elif stores([st]):
                raise Untranslatable("score updated inside " + type(st).__name__)

    for s in csc.body:
        if isinstance(s, ast.If) and isinstance(s.test, ast.Call) and ast.unparse(s.test.func) == "len":
            if stores(s.orelse):
                raise Untranslatable("score also updated when chrY has no bins")
            scan(s.body)
    if len(found) != 1:
        return None, None, None
    return found[0]


def _score(o, csc, shift_pos):
    """src_x_shifts / src_y_shifts / src_combined_score / src_is_male from compare_sex_chromosomes"""
    names = ("src_x_shifts", "src_y_shifts", "src_combined_score", "src_is_male")
    try:
        ret = [s for s in csc.body if isinstance(s, ast.Return)][-1]
        dec = ret.value.elts[0]
        if not (isinstance(dec, ast.Compare) and isinstance(dec.left, ast.Name) and len(dec.ops) == 1):
            raise Untranslatable("returned decision is not `score <op> number`")
        score = dec.left.id
        f = FnOpt(csc, decimal_floats=True)
        o_dec = f.cond(dec, {})
        # calls of compare_chrom by the name they are assigned to
        calls = {}
        for n in ast.walk(csc):
            if isinstance(n, ast.Assign) and len(n.targets) == 1 and isinstance(n.targets[0], ast.Name) \
                    and isinstance(n.value, ast.Call) and isinstance(n.value.func, ast.Name) \
                    and n.value.func.id == "compare_chrom":
                calls[n.targets[0].id] = n.value
        init = [s for s in csc.body if isinstance(s, ast.Assign) and len(s.targets) == 1
                and isinstance(s.targets[0], ast.Name) and s.targets[0].id == score]
        if len(init) != 1 or not isinstance(init[0].value, ast.Name) or init[0].value.id not in calls:
            raise Untranslatable("score is not initialised from one compare_chrom result")
        xname = init[0].value.id
        upd, upd_op, upd_val = _score_update(csc, score)
        nstores = sum(1 for n in ast.walk(csc) if isinstance(n, ast.Name) and n.id == score and isinstance(n.ctx, ast.Store))
        if upd is None or nstores != 2 or not isinstance(upd_val, ast.Name) or upd_val.id not in calls:
            raise Untranslatable("score update by the chrY ratio not found (or further assignments to the score)")
        yname = upd_val.id
        op = {ast.Mult: "*", ast.Add: "+", ast.Sub: "-", ast.Div: "/"}.get(type(upd_op))
        if op is None:
            raise Untranslatable("score update operator")
        flags = []
        xs = [_const_or_flagexpr(calls[xname].args[p], csc.body, flags) for p in shift_pos]
        fx = list(dict.fromkeys(flags))
        flags = []
        ys = [_const_or_flagexpr(calls[yname].args[p], csc.body, flags) for p in shift_pos]
        if flags or len(fx) > 1:
            raise Untranslatable("shift arguments depend on unexpected flags")
    except (Untranslatable, KeyError, IndexError, AttributeError) as e:
        for nm in names:
            _fail(o, nm, "compare_sex_chromosomes", e)
        return
    ps = f" ({' '.join(fx)} : Bool)" if fx else ""
    o.lines.append("/-- shifts handed to compare_chrom for chrX, in the order of its shift parameters -/\n"
                   f"def src_x_shifts{ps} : Rat × Rat :=\n  ({xs[0]}, {xs[1]})")
    o.lines.append("/-- ... and for chrY -/\n" f"def src_y_shifts : Rat × Rat :=\n  ({ys[0]}, {ys[1]})")
    o.lines.append("/-- the score: the chrX ratio, combined with the chrY ratio when chrY has bins -/\n"
                   f"def src_combined_score ({xname} : Rat) ({yname} : Option Rat) : Rat :=\n"
                   f"  match {yname} with\n  | some {yname} => ({xname} {op} {yname})\n  | none => {xname}")
    o.lines.append("/-- the decision returned (`True` = male) -/\n"
                   f"def src_is_male ({score} : Rat) : Prop :=\n  {o_dec}")
    for nm in names:
        o.info[nm] = {"ok": True}


def extract(repo, o):
    from ..translate import parse, find_func
    tree, _src = parse(os.path.join(repo, PATH))
    _boolfn(o, tree, "shift_xx", "src_shift_xx_delta",
            "cnary.shift_xx with the sex given: what is added to the log2 of one bin", given={"is_xx"})
    _boolfn(o, tree, "expect_flat_log2", "src_expect_flat",
            "cnary.expect_flat_log2 with the reference sex given: the value of one bin", given={"is_haploid_x_reference"})
    _boolfn(o, tree, "chr_x_filter", "src_sex_chr_x_filter_par", "cnary.chr_x_filter, a PAR genome given",
            given={"diploid_parx_genome"})
    _boolfn(o, tree, "chr_x_filter", "src_sex_chr_x_filter", "cnary.chr_x_filter, no PAR genome",
            absent={"diploid_parx_genome"})
    _boolfn(o, tree, "chr_y_filter", "src_sex_chr_y_filter_par", "cnary.chr_y_filter, a PAR genome given",
            given={"diploid_parx_genome"})
    _boolfn(o, tree, "chr_y_filter", "src_sex_chr_y_filter", "cnary.chr_y_filter, no PAR genome",
            absent={"diploid_parx_genome"})
    try:
        csc = find_func(tree, "compare_sex_chromosomes", cls="CopyNumArray")
        cc = [n for n in ast.walk(csc) if isinstance(n, ast.FunctionDef) and n.name == "compare_chrom"][0]
    except (KeyError, IndexError) as e:
        _fail(o, "src_compare_chrom", "compare_chrom", e)
        return
    _err, pos = _compare_chrom(o, cc)
    if pos is not None:
        _score(o, csc, pos)
