"""Source expressions -> Generated/ExprsBoost.lean (see harness/exprtrans.py for the reading of the Python subset).

* `vary._tumor_boost(t_freqs, n_freqs)`: the index-set scatter (`np.nonzero(mask)[0]`, `x.take(idx)`, `out[idx] = e`) read
  elementwise -- one tumour / normal frequency pair in, one boosted value out;
* `VariantArray.zygosity_from_freq(het_freq, hom_freq)`: the statements applied to each (frequency column, zygosity column)
  pair -- the body of `if zyg_key in self:` inside the loop over the two pairs -- read elementwise as a function of one
  frequency `vals` and the two thresholds; the value finally stored into `self[zyg_key]` is the result.

Props/C18SrcBoost.lean proves that the hand-written model functions equal these generated ones, so an edit to a formula
or a threshold comparison in /repo changes the generated term and breaks that proof obligation."""
import ast
import copy
import os

from ..exprtrans import emit, Fn, Untranslatable

NAME = "ExprsBoost"
SPECS = [
    ("cnvlib/vary.py", "_tumor_boost", "src_tumor_boost", {}, "vary._tumor_boost, one locus (t = tumour, n = normal frequency)"),
]


def _zygosity_body(tree):
    """the per-column-pair statements of VariantArray.zygosity_from_freq as a function of (vals, het_freq, hom_freq)"""
    from ..translate import find_func
    fn = find_func(tree, "zygosity_from_freq", cls="VariantArray")
    loops = [n for n in ast.walk(fn) if isinstance(n, ast.For)]
    if len(loops) != 1:
        raise Untranslatable("zygosity_from_freq: expected one loop over the column pairs")
    loop = loops[0]
    tgt = [e.id for e in loop.target.elts] if isinstance(loop.target, ast.Tuple) else []
    if len(tgt) != 2 or not isinstance(loop.iter, (ast.Tuple, ast.List)):
        raise Untranslatable("zygosity_from_freq: loop is not over (freq_key, zyg_key) pairs")
    pairs = [tuple(ast.literal_eval(e)) for e in loop.iter.elts]
    freq_key, zyg_key = tgt
    body = list(loop.body)
    # `if zyg_key in self:` guards the whole body
    if len(body) == 1 and isinstance(body[0], ast.If) and not body[0].orelse \
            and ast.unparse(body[0].test) == f"{zyg_key} in self":
        body = list(body[0].body)
    else:
        raise Untranslatable("zygosity_from_freq: loop body is not `if zyg_key in self:`")
    last = body[-1]
    if not (isinstance(last, ast.Assign) and len(last.targets) == 1
            and ast.unparse(last.targets[0]) == f"self[{zyg_key}]"):
        raise Untranslatable("zygosity_from_freq: the loop body does not end by storing the zygosity column")
    stmts = copy.deepcopy(body[:-1]) + [ast.Return(value=copy.deepcopy(last.value))]
    # the one statement that reads the frequency column binds the opaque local
    reads = [s for s in stmts if isinstance(s, ast.Assign) and ast.unparse(s.value) == f"self[{freq_key}].values"]
    if len(reads) != 1 or not isinstance(reads[0].targets[0], ast.Name):
        raise Untranslatable("zygosity_from_freq: the frequency column is not read once into a local")
    vals = reads[0].targets[0].id
    thresholds = [a.arg for a in fn.args.args if a.arg != "self"]
    args = ast.arguments(posonlyargs=[], args=[ast.arg(arg=vals)] + [ast.arg(arg=a) for a in thresholds],
                         kwonlyargs=[], kw_defaults=[], defaults=[])
    synth = ast.FunctionDef(name="zygosity_from_freq_column", args=args, body=stmts, decorator_list=[], lineno=fn.lineno,
                            col_offset=0)
    ast.fix_missing_locations(synth)
    return synth, vals, thresholds, pairs


def extract(repo, o):
    emit(repo, o, SPECS)
    from ..translate import parse, lstr
    lean = "src_zygosity_from_freq"
    try:
        tree, _src = parse(os.path.join(repo, "cnvlib/vary.py"))
        synth, vals, thresholds, pairs = _zygosity_body(tree)
        # positional names are fixed (vals, het_freq, hom_freq) whatever the source calls them
        ren = dict(zip([vals] + thresholds, ["vals", "het_freq", "hom_freq"]))
        if len(thresholds) != 2:
            raise Untranslatable("zygosity_from_freq: expected two thresholds")
        text, params = Fn(synth, opaque={vals}, rename=ren).translate(
            lean, "VariantArray.zygosity_from_freq, one frequency of one (frequency, zygosity) column pair")
        if params != ["vals", "het_freq", "hom_freq"]:
            raise Untranslatable(f"zygosity_from_freq: parameters {params}")
    except (Untranslatable, KeyError, OSError, SyntaxError, ValueError) as e:
        o.lines.append(f"-- NOT TRANSLATED: cnvlib/vary.py:zygosity_from_freq: {type(e).__name__}: {str(e)[:200]}".replace("\n", " "))
        o.info[lean] = {"error": str(e)[:200]}
        return
    o.lines.append(text)
    o.info[lean] = {"params": params}
    o.lines.append("/-- the (frequency column, zygosity column) pairs `zygosity_from_freq` re-types -/")
    o.lines.append("def src_zygosity_from_freq_columns : List (String × String) := ["
                   + ", ".join(f"({lstr(a)}, {lstr(b)})" for a, b in pairs) + "]")
    o.info["src_zygosity_from_freq_columns"] = pairs
