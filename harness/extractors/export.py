"""cnvlib/export.py (segments2vcf), skgenome/tabio/seg.py (format_seg):
the literals the exporters apply to coordinates and record types -> Generated/ExportConsts.lean"""
import ast
import os
from ..translate import parse, find_func, lstr

NAME = "ExportConsts"


def _sub_key(node):
    """the string key of `x["k"]` / `x.loc[mask, "k"]`, else None"""
    if not isinstance(node, ast.Subscript):
        return None, False
    sl = node.slice
    if isinstance(sl, ast.Constant) and isinstance(sl.value, str):
        return sl.value, False
    if isinstance(sl, ast.Tuple) and len(sl.elts) == 2 and isinstance(sl.elts[1], ast.Constant):
        return sl.elts[1].value, True
    return None, False


def _plus_const(node, attr):
    """`<something>.<attr> + c` -> c"""
    if (isinstance(node, ast.BinOp) and isinstance(node.op, (ast.Add, ast.Sub))
            and isinstance(node.left, ast.Attribute) and node.left.attr == attr):
        c = ast.literal_eval(node.right)
        return int(c) if isinstance(node.op, ast.Add) else -int(c)
    return None


def extract(repo, o):
    tree, src = parse(os.path.join(repo, "cnvlib/export.py"))
    fn = find_func(tree, "segments2vcf")
    # out_dframe["start"] = segments.start.replace(0, 1)
    rep = [n for n in ast.walk(fn) if isinstance(n, ast.Call) and isinstance(n.func, ast.Attribute)
           and n.func.attr == "replace" and isinstance(n.func.value, ast.Attribute) and n.func.value.attr == "start"]
    if len(rep) > 1:
        raise ValueError("segments2vcf: more than one start.replace(a, b)")
    # no replacement at all is the same as replacing 0 by 0
    a, b = (int(ast.literal_eval(x)) for x in rep[0].args) if rep else (0, 0)
    o.defn("VCF_POS_REPLACE_FROM", "Int", f"({a} : Int)", "segments2vcf: `segments.start.replace(FROM, TO)`")
    o.defn("VCF_POS_REPLACE_TO", "Int", f"({b} : Int)")
    dflt, loss = {}, {}
    for n in ast.walk(fn):
        if isinstance(n, ast.Assign) and len(n.targets) == 1 and isinstance(n.value, ast.Constant) \
                and isinstance(n.value.value, str):
            k, masked = _sub_key(n.targets[0])
            if k in ("svtype", "format"):
                (loss if masked else dflt)[k] = n.value.value
    for k in ("svtype", "format"):
        if k not in dflt or k not in loss:
            raise ValueError(f"segments2vcf: no default/loss assignment of {k}")
    o.defn("VCF_SVTYPE_GAIN", "String", lstr(dflt["svtype"]), 'segments2vcf: `out_dframe["svtype"] = ...` (every row, then losses overwritten)')
    o.defn("VCF_SVTYPE_LOSS", "String", lstr(loss["svtype"]), 'segments2vcf: `out_dframe.loc[idx_losses, "svtype"] = ...`')
    o.defn("VCF_FORMAT_GAIN", "List String", "[" + ", ".join(lstr(x) for x in dflt["format"].split(":")) + "]",
           "segments2vcf: FORMAT keys of a gain record")
    o.defn("VCF_FORMAT_LOSS", "List String", "[" + ", ".join(lstr(x) for x in loss["format"].split(":")) + "]",
           "segments2vcf: FORMAT keys of a loss record")
    aug = [n for n in ast.walk(fn) if isinstance(n, ast.AugAssign) and isinstance(n.op, ast.Mult)
           and isinstance(n.target, ast.Subscript) and isinstance(n.target.value, ast.Name)]
    # (whatever the local is called: the only masked `*=` of the function is the sign flip of the losses' length)
    if len(aug) > 1:
        raise ValueError("segments2vcf: more than one `svlen[idx_losses] *= c`")
    # no such statement is the same as multiplying by 1
    factor = int(ast.literal_eval(aug[0].value)) if aug else 1
    o.defn("VCF_SVLEN_LOSS_FACTOR", "Int", f"({factor} : Int)", "segments2vcf: `svlen[idx_losses] *= ...`")
    tree, src = parse(os.path.join(repo, "skgenome/tabio/seg.py"))
    fn = find_func(tree, "format_seg")
    kws = [kw.value for n in ast.walk(fn) if isinstance(n, ast.Call) for kw in n.keywords if kw.arg == "start"]
    if len(kws) > 1:
        raise ValueError("format_seg: more than one `start=` keyword")
    if kws and isinstance(kws[0], ast.Attribute) and kws[0].attr == "start":
        shift = 0  # `start=dframe.start`
    elif kws:
        shift = _plus_const(kws[0], "start")
        if shift is None:
            raise ValueError("format_seg: `start=` is not `dframe.start + c`")
    else:
        shift = 0  # start column passed through
    o.defn("SEG_START_SHIFT", "Int", f"({shift} : Int)", "seg.format_seg: `start=dframe.start + ...`")
