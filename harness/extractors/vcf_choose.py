"""How `_choose_samples` (skgenome/tabio/vcfio.py) builds and uses its `pairs` list -> Generated/VcfChoose.lean (see
harness/pipetrans.py for the reading).

The ORDER of the steps -- header-declared pairs first, else every other sample paired with the given normal, else every sample
unpaired; then the `sample_id` filter; then "nothing left: IndexError without a sample id, else the sample alone"; then the
uniqueness check; then the first pair -- is re-read from the source on every run.  The comprehensions, conditions, the check
loop and the returned expression are the vocabulary below (source text -> parameter name).  Props/C18SrcChoose.lean proves
that `chooseNamesH` of Model/VcfPairs.lean IS this structure with each parameter read on the model's data."""
import os

from ..pipetrans import emit_pipe

NAME = "VcfChoose"
PATH = "skgenome/tabio/vcfio.py"

_SAMPLES = "list(vcf_reader.header.samples)"
_PEDS = "list(_parse_pedigrees(vcf_reader))"
VOCAB = dict(
    atoms=[(_PEDS, "pedsTruthy"), ("normal_id", "normalIdTruthy"), ("sample_id", "sampleIdTruthy")],
    state_atoms=[("pairs", "nonEmpty")],
    values=[("None", "unset"), (_PEDS, "declared"),
            (f"[(oid, normal_id) for oid in [s for s in {_SAMPLES} if s != normal_id]]", "othersWithNormal"),
            (f"[(sid, None) for sid in {_SAMPLES}]", "allUnpaired"),
            ("[(sample_id, None)]", "sampleAlone")],
    transformers=[("[(s, n) for s, n in pairs if s == sample_id]", "keepSample")],
    effects=[(f"for sid in set(chain(*pairs)) - {{None}}:\n    _confirm_unique(sid, {_SAMPLES})", "confirmUnique")],
    raises=[("IndexError", "raiseIndexError")],
    returns=[("(pairs[0][0], pairs[0][1])", "firstPair")],
)
PARAMS = [("pedsTruthy normalIdTruthy sampleIdTruthy", "Bool"), ("unset declared othersWithNormal allUnpaired sampleAlone", "P"),
          ("keepSample", "P → P"), ("nonEmpty", "P → Bool"), ("confirmUnique", "P → R → R"), ("raiseIndexError", "R"),
          ("firstPair", "P → R")]


def extract(repo, o):
    from ..translate import parse
    tree, _src = parse(os.path.join(repo, PATH))
    params = [(n, t) for ns, t in PARAMS for n in ns.split()]
    emit_pipe(o, tree, "_choose_samples", "src_choose_samples_pairs", "pairs", params,
              comment="vcfio._choose_samples from `pairs = None` to its `return`: how the candidate pairs are built, filtered, "
                      "checked and the first one returned", where=PATH, **VOCAB)
