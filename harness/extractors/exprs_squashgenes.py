"""cnvlib/cnary.py squash_genes.squash_rows -> Generated/ExprsSquashGenes.lean (C16, round 5).

Reads HOW the nested `squash_rows(name, rows)` fills a squashed row: the list literal `outrow = [...]` with every
element traced to its defining assignment and written as a descriptor `(source column, how)`; the tuple of optional
fields the loop appends (`summary_func(rows[xfield])` when `xfield in self`); the summed field; the group size that
is copied unchanged.  Reading rules (trusted): `core.check_unique(rows.<c>, ...)` is `(c, "unique")`,
`rows.<c>.iat[0]` / `.iat[-1]` is `(c, "first")` / `(c, "last")`, `summary_func(rows.<c>)` / `summary_func(rows["c"])` is
`(c, "summary")`, `sum(rows["c"])` is `(c, "total")`, the function's first parameter is `("gene", "name")`.
Props/C16Squash.lean proves the model's `Squash16.headSpec / xfields / sumField` ARE these lists."""
import ast
import os

from ..exprtrans import Untranslatable
from ..translate import find_func, parse

NAME = "ExprsSquashGenes"
IMPORTS = []
PATH = "cnvlib/cnary.py"


def _s(x):
    return '"' + x + '"'


def _col(e, rows):
    if isinstance(e, ast.Attribute) and isinstance(e.value, ast.Name) and e.value.id == rows:
        return e.attr
    if isinstance(e, ast.Subscript) and isinstance(e.value, ast.Name) and e.value.id == rows \
            and isinstance(e.slice, ast.Constant) and isinstance(e.slice.value, str):
        return e.slice.value
    raise Untranslatable("not a column of the group: " + ast.unparse(e))


def describe(e, rows, name, summ):
    if isinstance(e, ast.Name) and e.id == name:
        return ("gene", "name")
    if isinstance(e, ast.Call) and isinstance(e.func, ast.Attribute) and e.func.attr == "check_unique":
        return (_col(e.args[0], rows), "unique")
    if isinstance(e, ast.Call) and isinstance(e.func, ast.Name) and e.func.id == summ and len(e.args) == 1:
        return (_col(e.args[0], rows), "summary")
    if isinstance(e, ast.Call) and isinstance(e.func, ast.Name) and e.func.id == "sum" and len(e.args) == 1:
        return (_col(e.args[0], rows), "total")
    if isinstance(e, ast.Subscript) and isinstance(e.value, ast.Attribute) and e.value.attr == "iat":
        k = e.slice
        if isinstance(k, ast.UnaryOp) and isinstance(k.op, ast.USub) and isinstance(k.operand, ast.Constant) and k.operand.value == 1:
            return (_col(e.value.value, rows), "last")
        if isinstance(k, ast.Constant) and k.value == 0:
            return (_col(e.value.value, rows), "first")
    raise Untranslatable("value of a squashed row: " + ast.unparse(e))


def read(repo):
    tree, _src = parse(os.path.join(repo, PATH))
    outer = find_func(tree, "squash_genes", cls="CopyNumArray")
    fn = next(n for n in outer.body if isinstance(n, ast.FunctionDef) and n.name == "squash_rows")
    summ = next(a.arg for a in outer.args.args if a.arg not in ("self",))  # summary_func: first parameter
    name, rows = fn.args.args[0].arg, fn.args.args[1].arg
    env, head, xfields, total, single, out = {}, None, None, None, None, None
    for s in fn.body:
        if isinstance(s, ast.Expr) and isinstance(s.value, ast.Constant):
            continue
        if isinstance(s, ast.Assign) and len(s.targets) == 1 and isinstance(s.targets[0], ast.Name):
            if isinstance(s.value, ast.List) and head is None:
                out = s.targets[0].id
                head = [describe(env.get(x.id, x) if isinstance(x, ast.Name) else x, rows, name, summ) for x in s.value.elts]
            else:
                env[s.targets[0].id] = s.value
            continue
        if isinstance(s, ast.If) and single is None and head is None:
            t = s.test
            if not (isinstance(t, ast.Compare) and isinstance(t.ops[0], ast.Eq) and ast.unparse(t.left) == f"len({rows})"
                    and isinstance(t.comparators[0], ast.Constant) and ast.unparse(s.body[0]) == f"return tuple({rows}.iloc[0])"):
                raise Untranslatable("single-row shortcut: " + ast.unparse(s)[:80])
            single = t.comparators[0].value
            continue

        def appended(body):
            if not (len(body) == 1 and isinstance(body[0], ast.Expr) and isinstance(body[0].value, ast.Call)
                    and ast.unparse(body[0].value.func) == f"{out}.append" and len(body[0].value.args) == 1):
                raise Untranslatable("not a single append: " + ast.unparse(body[0])[:80])
            return body[0].value.args[0]

        def guard(test, what):
            if not (isinstance(test, ast.Compare) and isinstance(test.ops[0], ast.In) and ast.unparse(test.left) == what
                    and ast.unparse(test.comparators[0]) == "self"):
                raise Untranslatable("guard is not `<field> in self`: " + ast.unparse(test))

        if isinstance(s, ast.For) and head is not None and xfields is None and isinstance(s.target, ast.Name) \
                and isinstance(s.iter, (ast.Tuple, ast.List)) and len(s.body) == 1 and isinstance(s.body[0], ast.If):
            x = s.target.id
            guard(s.body[0].test, x)
            v = appended(s.body[0].body)
            if ast.unparse(v) != f"{summ}({rows}[{x}])":
                raise Untranslatable("optional field value: " + ast.unparse(v))
            xfields = [c.value for c in s.iter.elts]
            continue
        if isinstance(s, ast.If) and head is not None and total is None and not s.orelse:
            d = describe(appended(s.body), rows, name, summ)
            guard(s.test, repr(d[0]))
            total = d
            continue
        if isinstance(s, ast.Return) and ast.unparse(s.value) == f"tuple({out})":
            continue
        raise Untranslatable("statement of squash_rows: " + ast.unparse(s)[:80])
    if None in (head, xfields, total, single):
        raise Untranslatable("squash_rows: a part is missing")
    return head, xfields, total, single


def extract(repo, o):
    try:
        head, xfields, total, single = read(repo)
    except (Untranslatable, KeyError, IndexError, StopIteration, OSError, SyntaxError, AttributeError) as e:
        o.lines.append(f"-- NOT TRANSLATED: src_squash: {type(e).__name__}: {str(e)[:200]}".replace("\n", " "))
        o.info["src_squash"] = {"error": str(e)[:200]}
        return
    pair = lambda d: f"({_s(d[0])}, {_s(d[1])})"
    o.defn("src_squash_head", "List (String × String)", "[" + ", ".join(pair(d) for d in head) + "]",
           "cnary.squash_genes.squash_rows: `outrow = [...]`, each value as (source column, how it is computed)")
    o.defn("src_squash_xfields", "List String", "[" + ", ".join(_s(x) for x in xfields) + "]",
           "squash_rows: the optional fields appended, in this order, as `summary_func(rows[xfield])` when the table has them")
    o.defn("src_squash_total", "String × String", pair(total), "squash_rows: the field appended last, summed, when the table has it")
    o.defn("src_squash_single", "Nat", str(single), "squash_rows: a group of this many rows is copied as it is")
