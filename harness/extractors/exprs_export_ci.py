"""Source body -> Generated/ExprsExportCi.lean (C20, round 5; reader: harness/colread_c20ci.py, COLUMN-wise).

* export.segments2vcf, the block `if "ci_left" in segments and "ci_right" in segments:` ->
  src_ci_pos_left / src_ci_pos_right / src_ci_end_left / src_ci_end_right : the four columns as functions of the
  table's ci_left / start / end / ci_right columns
* the f-strings added to INFO under `if has_ci:` -> src_ci_info_fields

Props/C20CiSrc.lean proves that the ROW-wise model (Model/ExportCiExt5.lean) yields these columns and this text."""
import os

from ..translate import parse, find_func
from ..colread_c20ci import read_columns, read_info_fields, Unreadable

NAME = "ExprsExportCi"
IMPORTS = []
WANT = ["ci_pos_left", "ci_pos_right", "ci_end_left", "ci_end_right"]


def extract(repo, o):
    tree, _src = parse(os.path.join(repo, "cnvlib/export.py"), inline=False)
    fn = find_func(tree, "segments2vcf")
    cols = read_columns(fn)
    if sorted(cols) != sorted(WANT):
        raise Unreadable(f"confidence-limit columns {sorted(cols)}")
    for name in WANT:
        o.defn("src_" + name, "List Int → List Int → List Int → List Int → List Int",
               "fun ci_left start end_ ci_right => " + cols[name],
               f"export.segments2vcf: out_dframe[\"{name}\"] as a function of the columns ci_left, start, end, ci_right")
    fields = read_info_fields(fn, set(WANT))
    o.defn("src_ci_info_fields", "Int → Int → Int → Int → List String",
           "fun ci_pos_left ci_pos_right ci_end_left ci_end_right => [" + ", ".join(fields) + "]",
           "export.segments2vcf: the INFO fields added under `if has_ci:`")
