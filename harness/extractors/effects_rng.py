"""RNG closure incl. LIBRARY routines that draw from the global generators internally -> Generated/EffectsRng.lean  (C10)

`effects.py` reads `np.random.*` / `random.*` calls.  A third-party routine that draws from numpy's global
`RandomState` singleton (or Python's `random`) INSIDE the library is invisible to that reading: `scipy.cluster.vq.kmeans2`
(k-means++ start), scikit-learn estimators with `random_state=None` (`PCA` picks the randomized SVD solver for
> 500 bins and >= 4 samples), `DataFrame.sample`, `scipy.stats.*.rvs`, resampling tests.  This extractor re-runs the
skeleton extraction of effects.py with a WIDER reading of "a call that touches a global generator":

  reading rule (trusted): a call `f(...)` / `<alias>.f(...)` whose `f` was imported from (or is an attribute of a module
  alias of) scipy / sklearn / pomegranate / pandas / numpy and is named in LIB_DRAWERS, or a method call `.sample(...)` /
  `.rvs(...)` on any receiver, MAY draw from the global generator any number of times (`Sk.star (draw "hidden")`) --
  unless it is given `random_state=` / `seed=` / `rng=` with an integer literal (a private generator).  A constructor
  (PCA, KMeans, ...) stands for its later `fit*` call.

* SKL_<function>      the RNG skeleton of every function that reaches a generator under this reading
* RNG_TABLE_LIB       (name, public, skeleton) -- a superset of RNG_TABLE
* LIBRARY_DRAW_SITES  (file, function, callee, seeded-by-keyword) for every library call read as a draw
"""
import ast

from ..translate import lstr
from . import effects as E

NAME = "EffectsRng"
IMPORTS = ["CnvVerif.Model.Effects"]
LIB_ROOTS = ("scipy", "sklearn", "pomegranate", "pandas", "numpy")
LIB_DRAWERS = {"kmeans2", "kmeans", "PCA", "TruncatedSVD", "KMeans", "MiniBatchKMeans", "GaussianMixture", "FastICA",
               "NMF", "randomized_svd", "resample", "bootstrap", "permutation_test", "monte_carlo_test",
               "train_test_split", "shuffle", "from_samples", "check_random_state"}
ANY_RECEIVER = {"sample", "rvs"}
SEED_KW = {"random_state", "seed", "rng"}
HIDDEN = ("star", ("draw", "hidden"))


def _lib_aliases(mod):
    """name -> dotted origin for every import of a third-party library anywhere in the module (function-level too)"""
    if hasattr(mod, "_libs"):
        return mod._libs
    libs = {}
    for n in ast.walk(mod.tree):
        if isinstance(n, ast.Import):
            for a in n.names:
                if a.name.split(".")[0] in LIB_ROOTS:
                    libs[a.asname or a.name.split(".")[0]] = a.name if a.asname else a.name.split(".")[0]
        elif isinstance(n, ast.ImportFrom) and n.module and n.level == 0 and n.module.split(".")[0] in LIB_ROOTS:
            for a in n.names:
                libs[a.asname or a.name] = n.module + "." + a.name
    mod._libs = libs
    return libs


def _seeded_kw(call):
    for k in call.keywords:
        if k.arg in SEED_KW and isinstance(k.value, ast.Constant) and isinstance(k.value.value, int) \
                and not isinstance(k.value.value, bool):
            return True
    return False


def _root(e):
    while isinstance(e, ast.Attribute):
        e = e.value
    return e.id if isinstance(e, ast.Name) else None


def library_draw(mod, call):
    """the library routine's name when `call` is read as a possible hidden draw, else None"""
    f = call.func
    libs = _lib_aliases(mod)
    if isinstance(f, ast.Name):
        org = libs.get(f.id)
        if org and org.rsplit(".", 1)[-1] in LIB_DRAWERS:
            return org
        return None
    if isinstance(f, ast.Attribute):
        if f.attr in ANY_RECEIVER:
            # np.random.sample / random.sample are read by effects.rng_call already
            return "." + f.attr
        r = _root(f.value)
        if f.attr in LIB_DRAWERS and r in libs and r not in mod.np:
            return libs[r] + "." + f.attr
    return None


def rng_call_lib(mod, call):
    r = E.rng_call(mod, call)
    if r is not None:
        return r
    name = library_draw(mod, call)
    if name is None:
        return None
    return E.NOP if _seeded_kw(call) else HIDDEN


def defname(key):
    return "SKL_" + "".join(c if c.isalnum() else "_" for c in key)


def to_lean(t):
    k = t[0]
    if k == "ref":
        return defname(t[1])
    if k == "nop":
        return "Sk.nop"
    if k == "seed":
        return "Sk.op (ROp.seed %s)" % ("none" if t[1] is None else "(some %d)" % t[1])
    if k == "draw":
        return "Sk.op (ROp.draw %s)" % lstr(t[1])
    if k == "star":
        return "Sk.star (%s)" % to_lean(t[1])
    return "Sk.%s (%s) (%s)" % (k, to_lean(t[1]), to_lean(t[2]))


def extract(repo, o):
    ex = E.Extractor(repo, rng_call_hook=rng_call_lib)
    reach = ex.reach()
    for key in sorted(reach):
        ex.skel(key)
    o.lines.append("open CnvVerif.Effects")
    for key in ex.order:
        t = ex.defs[key]
        if E.has_ops(t):
            o.defn(defname(key), "Sk", to_lean(t), "RNG skeleton (library draws included) of " + key)
    rows = []
    for key in sorted(k for k in ex.order if E.has_ops(ex.defs[k])):
        fname = key.rsplit(".", 1)[1]
        public = not fname.startswith("_") or (fname.startswith("__") and fname.endswith("__"))
        rows.append("(%s, %s, %s)" % (lstr(key), "true" if public else "false", defname(key)))
    o.defn("RNG_TABLE_LIB", "List (String × Bool × Sk)", "[\n  " + ",\n  ".join(rows) + "]",
           "every function of cnvlib/skgenome that reaches a global random generator, library routines included")
    sites = []
    for key, (m, fn) in ex.funcs.items():
        for n in ast.walk(fn):
            if isinstance(n, ast.Call) and E.rng_call(m, n) is None:
                nm = library_draw(m, n)
                if nm is not None:
                    sites.append((m.rel, fn.name, nm, "true" if _seeded_kw(n) else "false"))
    sites = sorted(set(sites))
    o.defn("LIBRARY_DRAW_SITES", "List (String × String × String × Bool)",
           "[" + ",\n  ".join("(%s, %s, %s, %s)" % (lstr(a), lstr(b), lstr(c), d) for a, b, c, d in sites) + "]",
           "(file, function, library routine, given a literal seed): calls read as drawing from the global generator inside a library")
